//! C14 correspondence harness: BigNum / Int / BigInt / Value arithmetic and encodings.
//! `c14 gen <dir>` generates cases from VERIF_SEED / VERIF_TIER and runs the implementation;
//! `c14 run <cases> <out>` runs the implementation on given case lines (replay / corpus).
//!
//! Case kinds (first token) and the implementation's observation:
//!   bn <add|sub|mul|csub|div> a b        -> ok n | err | panic
//!   bncmp a b                            -> ok <compare> <less_than 0/1> <max>
//!   bnstr <text hex>                     -> ok n | err                       (BigNum::from_str)
//!   bnrt n                               -> ok <to_str hex> <from_str(to_str)> <to_bytes hex> <from_bytes(to_bytes)>
//!   int <new|neg|i32|str|bytes|big|json|key> <arg>
//!                                        -> none | ok <to_str> <to_bytes hex|panic> <as_positive|~> <as_negative|~>
//!                                           <as_i32|~> <from_str(to_str)> <from_bytes(to_bytes)> <serde_json round trip>
//!   jint|jmint <text hex>              -> as `int`: Int::from_json / Mint::from_json with the text as the JSON string of the amount
//!   jbn|jbi <text hex>, jval <coin text hex> <qty text hex> -> BigNum / BigInt / Value::from_json: ok … | err
//!   mint <n> (a|s) <key 0..3> <amount> … -> ok <flags> e0 e1 e2 e3 | err <flags>      (e = ~ | <to_str>:<to_bytes hex>)
//!   biz <z>                              -> ok <to_bytes hex|panic> <from_bytes(to_bytes)> <to_str hex> <from_str(to_str)>
//!                                           <as_u64|~> <as_int|~> <is_zero 0/1>
//!   bibytes <cbor hex>                   -> ok z <to_bytes hex> <from_bytes(to_bytes)> | err
//!   bistr <text hex>                     -> ok z | err                       (BigInt::from_str)
//!   biop <add|sub|mul|divf|divc> a b     -> ok z | panic
//!   val <V> <V>                          -> ok add=<R> rev=<R> sub=<R> csub=<V> undo=<R|-> cmp=<~|-1|0|1> ord=<lt le gt ge bits> eq=<0/1> zero=<0/1>
//!   val3 <V> <V> <V>                     -> ok <R> <R>                       ((a+b)+c, a+(b+c))
//! V = <coin>/~ (no multiasset) | <coin>/. (empty multiasset) | <coin>/<policy hex>:<name hex|->=<qty>,…;<policy>:…
//! R = V | err | panic
use cardano_serialization_lib::*;
use csl_verif_harness::util::*;
use std::panic::AssertUnwindSafe;

fn bn(s: &str) -> BigNum { BigNum::from_str(s).expect("u64 in case") }
fn txt(h: &str) -> String { String::from_utf8_lossy(&unhex_or_dash(h)).into_owned() }
fn g<F: FnOnce() -> String>(f: F) -> String { guarded(AssertUnwindSafe(f)) }

// ---------------------------------------------------------------------------------------------
// Value <-> token
fn parse_value(tok: &str) -> Value {
    let (c, m) = tok.split_once('/').expect("value token");
    let mut v = Value::new(&bn(c));
    if m == "~" { return v; }
    let mut ma = MultiAsset::new();
    if m != "." {
        for p in m.split(';') {
            let (pid, rest) = p.split_once(':').expect("policy");
            let pid = ScriptHash::from_bytes(hex::decode(pid).unwrap()).expect("28-byte policy");
            let mut assets = Assets::new();
            if !rest.is_empty() {
                for a in rest.split(',') {
                    let (n, q) = a.split_once('=').expect("asset");
                    assets.insert(&AssetName::new(unhex_or_dash(n)).expect("asset name"), &bn(q));
                }
            }
            ma.insert(&pid, &assets);
        }
    }
    v.set_multiasset(&ma);
    v
}
fn show_value(v: &Value) -> String {
    let c = v.coin().to_str();
    match v.multiasset() {
        None => format!("{}/~", c),
        Some(ma) => {
            if ma.len() == 0 { return format!("{}/.", c); }
            let pids = ma.keys();
            let mut ps = Vec::new();
            for i in 0..pids.len() {
                let pid = pids.get(i);
                let assets = ma.get(&pid).unwrap();
                let names = assets.keys();
                let mut es = Vec::new();
                for j in 0..names.len() {
                    let n = names.get(j);
                    es.push(format!("{}={}", hex_or_dash(&n.name()), assets.get(&n).unwrap().to_str()));
                }
                ps.push(format!("{}:{}", hex::encode(pid.to_bytes()), es.join(",")));
            }
            format!("{}/{}", c, ps.join(";"))
        }
    }
}
fn show_ma(ma: &MultiAsset) -> String { let mut v = Value::new(&BigNum::zero()); v.set_multiasset(ma); show_value(&v) }
fn show_rv(r: Result<Value, JsError>) -> String { match r { Ok(v) => show_value(&v), Err(_) => "err".into() } }

// ---------------------------------------------------------------------------------------------
fn show_int(i: &Int) -> String {
    let z = i.to_str();
    let cbor = g(|| hex::encode(i.to_bytes()));
    let pos = i.as_positive().map(|x| x.to_str()).unwrap_or("~".into());
    let neg = g(|| i.as_negative().map(|x| x.to_str()).unwrap_or("~".into()));
    let i32_ = i.as_i32_or_nothing().map(|x| x.to_string()).unwrap_or("~".into());
    let s2 = g(|| Int::from_str(&i.to_str()).map(|x| x.to_str()).unwrap_or("err".into()));
    let b2 = g(|| Int::from_bytes(i.to_bytes()).map(|x| x.to_str()).unwrap_or("err".into()));
    let j2 = g(|| { let j = serde_json::to_string(i).unwrap(); serde_json::from_str::<Int>(&j).map(|x| x.to_str()).unwrap_or("err".into()) });
    // the JSON number written for a metadatum holding this Int (the three schemas must agree on the literal)
    let mj = g(|| {
        let m = TransactionMetadatum::new_int(i);
        let plain = |schema| decode_metadatum_to_json_str(&m, schema).map(|t| t.trim().to_string()).map_err(|_| ());
        let a = plain(MetadataJsonSchema::NoConversions);
        let b = plain(MetadataJsonSchema::BasicConversions);
        let c = plain(MetadataJsonSchema::DetailedSchema).map(|t| t.trim_start_matches("{\"int\":").trim_end_matches('}').trim().to_string());
        if a != b || a != c { return "schemas-differ".into(); }
        match a { Ok(t) => hex_or_dash(t.as_bytes()), Err(_) => "err".into() }
    });
    format!("ok {} {} {} {} {} {} {} {} {}", z, cbor, pos, neg, i32_, s2, b2, j2, mj)
}
fn json_str(text: &str) -> String { serde_json::to_string(text).unwrap() }

fn policy_of(k: usize) -> (NativeScript, ScriptHash) {
    let kh = Ed25519KeyHash::from_bytes(vec![k as u8 + 1; 28]).unwrap();
    let s = NativeScript::new_script_pubkey(&ScriptPubkey::new(&kh));
    let h = s.hash();
    (s, h)
}
fn mint_name(k: u64) -> AssetName { AssetName::new(vec![b'k', k as u8]).unwrap() }

fn exec(t: &[&str]) -> String {
    match t {
        ["bn", op, a, b] => {
            let (a, b) = (bn(a), bn(b));
            let show = |r: Result<BigNum, JsError>| match r { Ok(v) => format!("ok {}", v.to_str()), Err(_) => "err".into() };
            match *op {
                "add" => show(a.checked_add(&b)),
                "sub" => show(a.checked_sub(&b)),
                "mul" => show(a.checked_mul(&b)),
                "csub" => format!("ok {}", a.clamped_sub(&b).to_str()),
                "div" => format!("ok {}", a.div_floor(&b).to_str()),
                _ => "harness-badcase".into(),
            }
        }
        ["bncmp", a, b] => {
            let (a, b) = (bn(a), bn(b));
            format!("ok {} {} {}", a.compare(&b), a.less_than(&b) as u8, BigNum::max(&a, &b).to_str())
        }
        ["bnstr", h] => match BigNum::from_str(&txt(h)) { Ok(v) => format!("ok {}", v.to_str()), Err(_) => "err".into() },
        ["bnrt", n] => {
            let n = bn(n);
            let s = n.to_str();
            let r1 = BigNum::from_str(&s).map(|x| x.to_str()).unwrap_or("err".into());
            let bytes = n.to_bytes();
            let r2 = BigNum::from_bytes(bytes.clone()).map(|x| x.to_str()).unwrap_or("err".into());
            format!("ok {} {} {} {}", hex_or_dash(s.as_bytes()), r1, hex::encode(bytes), r2)
        }
        ["int", how, arg] => {
            let i: Option<Int> = match *how {
                "new" => Some(Int::new(&bn(arg))),
                "neg" => Some(Int::new_negative(&bn(arg))),
                "i32" => Some(Int::new_i32(arg.parse::<i32>().expect("i32"))),
                "str" => Int::from_str(&txt(arg)).ok(),
                "bytes" => Int::from_bytes(unhex_or_dash(arg)).ok(),
                "big" => BigInt::from_str(arg).expect("bigint").as_int(),
                // a JSON document that is just the number literal
                "json" => encode_json_str_to_metadatum(txt(arg), MetadataJsonSchema::NoConversions).ok().and_then(|m| m.as_int().ok()),
                // a JSON object with this key, BasicConversions: the key of the single entry, when it became an Int
                "key" => {
                    let key = serde_json::to_string(&txt(arg)).unwrap();
                    encode_json_str_to_metadatum(format!("{{{}:0}}", key), MetadataJsonSchema::BasicConversions).ok()
                        .and_then(|m| m.as_map().ok()).and_then(|m| { let ks = m.keys(); if ks.len() == 1 { ks.get(0).as_int().ok() } else { None } })
                }
                _ => return "harness-badcase".into(),
            };
            match i { Some(i) => show_int(&i), None => "none".into() }
        }
        // serde / JSON entry points: the text is the content of the JSON string that carries the number
        ["jint", h] => match Int::from_json(&json_str(&txt(h))) { Ok(i) => show_int(&i), Err(_) => "none".into() },
        ["jmint", h] => {
            let (_, pid) = policy_of(0);
            let mut ma = MintAssets::new(); ma.insert(&mint_name(0), &Int::new_i32(1)).unwrap();
            let mut m = Mint::new(); m.insert(&pid, &ma);
            let js = m.to_json().unwrap().replace("\"1\"", &json_str(&txt(h)));
            match Mint::from_json(&js) {
                Ok(m2) => match m2.get(&pid).and_then(|l| l.get(0)).and_then(|a| a.get(&mint_name(0))) { Some(i) => show_int(&i), None => "none".into() },
                Err(_) => "none".into(),
            }
        }
        ["jbn", h] => match BigNum::from_json(&json_str(&txt(h))) { Ok(v) => format!("ok {}", v.to_str()), Err(_) => "err".into() },
        ["jbi", h] => match BigInt::from_json(&json_str(&txt(h))) { Ok(v) => format!("ok {}", v.to_str()), Err(_) => "err".into() },
        ["jval", hc, hq] => {
            let mut ma = MultiAsset::new();
            let pid = ScriptHash::from_bytes(vec![7u8; 28]).unwrap();
            ma.set_asset(&pid, &AssetName::new(vec![0x78]).unwrap(), &BigNum::from(2u64));
            let v = Value::new_with_assets(&BigNum::from(1u64), &ma);
            let js = v.to_json().unwrap().replace("\"1\"", &json_str(&txt(hc))).replace("\"2\"", &json_str(&txt(hq)));
            match Value::from_json(&js) {
                Ok(v2) => format!("ok {} {}", v2.coin().to_str(), v2.multiasset().map(|m| m.get_asset(&pid, &AssetName::new(vec![0x78]).unwrap()).to_str()).unwrap_or("~".into())),
                Err(_) => "err".into(),
            }
        }
        ["mint", n, rest @ ..] => {
            let n: usize = n.parse().unwrap();
            let (script, pid) = policy_of(0);
            let w = MintWitness::new_native_script(&NativeScriptSource::new(&script));
            let mut b = MintBuilder::new();
            let mut flags = String::new();
            for i in 0..n {
                let (op, k, z) = (rest[3 * i], rest[3 * i + 1].parse::<u64>().unwrap(), rest[3 * i + 2]);
                let amount = Int::from_str(z).expect("mint amount in Int range");
                let r = if op == "a" { b.add_asset(&w, &mint_name(k), &amount) } else { b.set_asset(&w, &mint_name(k), &amount) };
                flags.push(if r.is_ok() { '1' } else { '0' });
            }
            if flags.is_empty() { flags.push('-'); }
            match b.build() {
                Err(_) => format!("err {}", flags),
                Ok(mint) => {
                    let ma = mint.get(&pid).and_then(|l| l.get(0));
                    let (pos, neg) = (mint.as_positive_multiasset(), mint.as_negative_multiasset());
                    let mut es = Vec::new();
                    for k in 0..4u64 {
                        es.push(match ma.as_ref().and_then(|m| m.get(&mint_name(k))) {
                            Some(i) => format!("{}:{}:{}:{}", i.to_str(), g(|| hex::encode(i.to_bytes())),
                                               pos.get_asset(&pid, &mint_name(k)).to_str(), neg.get_asset(&pid, &mint_name(k)).to_str()),
                            None => "~".into(),
                        });
                    }
                    // the whole Mint survives its own CBOR round trip
                    let rt = g(|| match Mint::from_bytes(mint.to_bytes()) { Ok(m2) => if m2 == mint { "same".into() } else { "differs".into() }, Err(_) => "err".into() });
                    if rt != "same" && mint.len() > 0 { return format!("ok {} mint-roundtrip-{}", flags, rt); }
                    format!("ok {} {}", flags, es.join(" "))
                }
            }
        }
        ["mintv", ne, rest @ ..] => {
            let ne: usize = ne.parse().unwrap();
            let mut mint = Mint::new();
            let mut i = 0usize;
            for _ in 0..ne {
                let pid = ScriptHash::from_bytes(hex::decode(rest[i]).unwrap()).unwrap();
                let na: usize = rest[i + 1].parse().unwrap();
                i += 2;
                let mut ma = MintAssets::new();
                for _ in 0..na {
                    ma.insert(&AssetName::new(unhex_or_dash(rest[i])).unwrap(), &Int::from_str(rest[i + 1]).expect("Int")).expect("non-zero");
                    i += 2;
                }
                mint.insert(&pid, &ma);
            }
            format!("ok {} {}", show_ma(&mint.as_positive_multiasset()), show_ma(&mint.as_negative_multiasset()))
        }
        ["biz", z] => {
            let b = BigInt::from_str(z).expect("bigint");
            let cbor = g(|| hex::encode(b.to_bytes()));
            let mut rt = g(|| BigInt::from_bytes(b.to_bytes()).map(|x| x.to_str()).unwrap_or("err".into()));
            // the same integer inside PlutusData: same bytes, same value back
            let pd = g(|| {
                let d = PlutusData::new_integer(&b);
                let bytes = d.to_bytes();
                if bytes != b.to_bytes() { return "pd-bytes-differ".into(); }
                PlutusData::from_bytes(bytes).ok().and_then(|x| x.as_integer()).map(|x| x.to_str()).unwrap_or("err".into())
            });
            if pd != rt && rt != "panic" { rt = format!("plutus-data:{}", pd); }
            let s = b.to_str();
            let srt = BigInt::from_str(&s).map(|x| x.to_str()).unwrap_or("err".into());
            format!("ok {} {} {} {} {} {} {}", cbor, rt, hex_or_dash(s.as_bytes()), srt,
                b.as_u64().map(|x| x.to_str()).unwrap_or("~".into()), b.as_int().map(|x| x.to_str()).unwrap_or("~".into()), b.is_zero() as u8)
        }
        ["bibytes", h] => match BigInt::from_bytes(unhex_or_dash(h)) {
            Err(_) => "err".into(),
            Ok(b) => {
                let bytes = b.to_bytes();
                format!("ok {} {} {}", b.to_str(), hex::encode(&bytes), BigInt::from_bytes(bytes).map(|x| x.to_str()).unwrap_or("err".into()))
            }
        },
        ["bistr", h] => match BigInt::from_str(&txt(h)) { Ok(v) => format!("ok {}", v.to_str()), Err(_) => "err".into() },
        ["biop", op, a, b] => {
            let (a, b) = (BigInt::from_str(a).unwrap(), BigInt::from_str(b).unwrap());
            let r = match *op { "add" => a.add(&b), "sub" => a.sub(&b), "mul" => a.mul(&b), "divf" => a.div_floor(&b), "divc" => a.div_ceil(&b),
                                _ => return "harness-badcase".into() };
            format!("ok {}", r.to_str())
        }
        ["val", a, b] => {
            let (a, b) = (parse_value(a), parse_value(b));
            let add = a.checked_add(&b);
            let undo = match &add { Ok(c) => g(|| show_rv(c.checked_sub(&b))), Err(_) => "-".into() };
            let cmp = a.compare(&b).map(|x| x.to_string()).unwrap_or("~".into());
            let msub = g(|| show_ma(&a.multiasset().unwrap_or(MultiAsset::new()).sub(&b.multiasset().unwrap_or(MultiAsset::new()))));
            format!("ok add={} rev={} sub={} csub={} msub={} undo={} cmp={} ord={}{}{}{} eq={} zero={}",
                show_rv(add), g(|| show_rv(b.checked_add(&a))), g(|| show_rv(a.checked_sub(&b))), g(|| show_value(&a.clamped_sub(&b))), msub, undo, cmp,
                (a < b) as u8, (a <= b) as u8, (a > b) as u8, (a >= b) as u8, (a == b) as u8, a.is_zero() as u8)
        }
        ["val3", a, b, c] => {
            let (a, b, c) = (parse_value(a), parse_value(b), parse_value(c));
            let l = a.checked_add(&b).and_then(|x| x.checked_add(&c));
            let r = b.checked_add(&c).and_then(|y| a.checked_add(&y));
            format!("ok {} {}", show_rv(l), show_rv(r))
        }
        _ => "harness-badcase".into(),
    }
}

// ---------------------------------------------------------------------------------------------
// generators
const E: [u64; 12] = [0, 1, 2, (1u64 << 63) - 1, 1u64 << 63, (1u64 << 63) + 1, u64::MAX - 1, u64::MAX, 1u64 << 32, (1u64 << 32) - 1, 1_000_000, 24];

fn policies() -> Vec<String> {
    let mut v = Vec::new();
    for (first, last) in [(0u8, 0u8), (0, 1), (1, 0), (0xff, 0xff), (0x7f, 0x80)] {
        let mut p = vec![0x11u8; 28]; p[0] = first; p[27] = last; v.push(hex::encode(p));
    }
    v
}
fn names(r: &mut Rng) -> Vec<String> {
    // different lengths with reversed byte order, to exercise the length-first order of AssetName
    let mut v: Vec<String> = vec!["-".into(), "61".into(), "62".into(), "6161".into(), "0002".into(), "01".into(), "0100".into(), "ff".into(), "00ff".into()];
    v.push(hex::encode(vec![0x41u8; 32]));
    let mut long = vec![0x41u8; 32]; long[31] = 0x42; v.push(hex::encode(long));
    let ln = 1 + r.below(31) as usize;
    v.push(hex::encode(r.bytes(ln)));
    v
}
fn qty(r: &mut Rng) -> u64 { match r.below(6) { 0 => 0, 1 => *r.pick(&E), 2 => r.below(10) + 1, _ => r.u64_edge() } }

type Bundle = Vec<(String, Vec<(String, u64)>)>;
fn show_bundle(coin: u64, m: &Option<Bundle>) -> String {
    match m {
        None => format!("{}/~", coin),
        Some(ps) if ps.is_empty() => format!("{}/.", coin),
        Some(ps) => format!("{}/{}", coin, ps.iter().map(|(p, es)| format!("{}:{}", p, es.iter().map(|(n, q)| format!("{}={}", n, q)).collect::<Vec<_>>().join(","))).collect::<Vec<_>>().join(";")),
    }
}
fn gen_bundle(r: &mut Rng, pols: &[String], nms: &[String]) -> Option<Bundle> {
    match r.below(10) { 0 => return None, 1 => return Some(vec![]), _ => {} }
    let np = 1 + r.below(3) as usize;
    let mut ps: Bundle = Vec::new();
    for _ in 0..np {
        let p = r.pick(pols).clone();
        if ps.iter().any(|(q, _)| *q == p) { continue; }
        let na = if r.chance(1, 12) { 0 } else { 1 + r.below(4) as usize };
        let mut es: Vec<(String, u64)> = Vec::new();
        for _ in 0..na {
            let n = r.pick(nms).clone();
            if es.iter().any(|(m, _)| *m == n) { continue; }
            es.push((n, qty(r)));
        }
        ps.push((p, es));
    }
    Some(ps)
}
/// a second bundle related to the first: same / sub-bundle / complement to 2^64 / overlapping / disjoint
fn related(r: &mut Rng, a: &Option<Bundle>, pols: &[String], nms: &[String]) -> Option<Bundle> {
    let base = match a { Some(x) if !x.is_empty() => x.clone(), _ => return gen_bundle(r, pols, nms) };
    let mode = r.below(7);
    if mode == 6 { return gen_bundle(r, pols, nms); }
    let mut out: Bundle = Vec::new();
    for (p, es) in base.iter() {
        if r.chance(1, 6) { continue; }
        let mut fs = Vec::new();
        for (n, q) in es.iter() {
            if r.chance(1, 6) { continue; }
            let q2 = match mode {
                0 => *q,                                                        // equal
                1 => if *q == 0 { 0 } else { r.below(*q).min(*q) },              // strictly smaller (or 0)
                2 => upto(r, *q),                                              // <=
                3 => (u64::MAX - *q).wrapping_add(r.below(4)).wrapping_sub(1),  // sum around 2^64
                4 => q.wrapping_add(r.below(3)).wrapping_sub(1),                // q-1 .. q+1
                _ => qty(r),
            };
            fs.push((n.clone(), q2));
        }
        if r.chance(1, 5) { let n = r.pick(nms).clone(); if !fs.iter().any(|(m, _)| *m == n) { fs.push((n, qty(r))); } }
        out.push((p.clone(), fs));
    }
    if r.chance(1, 5) { let p = r.pick(pols).clone(); if !out.iter().any(|(q, _)| *q == p) { out.push((p, vec![(r.pick(nms).clone(), qty(r))])); } }
    Some(out)
}
fn upto(r: &mut Rng, q: u64) -> u64 { if q == u64::MAX { r.next() } else { r.range(0, q) } }
/// the second operand derived from the first by one named structural relation (0..=17)
fn derive(r: &mut Rng, a: &Option<Bundle>, rel: u64, pols: &[String], nms: &[String]) -> Option<Bundle> {
    let base: Bundle = match a { Some(x) => x.clone(), None => vec![] };
    let fresh_name = |r: &mut Rng, es: &Vec<(String, u64)>| -> Option<String> { for _ in 0..8 { let n = r.pick(nms).clone(); if !es.iter().any(|(m, _)| *m == n) { return Some(n); } } None };
    let fresh_pol = |r: &mut Rng, ps: &Bundle| -> Option<String> { for _ in 0..8 { let p = r.pick(pols).clone(); if !ps.iter().any(|(q, _)| *q == p) { return Some(p); } } None };
    let mut b = base.clone();
    match rel {
        0 => {}                                                                                   // identical
        1 => { if let Some((_, es)) = b.first_mut() { if let Some(n) = fresh_name(r, es) { es.push((n, 1 + r.below(9))); } } }   // foreign name under a held policy
        2 => { let held = base.iter().flat_map(|(_, es)| es.iter()).next().cloned();              // held name under a foreign policy
               if let (Some(p), Some((n, q))) = (fresh_pol(r, &b), held) { b.push((p, vec![(n, q)])); } }
        3 => { if let Some((_, es)) = b.first_mut() { if let Some((n, q)) = es.first().cloned() {  // a name that extends / shortens a held name
                   let n2 = if n == "-" { "00".to_string() } else if n.len() >= 64 || r.chance(1, 2) { if n.len() > 2 { n[..n.len() - 2].to_string() } else { "-".to_string() } } else { format!("{}00", n) };
                   if !es.iter().any(|(m, _)| *m == n2) { es.push((n2, q)); } } } }
        4 => { if let Some((_, es)) = b.first_mut() { es.clear(); } }                              // empty Assets under a held policy
        5 => { if let Some(p) = fresh_pol(r, &b) { b.push((p, vec![])); } }                        // empty Assets under a foreign policy
        6 => { if let Some((_, es)) = b.first_mut() { if let Some(e) = es.first_mut() { e.1 = 0; } } }   // zero quantity for a held name
        7 => { if let Some((_, es)) = b.first_mut() { if let Some(n) = fresh_name(r, es) { es.push((n, 0)); } } }   // zero quantity for a foreign name
        8 => { return if a.is_none() { Some(vec![]) } else if base.is_empty() { None } else { Some(vec![]) }; }   // present-but-empty vs absent
        9 => { for (_, es) in b.iter_mut() { for e in es.iter_mut() { e.1 = e.1.wrapping_add(1); } } }    // every quantity + 1
        10 => { for (_, es) in b.iter_mut() { for e in es.iter_mut() { e.1 = e.1.wrapping_sub(1); } } }   // every quantity - 1
        11 => { if let Some((_, es)) = b.last_mut() { if let Some(e) = es.last_mut() { e.1 = e.1.wrapping_add(1); } } }   // one quantity + 1
        12 => { if !b.is_empty() { let i = r.below(b.len() as u64) as usize; b.remove(i); } }      // one policy removed
        13 => { if let Some((_, es)) = b.first_mut() { if !es.is_empty() { let i = r.below(es.len() as u64) as usize; es.remove(i); } } }   // one name removed
        14 => { for (_, es) in b.iter_mut() { for e in es.iter_mut() { e.1 = 0; } } }               // all quantities zero
        15 => { if let Some(p) = fresh_pol(r, &b) { if let Some((_, es)) = base.first() { b = vec![(p, es.clone())]; } } }   // same names under another policy
        16 => { for (_, es) in b.iter_mut() { for e in es.iter_mut() { e.1 = (u64::MAX - e.1).wrapping_add(r.below(3)); } } }   // complement to 2^64 - 1 .. 2^64 + 1
        _ => { if let Some((_, es)) = b.last_mut() { if let Some(e) = es.last_mut() { e.1 = e.1.wrapping_sub(1); } } }   // one quantity - 1
    }
    if a.is_none() && b.is_empty() && rel != 8 { return None; }
    Some(b)
}
fn coin_pair(r: &mut Rng) -> (u64, u64) {
    let a = r.u64_edge();
    let b = match r.below(6) { 0 => a, 1 => (u64::MAX - a).wrapping_add(r.below(3)).wrapping_sub(1), 2 => upto(r, a), 3 => a.wrapping_add(1), _ => r.u64_edge() };
    (a, b)
}

fn dec_text(r: &mut Rng, signed: bool, big: bool) -> String {
    // decimal-looking text around the interesting boundaries, with the malformed variants the parsers must reject
    let boundaries = ["0", "1", "18446744073709551615", "18446744073709551616", "18446744073709551617", "9223372036854775807", "9223372036854775808",
        "9223372036854775809", "170141183460469231731687303715884105727", "170141183460469231731687303715884105728", "170141183460469231731687303715884105729",
        "340282366920938463463374607431768211455", "340282366920938463463374607431768211456", "99999999999999999999999", "4294967296", "2147483648", "2147483647"];
    let mut body: String = match r.below(4) {
        0 => r.pick(&boundaries).to_string(),
        1 => r.u64_edge().to_string(),
        2 => { let n = 1 + r.below(if big { 600 } else { 45 }) as usize; (0..n).map(|_| (b'0' + r.below(10) as u8) as char).collect() }
        _ => ((r.next() as u128) * (r.next() as u128 >> r.below(64))).to_string(),
    };
    if r.chance(1, 8) { body = format!("{}{}", "0".repeat(1 + r.below(45) as usize), body); }
    let sign = if signed { *r.pick(&["", "", "-", "-", "+", "-+", "+-", "--", "++"]) } else { *r.pick(&["", "", "", "+", "-", "++"]) };
    let mut s = format!("{}{}", sign, body);
    match r.below(24) {
        0 => s.push(' '),
        1 => s.insert(0, ' '),
        2 => s = s.replace('1', "_1"),
        3 => s.push('_'),
        4 => s = "".into(),
        5 => s = sign.to_string(),
        6 => s.push_str(".0"),
        7 => s.push_str("e2"),
        8 => s = format!("{}_{}", sign, body),
        9 => s.push('a'),
        10 => s = format!("0x{}", body),
        11 => s = s.replace('0', "\u{0660}"),
        _ => {}
    }
    s
}

fn json_number(r: &mut Rng) -> String {
    // -?(0|[1-9][0-9]*)(.[0-9]+)?([eE][+-]?[0-9]+)?
    let body = loop {
        let t = dec_text(r, false, false);
        let t: String = t.chars().filter(|c| c.is_ascii_digit()).collect();
        let t = t.trim_start_matches('0').to_string();
        if !t.is_empty() { break t; }
        if r.chance(1, 2) { break "0".to_string(); }
    };
    let mut s = format!("{}{}", if r.chance(1, 2) { "-" } else { "" }, body);
    match r.below(12) { 0 => s.push_str(".0"), 1 => s.push_str("e0"), 2 => s.push_str(".5"), 3 => s.push_str("E+2"), _ => {} }
    s
}

fn head(major: u8, arg: u64, width: u8) -> Vec<u8> {
    // width 0 = shortest; 1/2/4/8 = explicit payload width (non-minimal when larger than needed); 9 = immediate
    let w = if width == 0 { if arg < 24 { 9 } else if arg < 256 { 1 } else if arg < 65536 { 2 } else if arg < (1u64 << 32) { 4 } else { 8 } } else { width };
    let mut v = Vec::new();
    match w {
        9 => v.push((major << 5) | (arg as u8 & 31)),
        1 => { v.push((major << 5) | 24); v.push(arg as u8); }
        2 => { v.push((major << 5) | 25); v.extend_from_slice(&(arg as u16).to_be_bytes()); }
        4 => { v.push((major << 5) | 26); v.extend_from_slice(&(arg as u32).to_be_bytes()); }
        _ => { v.push((major << 5) | 27); v.extend_from_slice(&arg.to_be_bytes()); }
    }
    v
}
fn wider(r: &mut Rng, arg: u64) -> u8 {
    let min = if arg < 24 { 0 } else if arg < 256 { 1 } else if arg < 65536 { 2 } else if arg < (1u64 << 32) { 4 } else { 8 };
    let opts: Vec<u8> = [0u8, 1, 2, 4, 8].iter().cloned().filter(|w| *w >= min).collect();
    *r.pick(&opts)
}
fn big_magnitude(r: &mut Rng) -> Vec<u8> {
    let n = match r.below(8) { 0 => 8, 1 => 9, 2 => 63, 3 => 64, 4 => 65, 5 => 128, 6 => 129 + r.below(130) as usize, _ => 1 + r.below(250) as usize };
    let mut b = r.bytes(n);
    match r.below(6) { 0 => b[0] = 0, 1 => b[0] = 1, 2 => b[0] = 0xff, 3 => { for x in b.iter_mut() { *x = 0xff; } } 4 => { for x in b.iter_mut().skip(1) { *x = 0; } b[0] = 1; } _ => {} }
    b
}
fn bigint_cbor(r: &mut Rng) -> Vec<u8> {
    match r.below(10) {
        0 => { let a = r.u64_edge(); head(0, a, wider(r, a)) }
        1 => { let a = r.u64_edge(); head(1, a, wider(r, a)) }
        2 => { let t = *r.pick(&[0u64, 1, 4, 24, 2, 3]); let mut v = head(6, t, 0); v.extend(head(2, 2, 0)); v.extend_from_slice(&[1, 2]); v }
        k => {
            let tag = if r.chance(1, 2) { 2 } else { 3 };
            let mag = big_magnitude(r);
            let mut v = head(6, tag, if r.chance(1, 8) { wider(r, tag) } else { 0 });
            if k == 3 || (mag.len() <= 64 && r.chance(1, 2)) {
                // definite (an error when longer than 64 bytes)
                v.extend(head(2, mag.len() as u64, if r.chance(1, 6) { wider(r, mag.len() as u64) } else { 0 }));
                v.extend_from_slice(&mag);
            } else {
                v.push(0x5f);
                let mut rest: &[u8] = &mag;
                while !rest.is_empty() {
                    let max = if r.chance(1, 20) { 70 } else { 64 };
                    let n = if r.chance(1, 3) { rest.len().min(64) } else { (r.below(max) as usize).min(rest.len()) };
                    v.extend(head(2, n as u64, if r.chance(1, 8) { wider(r, n as u64) } else { 0 }));
                    v.extend_from_slice(&rest[..n]);
                    rest = &rest[n..];
                }
                match r.below(16) { 0 => {} 1 => v.push(0xf4), 2 => { v.extend(head(3, 1, 0)); v.push(b'a'); v.push(0xff); } 3 => { v.push(0x5f); v.push(0xff); v.push(0xff); } _ => v.push(0xff) }
            }
            if r.chance(1, 12) { v.push(0x00); }
            if r.chance(1, 25) && v.len() > 2 { let n = v.len() - 1 - r.below(2) as usize; v.truncate(n); }
            v
        }
    }
}

fn gen(dir: &str) {
    let seed = seed_from_env();
    let thorough = is_thorough();
    let mut r = Rng::new(seed ^ 0xC14);
    let mut out = Out::new(dir);
    let mut emit = |out: &mut Out, case: String| {
        let toks: Vec<String> = case.split_whitespace().map(|s| s.to_string()).collect();
        let res = guarded(move || { let t: Vec<&str> = toks.iter().map(|s| s.as_str()).collect(); exec(&t) });
        out.emit(&case, &res);
    };
    let scale = if thorough { 12 } else { 1 };
    // --- BigNum
    for op in ["add", "sub", "mul", "csub", "div"] {
        for a in E.iter() { for b in E.iter() { emit(&mut out, format!("bn {} {} {}", op, a, b)); } }
        for _ in 0..150 * scale {
            let a = r.u64_edge();
            let b = match (op, r.below(4)) {
                ("add", 0) => (u64::MAX - a).wrapping_add(r.below(3)).wrapping_sub(1),
                ("sub", 0) | ("csub", 0) => a.wrapping_add(r.below(3)).wrapping_sub(1),
                ("mul", 0) => if a == 0 { 0 } else { (u64::MAX / a).wrapping_add(r.below(3)).wrapping_sub(1) },
                ("div", 0) => r.below(3),
                _ => r.u64_edge(),
            };
            emit(&mut out, format!("bn {} {} {}", op, a, b));
        }
    }
    for _ in 0..100 * scale { let (a, b) = coin_pair(&mut r); emit(&mut out, format!("bncmp {} {}", a, b)); }
    for _ in 0..300 * scale { let s = dec_text(&mut r, false, false); emit(&mut out, format!("bnstr {}", hex_or_dash(s.as_bytes()))); }
    for e in E.iter() { emit(&mut out, format!("bnrt {}", e)); }
    for _ in 0..150 * scale { emit(&mut out, format!("bnrt {}", r.u64_edge())); }
    // --- Int
    for e in E.iter() { emit(&mut out, format!("int new {}", e)); emit(&mut out, format!("int neg {}", e)); emit(&mut out, format!("int big {}", e)); emit(&mut out, format!("int big -{}", e)); }
    for _ in 0..150 * scale {
        emit(&mut out, format!("int new {}", r.u64_edge()));
        emit(&mut out, format!("int neg {}", r.u64_edge()));
        let i = match r.below(4) { 0 => i32::MIN, 1 => i32::MAX, 2 => -(r.below(1000) as i32), _ => r.next() as i32 };
        emit(&mut out, format!("int i32 {}", i));
        let big = match r.below(4) { 0 => format!("{}{}", if r.chance(1, 2) { "-" } else { "" }, r.u64_edge()),
                                     1 => format!("{}18446744073709551616", if r.chance(1, 2) { "-" } else { "" }),
                                     2 => format!("{}{}", if r.chance(1, 2) { "-" } else { "" }, (r.next() as u128) * (r.next() as u128)),
                                     _ => format!("-{}", r.u64_edge()) };
        emit(&mut out, format!("int big {}", big));
    }
    // every boundary literal with every sign, through every decimal entry point (deterministic grid)
    for b in ["0", "1", "2147483647", "2147483648", "2147483649", "4294967295", "4294967296", "9223372036854775807", "9223372036854775808",
              "9223372036854775809", "18446744073709551614", "18446744073709551615", "18446744073709551616", "18446744073709551617",
              "170141183460469231731687303715884105727", "170141183460469231731687303715884105728", "170141183460469231731687303715884105729",
              "340282366920938463463374607431768211455", "340282366920938463463374607431768211456", "99999999999999999999999"] {
        for sign in ["", "-", "+"] {
            let s = format!("{}{}", sign, b);
            let h = hex_or_dash(s.as_bytes());
            emit(&mut out, format!("int str {}", h));
            emit(&mut out, format!("jint {}", h));
            emit(&mut out, format!("jmint {}", h));
            emit(&mut out, format!("jbn {}", h));
            emit(&mut out, format!("jbi {}", h));
            emit(&mut out, format!("jval {} 32", h));
            emit(&mut out, format!("jval 31 {}", h));
            emit(&mut out, format!("int key {}", h));
            emit(&mut out, format!("bnstr {}", h));
            emit(&mut out, format!("bistr {}", h));
            if sign != "+" { emit(&mut out, format!("int json {}", h)); emit(&mut out, format!("biz {}", s)); emit(&mut out, format!("int big {}", s)); }
        }
    }
    for _ in 0..400 * scale {
        let s = dec_text(&mut r, true, false);
        emit(&mut out, format!("int str {}", hex_or_dash(s.as_bytes())));
        let s = dec_text(&mut r, true, false);
        emit(&mut out, format!("int key {}", hex_or_dash(s.as_bytes())));
        // only a JSON number literal reaches encode_number (anything else is a JSON syntax error or another JSON type)
        let s = json_number(&mut r);
        emit(&mut out, format!("int json {}", hex_or_dash(s.as_bytes())));
    }
    for _ in 0..120 * scale {
        let s = dec_text(&mut r, true, false);
        let h = hex_or_dash(s.as_bytes());
        emit(&mut out, format!("jint {}", h));
        emit(&mut out, format!("jmint {}", h));
        let s = dec_text(&mut r, false, false);
        emit(&mut out, format!("jbn {}", hex_or_dash(s.as_bytes())));
        let s = dec_text(&mut r, true, true);
        emit(&mut out, format!("jbi {}", hex_or_dash(s.as_bytes())));
        let (s1, s2) = (dec_text(&mut r, false, false), dec_text(&mut r, false, false));
        emit(&mut out, format!("jval {} {}", hex_or_dash(s1.as_bytes()), hex_or_dash(s2.as_bytes())));
    }
    for _ in 0..300 * scale {
        let bytes = match r.below(8) {
            0 => { let a = r.u64_edge(); head(0, a, wider(&mut r, a)) }
            1 | 2 | 3 => { let a = r.u64_edge(); head(1, a, wider(&mut r, a)) }
            4 => { let a = *r.pick(&E); head(1, a, 0) }
            5 => { let m = r.below(8) as u8; let mut v = vec![(m << 5) | r.below(32) as u8]; let k = r.below(9) as usize; v.extend(r.bytes(k)); v }
            6 => { let a = r.u64_edge(); let mut v = head(r.below(2) as u8, a, 0); let k = r.below(3) as usize; v.extend(r.bytes(k)); v }
            _ => { let a = r.u64_edge(); let mut v = head(1, a, 8); v.truncate(1 + r.below(8) as usize); v }
        };
        emit(&mut out, format!("int bytes {}", hex_or_dash(&bytes)));
    }
    // --- MintBuilder histories
    for _ in 0..200 * scale {
        let n = 1 + r.below(6);
        let mut s = format!("mint {}", n);
        for _ in 0..n {
            let z: i128 = match r.below(8) {
                0 => 0,
                1 => u64::MAX as i128, 2 => -(u64::MAX as i128), 3 => -(u64::MAX as i128) - 1,
                4 => (r.below(5) as i128) - 2,
                5 => (1i128 << 63) * if r.chance(1, 2) { 1 } else { -1 },
                _ => (r.u64_edge() as i128) * if r.chance(1, 2) { 1 } else { -1 },
            };
            let nk = if r.chance(1, 2) { 1 } else { 4 };
            s.push_str(&format!(" {} {} {}", if r.chance(3, 4) { "a" } else { "s" }, r.below(nk), z));
        }
        emit(&mut out, s);
    }
    // histories whose running sum lands on a boundary of the builder's range: -2^64-1, -2^64, -(2^64-1), 2^64-1, 2^64, 0, +-1
    let (lo, hi) = (-(u64::MAX as i128), u64::MAX as i128);
    for t in [lo - 2, lo - 1, lo, lo + 1, hi - 1, hi, hi + 1, hi + 2, 0i128, 1, -1, 1i128 << 63, -(1i128 << 63)] {
        for _ in 0..3 * scale {
            let k = 2 + r.below(3) as i128;            // number of parts
            let mut parts: Vec<i128> = Vec::new();
            let mut rest = t;
            for j in 0..k {
                let left = k - 1 - j;                   // parts still to come after this one
                let a = if left == 0 { rest } else {
                    // keep the remainder reachable by `left` legal parts
                    let (min_a, max_a) = ((rest - left * hi).max(lo), (rest - left * lo).min(hi));
                    let span = (max_a - min_a) as u128 + 1;
                    let pick = match r.below(4) { 0 => min_a, 1 => max_a, _ => min_a + ((((r.next() as u128) << 64) | r.next() as u128) % span) as i128 };
                    pick
                };
                parts.push(a);
                rest -= a;
            }
            let key = r.below(2);
            let mut s = format!("mint {}", parts.len());
            for a in parts.iter() { s.push_str(&format!(" a {} {}", key, a)); }
            emit(&mut out, s);
        }
    }
    // --- Mint::as_positive_multiasset / as_negative_multiasset on hand-made Mints (duplicate policies, both signs, extremes)
    let mint_pols: Vec<String> = (0..3).map(|k| hex::encode(policy_of(k).1.to_bytes())).collect();
    for _ in 0..150 * scale {
        let ne = 1 + r.below(4);
        let mut s = format!("mintv {}", ne);
        for _ in 0..ne {
            let p = if r.chance(1, 3) { mint_pols[0].clone() } else { r.pick(&mint_pols).clone() };
            let na = r.below(4);
            let mut names: Vec<&str> = Vec::new();
            let mut body = String::new();
            for _ in 0..na {
                let n = *r.pick(&["-", "61", "62", "6162", "0001", "ff"]);
                if names.contains(&n) { continue; }
                names.push(n);
                let z: i128 = match r.below(8) {
                    0 => hi, 1 => lo, 2 => lo - 1, 3 => (r.below(5) as i128) - 5, 4 => 1 + r.below(5) as i128,
                    5 => (1i128 << 63) * if r.chance(1, 2) { 1 } else { -1 },
                    _ => { let v = r.u64_edge() as i128; if v == 0 { 7 } else if r.chance(1, 2) { v } else { -v } }
                };
                body.push_str(&format!(" {} {}", n, z));
            }
            s.push_str(&format!(" {} {}{}", p, names.len(), body));
        }
        emit(&mut out, s);
    }
    // --- BigInt
    for e in E.iter() { emit(&mut out, format!("biz {}", e)); emit(&mut out, format!("biz -{}", e)); }
    for z in ["18446744073709551616", "-18446744073709551616", "-18446744073709551617", "18446744073709551617", "-9223372036854775808", "-9223372036854775809"] { emit(&mut out, format!("biz {}", z)); }
    for _ in 0..250 * scale {
        let mag = big_magnitude(&mut r);
        let z = num_str(&mag);
        emit(&mut out, format!("biz {}{}", if r.chance(1, 2) { "-" } else { "" }, z));
        // values whose tag-3 magnitude (-z-1) crosses a byte-length / chunk boundary: -(256^k)
        if r.chance(1, 5) { let k = *r.pick(&[8usize, 9, 63, 64, 65, 128, 129]); let mut m = vec![0u8; k + 1]; m[0] = 1; emit(&mut out, format!("biz -{}", num_str(&m))); emit(&mut out, format!("biz {}", num_str(&m))); }
    }
    // digit-structured values: k = 1..5 u64 digits (least significant first), each digit from {0, 1, 2, 2^63, 2^64-1} (full product for
    // k <= 3) or one of those / random (k = 4, 5), both signs, and the +-1 neighbours of a part of them
    {
        let fixed: [u64; 5] = [0, 1, 2, 1u64 << 63, u64::MAX];
        let to_dec = |digits: &[u64]| -> String { let mut be: Vec<u8> = Vec::new(); for d in digits.iter().rev() { be.extend_from_slice(&d.to_be_bytes()); } num_str(&be) };
        let mut sets: Vec<Vec<u64>> = Vec::new();
        for k in 1..=3usize {
            let n = 5usize.pow(k as u32);
            for idx in 0..n { let mut v = Vec::new(); let mut x = idx; for _ in 0..k { v.push(fixed[x % 5]); x /= 5; } sets.push(v); }
        }
        for k in 4..=5usize { for _ in 0..40 * scale { sets.push((0..k).map(|_| if r.chance(1, 6) { r.next() } else { *r.pick(&fixed) }).collect()); } }
        for digits in sets.iter() {
            let z = to_dec(digits);
            emit(&mut out, format!("biz {}", z));
            if z != "0" { emit(&mut out, format!("biz -{}", z)); }
            if r.chance(1, 4) {
                // neighbours: magnitude + 1 and - 1 (on the lowest digit, no carry when it is not at an extreme)
                let mut up = digits.clone(); let mut dn = digits.clone();
                if up[0] != u64::MAX { up[0] += 1; for sgn in ["", "-"] { emit(&mut out, format!("biz {}{}", sgn, to_dec(&up))); } }
                if dn[0] != 0 { dn[0] -= 1; let d = to_dec(&dn); for sgn in ["", "-"] { if d != "0" || sgn == "" { emit(&mut out, format!("biz {}{}", sgn, d)); } } }
            }
            // the text entry point and the decoder see the same values
            if r.chance(1, 6) { emit(&mut out, format!("bistr {}", hex_or_dash(format!("-{}", z).as_bytes()))); emit(&mut out, format!("int big -{}", z)); }
        }
    }
    for _ in 0..400 * scale { let b = bigint_cbor(&mut r); emit(&mut out, format!("bibytes {}", hex_or_dash(&b))); }
    for _ in 0..300 * scale { let s = dec_text(&mut r, true, true); emit(&mut out, format!("bistr {}", hex_or_dash(s.as_bytes()))); }
    for _ in 0..200 * scale {
        let op = *r.pick(&["add", "sub", "mul", "divf", "divc"]);
        let mut operand = |r: &mut Rng| -> String {
            let s = if r.chance(1, 2) { "-" } else { "" };
            match r.below(4) { 0 => format!("{}{}", s, r.below(20)), 1 => format!("{}{}", s, r.u64_edge()), 2 => format!("{}{}", s, num_str(&big_magnitude(r))), _ => format!("{}{}", s, (r.next() as u128) * (r.next() as u128)) }
        };
        let a = operand(&mut r);
        let b = if (op == "divf" || op == "divc") && r.chance(1, 10) { "0".to_string() } else { operand(&mut r) };
        emit(&mut out, format!("biop {} {} {}", op, a, b));
    }
    // --- Value
    let pols = policies();
    // ORDER-sensitive layouts under one policy: names a < b < c (AssetName order: length first), every subset on each side,
    // quantities chosen so that each shared name ends smaller / equal / larger; a second policy keeps both sides non-empty
    {
        let p = &pols[1];
        let q = &pols[3];
        let triples: [[&str; 3]; 3] = [["61", "62", "63"], ["ff", "0001", "000002"], ["-", "00", "6161"]];
        let lq = [10u64, 20, 30];
        for (ti, names3) in triples.iter().enumerate() {
            for sl in 0..8u32 { for sr in 0..8u32 {
                if ti > 0 && (sl + sr) % 3 != 0 { continue; }                      // full 8x8 grid for the first triple, a third of it for the others
                let rq: [u64; 3] = match (sl + 2 * sr + ti as u32) % 3 { 0 => [3, 20, 50], 1 => [10, 5, 31], _ => [11, 20, 1] };
                let side = |mask: u32, qs: &[u64; 3]| -> Vec<(String, u64)> { (0..3).filter(|i| mask & (1 << i) != 0).map(|i| (names3[i].to_string(), qs[i])).collect() };
                let a: Bundle = vec![(p.clone(), side(sl, &lq)), (q.clone(), vec![("78".into(), 5)])];
                let b: Bundle = vec![(p.clone(), side(sr, &rq)), (q.clone(), vec![("78".into(), 2)])];
                emit(&mut out, format!("val {} {}", show_bundle(9, &Some(a)), show_bundle(4, &Some(b))));
            } }
        }
    }
    // structural relations: every base bundle with each of the 18 derived partners, in both operand orders
    for _ in 0..10 * scale {
        let nms = names(&mut r);
        let a = gen_bundle(&mut r, &pols, &nms);
        for rel in 0..18u64 {
            let b = derive(&mut r, &a, rel, &pols, &nms);
            let (ca, cb) = match r.below(4) { 0 => (5, 5), 1 => (7, 3), 2 => (3, 7), _ => coin_pair(&mut r) };
            emit(&mut out, format!("val {} {}", show_bundle(ca, &a), show_bundle(cb, &b)));
            emit(&mut out, format!("val {} {}", show_bundle(cb, &b), show_bundle(ca, &a)));
        }
    }
    for _ in 0..450 * scale {
        let nms = names(&mut r);
        let (ca, cb) = coin_pair(&mut r);
        let a = gen_bundle(&mut r, &pols, &nms);
        let b = related(&mut r, &a, &pols, &nms);
        if r.chance(1, 2) { emit(&mut out, format!("val {} {}", show_bundle(ca, &a), show_bundle(cb, &b))); }
        else { emit(&mut out, format!("val {} {}", show_bundle(cb, &b), show_bundle(ca, &a))); }
    }
    for _ in 0..200 * scale {
        let nms = names(&mut r);
        let small = |r: &mut Rng| match r.below(4) { 0 => r.u64_edge(), 1 => (u64::MAX / 3).wrapping_add(r.below(3)), 2 => u64::MAX / 2 + r.below(2), _ => r.below(1000) };
        let a = gen_bundle(&mut r, &pols, &nms);
        let b = related(&mut r, &a, &pols, &nms);
        let c = if r.chance(1, 2) { related(&mut r, &a, &pols, &nms) } else { related(&mut r, &b, &pols, &nms) };
        let third = |r: &mut Rng, m: &Option<Bundle>| -> Option<Bundle> { m.as_ref().map(|ps| ps.iter().map(|(p, es)| (p.clone(), es.iter().map(|(n, q)| (n.clone(), if r.chance(1, 2) { q / 3 } else { *q })).collect())).collect()) };
        let (a, b, c) = (third(&mut r, &a), third(&mut r, &b), third(&mut r, &c));
        emit(&mut out, format!("val3 {} {} {}", show_bundle(small(&mut r), &a), show_bundle(small(&mut r), &b), show_bundle(small(&mut r), &c)));
    }
    out.finish();
}

/// decimal text of a big-endian magnitude (schoolbook division by 10; only used by the generator)
fn num_str(be: &[u8]) -> String {
    let mut digits: Vec<u8> = Vec::new();
    let mut cur: Vec<u8> = be.to_vec();
    while cur.iter().any(|x| *x != 0) {
        let mut rem = 0u32;
        for x in cur.iter_mut() { let v = rem * 256 + *x as u32; *x = (v / 10) as u8; rem = v % 10; }
        digits.push(b'0' + rem as u8);
    }
    if digits.is_empty() { digits.push(b'0'); }
    digits.reverse();
    String::from_utf8(digits).unwrap()
}

fn main() {
    silence_panics();
    let args: Vec<String> = std::env::args().collect();
    match args.get(1).map(|s| s.as_str()) {
        Some("gen") => gen(&args[2]),
        Some("run") => {
            use std::io::Write;
            let mut o = std::io::BufWriter::new(std::fs::File::create(&args[3]).unwrap());
            for (idx, toks) in read_cases(&args[2]) {
                let res = guarded(move || { let t: Vec<&str> = toks.iter().map(|s| s.as_str()).collect(); exec(&t) });
                writeln!(o, "{} {}", idx, res).unwrap();
            }
        }
        _ => { eprintln!("usage: c14 gen <dir> | c14 run <cases> <out>"); std::process::exit(2); }
    }
}
