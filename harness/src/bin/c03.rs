//! C03 correspondence harness: bytes emitted by the library vs the Conway CDDL.
//! `c03 gen <dir>`: (1) model cases of `<dir>/model_cases.txt` (`rt <Type> <hex>` / `neg <Type> <hex>`),
//! (2) stream "api": `api <Type> <label> <k>` = a value built through the public typed API, a deterministic
//! function of (Type, label, k); (3) stream "tx": `tx Transaction <k>` = a transaction built by the real
//! TransactionBuilder for a scenario that is a deterministic function of k.
//! Results: `ok <hex>` | `err` | `neg` | `builderr` | `panic` | `skip …`.
//! `c03 run <cases> <out>` recomputes the results of given case lines.
//! Set C03_STATS=1 to get the tx-scenario feature frequencies on stderr.
#![allow(deprecated)]
#![allow(dead_code)]
#![allow(unexpected_cfgs)]
use cardano_serialization_lib::*;
use csl_verif_harness::util::*;
use std::collections::BTreeMap;

// ------------------------------------------------------------------------------------------------
// stream 1: model cases
macro_rules! rt_arm {
    ($t:ty, $bytes:expr) => {{
        let bytes: Vec<u8> = $bytes;
        match <$t>::from_bytes(bytes) {
            Err(_) => "err".to_string(),
            Ok(x) => format!("ok {}", hex_or_dash(&x.to_bytes())),
        }
    }};
}

macro_rules! dispatch {
    ($name:expr, $bytes:expr; $( $s:literal => $t:ty ),* $(,)?) => {
        match $name {
            $( $s => rt_arm!($t, $bytes), )*
            _ => "skip unknown-type".to_string(),
        }
    };
}

fn exec_rt(name: &str, bytes: Vec<u8>) -> String {
    dispatch!(name, bytes;
        "TransactionInput" => TransactionInput, "TransactionInputs" => TransactionInputs, "Credential" => Credential,
        "Credentials" => Credentials, "Ed25519KeyHashes" => Ed25519KeyHashes, "DRep" => DRep, "Anchor" => Anchor,
        "UnitInterval" => UnitInterval, "Relay" => Relay, "Relays" => Relays, "PoolMetadata" => PoolMetadata,
        "ProtocolVersion" => ProtocolVersion, "ExUnits" => ExUnits, "ExUnitPrices" => ExUnitPrices, "Nonce" => Nonce,
        "MoveInstantaneousReward" => MoveInstantaneousReward, "Certificate" => Certificate, "Certificates" => Certificates,
        "Assets" => Assets, "MultiAsset" => MultiAsset, "Value" => Value, "Mint" => Mint,
        "Withdrawals" => Withdrawals, "Voter" => Voter, "GovernanceActionId" => GovernanceActionId,
        "VotingProcedure" => VotingProcedure, "VotingProcedures" => VotingProcedures, "Costmdls" => Costmdls,
        "PoolVotingThresholds" => PoolVotingThresholds, "DRepVotingThresholds" => DRepVotingThresholds,
        "ProtocolParamUpdate" => ProtocolParamUpdate,
        "Constitution" => Constitution, "GovernanceAction" => GovernanceAction, "VotingProposal" => VotingProposal,
        "VotingProposals" => VotingProposals, "ProposedProtocolParameterUpdates" => ProposedProtocolParameterUpdates,
        "Update" => Update, "NativeScript" => NativeScript, "NativeScripts" => NativeScripts,
        "PlutusScripts" => PlutusScripts, "PlutusData" => PlutusData, "PlutusList" => PlutusList,
        "Redeemers" => Redeemers, "TransactionMetadatum" => TransactionMetadatum,
        "GeneralTransactionMetadata" => GeneralTransactionMetadata, "AuxiliaryData" => AuxiliaryData,
        "ScriptRef" => ScriptRef,
        "TransactionOutputLegacy" => TransactionOutput, "TransactionOutputLegacyDH" => TransactionOutput,
        "TransactionOutputMap" => TransactionOutput, "TransactionOutput" => TransactionOutput,
        "TransactionOutputs" => TransactionOutputs, "TransactionBody" => TransactionBody,
        "Vkeywitness" => Vkeywitness, "Vkeywitnesses" => Vkeywitnesses, "BootstrapWitness" => BootstrapWitness,
        "BootstrapWitnesses" => BootstrapWitnesses, "TransactionWitnessSet" => TransactionWitnessSet,
        "Transaction" => Transaction, "VRFCert" => VRFCert, "OperationalCert" => OperationalCert,
        "HeaderBody" => HeaderBody, "Header" => Header, "HeaderBodyPraos" => HeaderBody, "HeaderPraos" => Header, "Block" => Block, "BlockPraos" => Block, "Int" => Int,
    )
}

// ------------------------------------------------------------------------------------------------
// generator state: every construction draws from one Rng derived from (type, label, k)
fn fnv(s: &str) -> u64 {
    let mut h = 0xcbf29ce484222325u64;
    for b in s.bytes() { h ^= b as u64; h = h.wrapping_mul(0x100000001b3); }
    h
}
fn bn(x: u64) -> BigNum { BigNum::from(x) }
const I63: u64 = 1u64 << 63;

struct G { r: Rng }
impl G {
    fn new(seed: u64) -> G { G { r: Rng::new(seed) } }
    fn below(&mut self, n: u64) -> u64 { self.r.below(n) }
    fn range(&mut self, lo: u64, hi: u64) -> u64 { self.r.range(lo, hi) }
    fn chance(&mut self, a: u64, b: u64) -> bool { self.r.chance(a, b) }
    fn bytes(&mut self, n: usize) -> Vec<u8> { self.r.bytes(n) }
    fn edge(&mut self) -> u64 { self.r.u64_edge() }
    fn coin(&mut self) -> BigNum { bn(self.r.u64_edge()) }
    /// 1 ..= u64::MAX, edge biased
    fn pos(&mut self) -> u64 { self.r.u64_edge().max(1) }
    fn u16e(&mut self) -> u32 {
        if self.chance(1, 3) { *self.r.pick(&[0u32, 1, 23, 24, 255, 256, 65535, 65534]) } else { self.below(65536) as u32 }
    }
    fn u32e(&mut self) -> u32 {
        if self.chance(1, 3) { *self.r.pick(&[0u32, 1, 23, 24, 255, 256, 65535, 65536, u32::MAX - 1, u32::MAX]) } else { self.r.next() as u32 }
    }
    /// a length in 0..=max, biased to 0, 1, 23, 24, max-1, max
    fn len_edge(&mut self, max: usize) -> usize {
        if self.chance(1, 3) {
            let c = [0usize, 1, 23, 24, max.saturating_sub(1), max];
            (*self.r.pick(&c)).min(max)
        } else { self.below(max as u64 + 1) as usize }
    }
    /// UTF-8 text of exactly `len_edge(max)` bytes (mostly ASCII, sometimes a 2-byte character)
    fn text(&mut self, max: usize) -> String {
        let n = self.len_edge(max);
        let mut s = String::new();
        while s.len() < n {
            if s.len() + 2 <= n && self.chance(1, 12) { s.push('é'); }
            else { s.push((b'a' + self.below(26) as u8) as char); }
        }
        s
    }
    fn kh(&mut self) -> Ed25519KeyHash { Ed25519KeyHash::from_bytes(self.bytes(28)).unwrap() }
    fn sh(&mut self) -> ScriptHash { ScriptHash::from_bytes(self.bytes(28)).unwrap() }
    fn txh(&mut self) -> TransactionHash { TransactionHash::from_bytes(self.bytes(32)).unwrap() }
    fn vrf(&mut self) -> VRFKeyHash { VRFKeyHash::from_bytes(self.bytes(32)).unwrap() }
    fn data_hash(&mut self) -> DataHash { DataHash::from_bytes(self.bytes(32)).unwrap() }
    fn cred(&mut self, script: bool) -> Credential {
        if script { Credential::from_scripthash(&self.sh()) } else { Credential::from_keyhash(&self.kh()) }
    }
    fn cred_any(&mut self) -> Credential { let s = self.chance(1, 2); self.cred(s) }
    fn idx16(&mut self) -> u32 { self.u16e() }
    fn tx_in(&mut self) -> TransactionInput { let h = self.txh(); TransactionInput::new(&h, self.idx16()) }
    fn tx_ins(&mut self, lo: u64, hi: u64) -> TransactionInputs {
        let mut v = TransactionInputs::new();
        for _ in 0..self.range(lo, hi) { v.add(&self.tx_in()); }
        v
    }
    fn url(&mut self) -> URL { URL::new(self.text(128)).unwrap() }
    fn anchor(&mut self) -> Anchor {
        let u = self.url();
        Anchor::new(&u, &AnchorDataHash::from_bytes(self.bytes(32)).unwrap())
    }
    /// numerator <= denominator, denominator >= 1
    fn unit_interval(&mut self) -> UnitInterval {
        let d = self.pos();
        let n = match self.below(4) { 0 => 0, 1 => d, 2 => self.edge().min(d), _ => self.below(d) };
        UnitInterval::new(&bn(n), &bn(d))
    }
    /// denominator >= 1
    fn nonneg_interval(&mut self) -> UnitInterval {
        let d = self.pos();
        UnitInterval::new(&self.coin(), &bn(d))
    }
    fn drep(&mut self, kind: u64) -> DRep {
        match kind % 4 {
            0 => DRep::new_key_hash(&self.kh()),
            1 => DRep::new_script_hash(&self.sh()),
            2 => DRep::new_always_abstain(),
            _ => DRep::new_always_no_confidence(),
        }
    }
    fn drep_any(&mut self) -> DRep { let k = self.below(4); self.drep(k) }
    fn net(&mut self) -> u8 { self.below(2) as u8 }
    fn reward(&mut self, script: bool) -> RewardAddress { let n = self.net(); RewardAddress::new(n, &self.cred(script)) }
    fn reward_any(&mut self) -> RewardAddress { let s = self.chance(1, 3); self.reward(s) }
    fn pointer(&mut self) -> Pointer {
        if self.chance(1, 2) { Pointer::new_pointer(&self.coin(), &self.coin(), &self.coin()) }
        else { Pointer::new_pointer(&bn(self.below(100_000_000)), &bn(self.below(300)), &bn(self.below(20))) }
    }
    /// base (key/script x key/script), enterprise, pointer, reward; never Byron
    fn address_kind(&mut self, kind: u64) -> Address {
        let n = self.net();
        match kind % 8 {
            0 => BaseAddress::new(n, &self.cred(false), &self.cred(false)).to_address(),
            1 => BaseAddress::new(n, &self.cred(true), &self.cred(false)).to_address(),
            2 => BaseAddress::new(n, &self.cred(false), &self.cred(true)).to_address(),
            3 => BaseAddress::new(n, &self.cred(true), &self.cred(true)).to_address(),
            4 => EnterpriseAddress::new(n, &self.cred(false)).to_address(),
            5 => EnterpriseAddress::new(n, &self.cred(true)).to_address(),
            6 => { let c = self.cred_any(); PointerAddress::new(n, &c, &self.pointer()).to_address() }
            _ => self.reward_any().to_address(),
        }
    }
    fn address(&mut self) -> Address { let k = self.below(8); self.address_kind(k) }
    /// an address a key can spend from (payment credential = key hash), not a reward address
    fn key_address(&mut self) -> Address {
        let n = self.net();
        match self.below(4) {
            0 | 1 => BaseAddress::new(n, &self.cred(false), &self.cred_any()).to_address(),
            2 => EnterpriseAddress::new(n, &self.cred(false)).to_address(),
            _ => { let c = self.cred(false); PointerAddress::new(n, &c, &self.pointer()).to_address() }
        }
    }
    /// any non-reward address
    fn pay_address(&mut self) -> Address { let k = self.below(7); self.address_kind(k) }
    fn asset_name(&mut self) -> AssetName { let n = self.len_edge(32); AssetName::new(self.bytes(n)).unwrap() }
    fn vkey(&mut self) -> Vkey { Vkey::new(&PublicKey::from_bytes(&self.bytes(32)).unwrap()) }
    fn sig(&mut self) -> Ed25519Signature { Ed25519Signature::from_bytes(self.bytes(64)).unwrap() }
}

// ------------------------------------------------------------------------------------------------
// composite generators (all Conway-valid unless said otherwise)
const CERT_LABELS: [&str; 17] = ["stake_reg_legacy", "stake_dereg_legacy", "stake_delegation", "pool_registration",
    "pool_retirement", "stake_reg_conway", "stake_dereg_conway", "vote_delegation", "stake_and_vote_delegation",
    "stake_reg_and_delegation", "vote_reg_and_delegation", "stake_vote_reg_and_delegation", "committee_hot_auth",
    "committee_cold_resign", "drep_registration", "drep_deregistration", "drep_update"];

impl G {
    fn relay(&mut self, kind: u64, presence: u64) -> Relay {
        match kind % 3 {
            0 => {
                let port = if presence & 1 != 0 { Some(self.u16e() as u16) } else { None };
                let v4 = if presence & 2 != 0 { Some(Ipv4::new(self.bytes(4)).unwrap()) } else { None };
                let v6 = if presence & 4 != 0 { Some(Ipv6::new(self.bytes(16)).unwrap()) } else { None };
                Relay::new_single_host_addr(&SingleHostAddr::new(port, v4, v6))
            }
            1 => {
                let port = if presence & 1 != 0 { Some(self.u16e() as u16) } else { None };
                Relay::new_single_host_name(&SingleHostName::new(port, &DNSRecordAorAAAA::new(self.text(128)).unwrap()))
            }
            _ => Relay::new_multi_host_name(&MultiHostName::new(&DNSRecordSRV::new(self.text(128)).unwrap())),
        }
    }
    fn relays(&mut self, lo: u64, hi: u64) -> Relays {
        let mut v = Relays::new();
        for _ in 0..self.range(lo, hi) { let (k, p) = (self.below(3), self.below(8)); v.add(&self.relay(k, p)); }
        v
    }
    fn pool_metadata(&mut self) -> PoolMetadata {
        let u = self.url();
        PoolMetadata::new(&u, &PoolMetadataHash::from_bytes(self.bytes(32)).unwrap())
    }
    fn key_hashes(&mut self, lo: u64, hi: u64) -> Ed25519KeyHashes {
        let mut v = Ed25519KeyHashes::new();
        for _ in 0..self.range(lo, hi) { v.add(&self.kh()); }
        v
    }
    fn pool_params(&mut self) -> PoolParams {
        let owners = self.key_hashes(0, 3);
        let relays = self.relays(0, 3);
        let md = if self.chance(1, 2) { Some(self.pool_metadata()) } else { None };
        PoolParams::new(&self.kh(), &self.vrf(), &self.coin(), &self.coin(), &self.unit_interval(),
            &self.reward_any(), &owners, &relays, md)
    }
    /// kind = index into CERT_LABELS; `script` selects the credential kind; `v` selects with/without anchor
    fn certificate(&mut self, kind: usize, script: bool, v: u64) -> Certificate {
        let c = self.cred(script);
        let with_anchor = v % 2 == 0;
        match kind {
            0 => Certificate::new_stake_registration(&StakeRegistration::new(&c)),
            1 => Certificate::new_stake_deregistration(&StakeDeregistration::new(&c)),
            2 => Certificate::new_stake_delegation(&StakeDelegation::new(&c, &self.kh())),
            3 => Certificate::new_pool_registration(&PoolRegistration::new(&self.pool_params())),
            4 => Certificate::new_pool_retirement(&PoolRetirement::new(&self.kh(), self.u32e())),
            5 => Certificate::new_reg_cert(&StakeRegistration::new_with_explicit_deposit(&c, &self.coin())).unwrap(),
            6 => Certificate::new_unreg_cert(&StakeDeregistration::new_with_explicit_refund(&c, &self.coin())).unwrap(),
            7 => Certificate::new_vote_delegation(&VoteDelegation::new(&c, &self.drep_any())),
            8 => Certificate::new_stake_and_vote_delegation(&StakeAndVoteDelegation::new(&c, &self.kh(), &self.drep_any())),
            9 => Certificate::new_stake_registration_and_delegation(&StakeRegistrationAndDelegation::new(&c, &self.kh(), &self.coin())),
            10 => Certificate::new_vote_registration_and_delegation(&VoteRegistrationAndDelegation::new(&c, &self.drep_any(), &self.coin())),
            11 => Certificate::new_stake_vote_registration_and_delegation(
                &StakeVoteRegistrationAndDelegation::new(&c, &self.kh(), &self.drep_any(), &self.coin())),
            12 => { let hot = self.cred_any(); Certificate::new_committee_hot_auth(&CommitteeHotAuth::new(&c, &hot)) }
            13 => Certificate::new_committee_cold_resign(&if with_anchor { CommitteeColdResign::new_with_anchor(&c, &self.anchor()) } else { CommitteeColdResign::new(&c) }),
            14 => Certificate::new_drep_registration(&if with_anchor { DRepRegistration::new_with_anchor(&c, &self.coin(), &self.anchor()) } else { DRepRegistration::new(&c, &self.coin()) }),
            15 => Certificate::new_drep_deregistration(&DRepDeregistration::new(&c, &self.coin())),
            16 => Certificate::new_drep_update(&if with_anchor { DRepUpdate::new_with_anchor(&c, &self.anchor()) } else { DRepUpdate::new(&c) }),
            _ => panic!("bad certificate kind"),
        }
    }
    fn certificates(&mut self, lo: u64, hi: u64) -> Certificates {
        let mut v = Certificates::new();
        for _ in 0..self.range(lo, hi) {
            let (k, s, w) = (self.below(17) as usize, self.chance(1, 2), self.below(2));
            v.add(&self.certificate(k, s, w));
        }
        v
    }

    // ---- value ----
    fn assets(&mut self, lo: u64, hi: u64) -> Assets {
        let mut a = Assets::new();
        for _ in 0..self.range(lo, hi) { let n = self.asset_name(); a.insert(&n, &bn(self.pos())); }
        a
    }
    fn multiasset(&mut self, lo: u64, hi: u64) -> MultiAsset {
        let mut m = MultiAsset::new();
        for _ in 0..self.range(lo, hi) { let p = self.sh(); m.insert(&p, &self.assets(1, 4)); }
        m
    }
    fn value(&mut self, with_assets: bool) -> Value {
        if with_assets { let c = self.coin(); Value::new_with_assets(&c, &self.multiasset(1, 3)) } else { Value::new(&self.coin()) }
    }
    /// non-zero, within int64
    fn mint_qty(&mut self) -> Int {
        if self.chance(1, 2) { Int::new(&bn(self.pos().min(I63 - 1))) } else { Int::new_negative(&bn(self.pos().min(I63))) }
    }
    fn mint_assets(&mut self, lo: u64, hi: u64) -> MintAssets {
        let mut a = MintAssets::new();
        for _ in 0..self.range(lo, hi) { let n = self.asset_name(); a.insert(&n, &self.mint_qty()).unwrap(); }
        a
    }
    fn mint(&mut self, lo: u64, hi: u64) -> Mint {
        let mut m = Mint::new();
        for _ in 0..self.range(lo, hi) { let p = self.sh(); m.insert(&p, &self.mint_assets(1, 3)); }
        m
    }
    fn withdrawals(&mut self, lo: u64, hi: u64) -> Withdrawals {
        let mut w = Withdrawals::new();
        for _ in 0..self.range(lo, hi) { let a = self.reward_any(); w.insert(&a, &self.coin()); }
        w
    }

    // ---- governance ----
    fn voter(&mut self, kind: u64) -> Voter {
        match kind % 5 {
            0 => Voter::new_constitutional_committee_hot_credential(&self.cred(false)),
            1 => Voter::new_constitutional_committee_hot_credential(&self.cred(true)),
            2 => Voter::new_drep_credential(&self.cred(false)),
            3 => Voter::new_drep_credential(&self.cred(true)),
            _ => Voter::new_stake_pool_key_hash(&self.kh()),
        }
    }
    fn action_id(&mut self) -> GovernanceActionId { let h = self.txh(); GovernanceActionId::new(&h, self.idx16()) }
    fn voting_procedure(&mut self, v: u64) -> VotingProcedure {
        let kind = match v % 3 { 0 => VoteKind::No, 1 => VoteKind::Yes, _ => VoteKind::Abstain };
        if v % 2 == 1 { VotingProcedure::new_with_anchor(kind, &self.anchor()) } else { VotingProcedure::new(kind) }
    }
    fn voting_procedures(&mut self) -> VotingProcedures {
        let mut vp = VotingProcedures::new();
        for _ in 0..self.range(1, 3) {
            let k = self.below(5);
            let voter = self.voter(k);
            for _ in 0..self.range(1, 3) { let (a, v) = (self.action_id(), self.below(6)); vp.insert(&voter, &a, &self.voting_procedure(v)); }
        }
        vp
    }
    fn cost_int(&mut self) -> Int {
        match self.below(8) {
            0 => Int::new(&bn(I63 - 1)),
            1 => Int::new_negative(&bn(I63)),
            2 => Int::new(&bn(self.edge().min(I63 - 1))),
            3 | 4 => Int::new_negative(&bn(self.below(100_000))),
            _ => Int::new_i32(self.below(10_000_000) as i32),
        }
    }
    fn costmdls(&mut self) -> Costmdls {
        let mut c = Costmdls::new();
        let mask = self.below(8);
        for (i, lang) in [Language::new_plutus_v1(), Language::new_plutus_v2(), Language::new_plutus_v3()].iter().enumerate() {
            if mask & (1 << i) == 0 { continue; }
            let mut m = CostModel::new();
            for op in 0..self.below(11) as usize { m.set(op, &self.cost_int()).unwrap(); }
            c.insert(lang, &m);
        }
        c
    }
    fn ex_units(&mut self) -> ExUnits { ExUnits::new(&self.coin(), &self.coin()) }
    fn ex_unit_prices(&mut self) -> ExUnitPrices { let a = self.nonneg_interval(); ExUnitPrices::new(&a, &self.nonneg_interval()) }
    fn pool_thresholds(&mut self) -> PoolVotingThresholds {
        PoolVotingThresholds::new(&self.unit_interval(), &self.unit_interval(), &self.unit_interval(), &self.unit_interval(), &self.unit_interval())
    }
    fn drep_thresholds(&mut self) -> DRepVotingThresholds {
        if self.chance(1, 2) {
            DRepVotingThresholds::new(&self.unit_interval(), &self.unit_interval(), &self.unit_interval(), &self.unit_interval(),
                &self.unit_interval(), &self.unit_interval(), &self.unit_interval(), &self.unit_interval(), &self.unit_interval(), &self.unit_interval())
        } else {
            // the setter route, starting from an all-valid value
            let one = UnitInterval::new(&bn(1), &bn(2));
            let mut t = DRepVotingThresholds::new(&one, &one, &one, &one, &one, &one, &one, &one, &one, &one);
            t.set_motion_no_confidence(&self.unit_interval()); t.set_committee_normal(&self.unit_interval());
            t.set_committee_no_confidence(&self.unit_interval()); t.set_update_constitution(&self.unit_interval());
            t.set_hard_fork_initiation(&self.unit_interval()); t.set_pp_network_group(&self.unit_interval());
            t.set_pp_economic_group(&self.unit_interval()); t.set_pp_technical_group(&self.unit_interval());
            t.set_pp_governance_group(&self.unit_interval()); t.set_treasury_withdrawal(&self.unit_interval());
            t
        }
    }
    /// bit i of `mask` = the i-th Conway field (30 of them); all values within the Conway ranges
    fn ppu(&mut self, mask: u64) -> ProtocolParamUpdate {
        let mut p = ProtocolParamUpdate::new();
        let on = |i: u32| mask & (1u64 << i) != 0;
        if on(0) { p.set_minfee_a(&self.coin()); }
        if on(1) { p.set_minfee_b(&self.coin()); }
        if on(2) { p.set_max_block_body_size(self.u32e()); }
        if on(3) { p.set_max_tx_size(self.u32e()); }
        if on(4) { p.set_max_block_header_size(self.u16e()); }
        if on(5) { p.set_key_deposit(&self.coin()); }
        if on(6) { p.set_pool_deposit(&self.coin()); }
        if on(7) { p.set_max_epoch(self.u32e()); }
        if on(8) { p.set_n_opt(self.u16e()); }
        if on(9) { p.set_pool_pledge_influence(&self.nonneg_interval()); }
        if on(10) { p.set_expansion_rate(&self.unit_interval()); }
        if on(11) { p.set_treasury_growth_rate(&self.unit_interval()); }
        if on(12) { p.set_min_pool_cost(&self.coin()); }
        if on(13) { p.set_ada_per_utxo_byte(&self.coin()); }
        if on(14) { p.set_cost_models(&self.costmdls()); }
        if on(15) { p.set_execution_costs(&self.ex_unit_prices()); }
        if on(16) { p.set_max_tx_ex_units(&self.ex_units()); }
        if on(17) { p.set_max_block_ex_units(&self.ex_units()); }
        if on(18) { p.set_max_value_size(self.u32e()); }
        if on(19) { p.set_collateral_percentage(self.u16e()); }
        if on(20) { p.set_max_collateral_inputs(self.u16e()); }
        if on(21) { p.set_pool_voting_thresholds(&self.pool_thresholds()); }
        if on(22) { p.set_drep_voting_thresholds(&self.drep_thresholds()); }
        if on(23) { p.set_min_committee_size(self.u16e()); }
        if on(24) { p.set_committee_term_limit(self.u32e()); }
        if on(25) { p.set_governance_action_validity_period(self.u32e()); }
        if on(26) { p.set_governance_action_deposit(&self.coin()); }
        if on(27) { p.set_drep_deposit(&self.coin()); }
        if on(28) { p.set_drep_inactivity_period(self.u32e()); }
        if on(29) { p.set_ref_script_coins_per_byte(&self.nonneg_interval()); }
        p
    }
    fn constitution(&mut self, with_script: bool) -> Constitution {
        let a = self.anchor();
        if with_script { Constitution::new_with_script_hash(&a, &self.sh()) } else { Constitution::new(&a) }
    }
    fn credentials(&mut self, lo: u64, hi: u64) -> Credentials {
        let mut v = Credentials::new();
        for _ in 0..self.range(lo, hi) { v.add(&self.cred_any()); }
        v
    }
    /// kind 0..7 in CDDL order; `v` bit 0 = with previous action id, bit 1 = with policy hash (where the API has it)
    fn gov_action(&mut self, kind: u64, v: u64) -> GovernanceAction {
        let with_id = v & 1 != 0;
        let with_policy = v & 2 != 0;
        match kind % 7 {
            0 => {
                let mask = self.r.next();
                let p = self.ppu(mask);
                let a = match (with_id, with_policy) {
                    (false, false) => ParameterChangeAction::new(&p),
                    (true, false) => ParameterChangeAction::new_with_action_id(&self.action_id(), &p),
                    (false, true) => ParameterChangeAction::new_with_policy_hash(&p, &self.sh()),
                    (true, true) => ParameterChangeAction::new_with_policy_hash_and_action_id(&self.action_id(), &p, &self.sh()),
                };
                GovernanceAction::new_parameter_change_action(&a)
            }
            1 => {
                let pv = ProtocolVersion::new(self.u32e(), self.u32e());
                GovernanceAction::new_hard_fork_initiation_action(&if with_id { HardForkInitiationAction::new_with_action_id(&self.action_id(), &pv) } else { HardForkInitiationAction::new(&pv) })
            }
            2 => {
                let mut w = TreasuryWithdrawals::new();
                for _ in 0..self.below(4) { let a = self.reward_any(); w.insert(&a, &self.coin()); }
                GovernanceAction::new_treasury_withdrawals_action(&if with_policy { TreasuryWithdrawalsAction::new_with_policy_hash(&w, &self.sh()) } else { TreasuryWithdrawalsAction::new(&w) })
            }
            3 => GovernanceAction::new_no_confidence_action(&if with_id { NoConfidenceAction::new_with_action_id(&self.action_id()) } else { NoConfidenceAction::new() }),
            4 => {
                let mut c = Committee::new(&self.unit_interval());
                for _ in 0..self.below(4) { let m = self.cred_any(); c.add_member(&m, self.u32e()); }
                let rm = self.credentials(0, 3);
                GovernanceAction::new_new_committee_action(&if with_id { UpdateCommitteeAction::new_with_action_id(&self.action_id(), &c, &rm) } else { UpdateCommitteeAction::new(&c, &rm) })
            }
            5 => {
                let c = self.constitution(with_policy);
                GovernanceAction::new_new_constitution_action(&if with_id { NewConstitutionAction::new_with_action_id(&self.action_id(), &c) } else { NewConstitutionAction::new(&c) })
            }
            _ => GovernanceAction::new_info_action(&InfoAction::new()),
        }
    }
    fn voting_proposal(&mut self) -> VotingProposal {
        let (k, v) = (self.below(7), self.below(4));
        let a = self.gov_action(k, v);
        VotingProposal::new(&a, &self.anchor(), &self.reward_any(), &self.coin())
    }
    fn voting_proposals(&mut self, lo: u64, hi: u64) -> VotingProposals {
        let mut v = VotingProposals::new();
        for _ in 0..self.range(lo, hi) { v.add(&self.voting_proposal()); }
        v
    }
}

fn big(s: &str) -> BigInt { BigInt::from_str(s).unwrap() }

impl G {
    // ---- scripts ----
    fn native_leaf(&mut self) -> NativeScript {
        match self.below(4) {
            0 | 1 => NativeScript::new_script_pubkey(&ScriptPubkey::new(&self.kh())),
            2 => NativeScript::new_timelock_start(&TimelockStart::new_timelockstart(&self.coin())),
            _ => NativeScript::new_timelock_expiry(&TimelockExpiry::new_timelockexpiry(&self.coin())),
        }
    }
    fn native_scripts(&mut self, lo: u64, hi: u64, depth: u32) -> NativeScripts {
        let mut v = NativeScripts::new();
        for _ in 0..self.range(lo, hi) { v.add(&self.native_script(depth)); }
        v
    }
    /// kind: 0 pubkey, 1 all, 2 any, 3 n_of_k, 4 start, 5 expiry
    fn native_kind(&mut self, kind: u64, depth: u32) -> NativeScript {
        match kind % 6 {
            0 => NativeScript::new_script_pubkey(&ScriptPubkey::new(&self.kh())),
            1 => NativeScript::new_script_all(&ScriptAll::new(&self.native_scripts(0, 4, depth))),
            2 => NativeScript::new_script_any(&ScriptAny::new(&self.native_scripts(0, 4, depth))),
            3 => { let s = self.native_scripts(0, 4, depth); let n = if self.chance(1, 4) { self.u32e() } else { self.below(s.len() as u64 + 1) as u32 };
                   NativeScript::new_script_n_of_k(&ScriptNOfK::new(n, &s)) }
            4 => if self.chance(1, 3) { NativeScript::new_timelock_start(&TimelockStart::new(self.u32e())) }
                 else { NativeScript::new_timelock_start(&TimelockStart::new_timelockstart(&self.coin())) },
            _ => if self.chance(1, 3) { NativeScript::new_timelock_expiry(&TimelockExpiry::new(self.u32e())) }
                 else { NativeScript::new_timelock_expiry(&TimelockExpiry::new_timelockexpiry(&self.coin())) },
        }
    }
    /// `depth` = how many more levels of compound scripts may follow
    fn native_script(&mut self, depth: u32) -> NativeScript {
        if depth == 0 { return self.native_leaf(); }
        let k = self.below(6);
        self.native_kind(k, depth - 1)
    }
    fn plutus_script(&mut self, version: u64) -> PlutusScript {
        let n = self.range(1, 60) as usize;
        let b = self.bytes(n);
        match version % 3 { 0 => PlutusScript::new(b), 1 => PlutusScript::new_v2(b), _ => PlutusScript::new_v3(b) }
    }
    fn plutus_scripts(&mut self, lo: u64, hi: u64, versions: &[u64]) -> PlutusScripts {
        let mut v = PlutusScripts::new();
        for _ in 0..self.range(lo, hi) { let ver = *self.r.pick(versions); v.add(&self.plutus_script(ver)); }
        v
    }
    fn script_ref(&mut self, kind: u64) -> ScriptRef {
        match kind % 4 {
            0 => ScriptRef::new_native_script(&self.native_script(2)),
            k => ScriptRef::new_plutus_script(&self.plutus_script(k - 1)),
        }
    }

    // ---- plutus data ----
    fn bigint_small(&mut self) -> BigInt {
        let v = self.edge();
        if self.chance(1, 2) { big(&v.to_string()) } else { big(&format!("-{}", v as u128 + 1)) }
    }
    /// |x| >= 2^64 (2..=10 64-bit limbs, so the byte string is sometimes longer than 64 bytes)
    fn bigint_big(&mut self, neg: bool, k: u64) -> BigInt {
        let two = big("2");
        let x = match k {
            0 => two.pow(64),
            1 => two.pow(64).add(&BigInt::one()),
            2 => two.pow(512).sub(&BigInt::one()),
            3 => two.pow(512),
            4 => two.pow(512).add(&BigInt::one()),
            _ => {
                let limbs = *self.r.pick(&[2u32, 2, 2, 3, 4, 8, 9, 10]);
                let base = two.pow(64);
                let mut x = big(&self.pos().to_string());
                for _ in 1..limbs { x = x.mul(&base).add(&big(&self.r.next().to_string())); }
                x
            }
        };
        if neg { BigInt::zero().sub(&x) } else { x }
    }
    fn plutus_list(&mut self, lo: u64, hi: u64, depth: u32) -> PlutusList {
        let mut l = PlutusList::new();
        for _ in 0..self.range(lo, hi) { l.add(&self.plutus_data(depth)); }
        l
    }
    fn plutus_map(&mut self, depth: u32) -> PlutusMap {
        let mut m = PlutusMap::new();
        for _ in 0..self.below(4) {
            let key = self.plutus_data(depth);
            let mut vals = PlutusMapValues::new();
            vals.add(&self.plutus_data(depth));            // exactly one value per key
            m.insert(&key, &vals);
        }
        m
    }
    fn constr(&mut self, class: u64, depth: u32) -> PlutusData {
        let alt = match class % 3 {
            0 => self.below(7),
            1 => self.range(7, 127),
            _ => if self.chance(1, 3) { *self.r.pick(&[128u64, 129, 255, 256, 1400, 65536, u64::MAX]) } else { self.edge().max(128) },
        };
        self.constr_with(alt, depth)
    }
    fn constr_with(&mut self, alt: u64, depth: u32) -> PlutusData {
        match self.below(3) {
            0 => PlutusData::new_empty_constr_plutus_data(&bn(alt)),
            1 => { let d = self.plutus_data(depth); PlutusData::new_single_value_constr_plutus_data(&bn(alt), &d) }
            _ => PlutusData::new_constr_plutus_data(&ConstrPlutusData::new(&bn(alt), &self.plutus_list(0, 3, depth))),
        }
    }
    /// `depth` = how many more levels of compound data may follow
    fn plutus_data(&mut self, depth: u32) -> PlutusData {
        let k = if depth == 0 { 3 + self.below(3) } else { self.below(6) };
        let d = depth.saturating_sub(1);
        match k {
            0 => { let c = self.below(3); self.constr(c, d) }
            1 => PlutusData::new_map(&self.plutus_map(d)),
            2 => PlutusData::new_list(&self.plutus_list(0, 3, d)),
            3 => PlutusData::new_integer(&self.bigint_small()),
            4 => { let (n, k) = (self.chance(1, 2), 5 + self.below(2)); PlutusData::new_integer(&self.bigint_big(n, k)) }
            _ => { let n = if self.chance(1, 5) { self.range(65, 200) as usize } else { self.len_edge(64) }; PlutusData::new_bytes(self.bytes(n)) }
        }
    }
    /// pairwise different elements (a witness-set datum list is a set)
    fn distinct_plutus_list(&mut self, lo: u64, hi: u64) -> PlutusList {
        let mut l = PlutusList::new();
        for i in 0..self.range(lo, hi) {
            let mut inner = PlutusList::new();
            inner.add(&PlutusData::new_integer(&big(&i.to_string())));
            inner.add(&self.plutus_data(2));
            l.add(&PlutusData::new_list(&inner));
        }
        l
    }
    fn redeemer_tag(&mut self, k: u64) -> RedeemerTag {
        match k % 6 { 0 => RedeemerTag::new_spend(), 1 => RedeemerTag::new_mint(), 2 => RedeemerTag::new_cert(),
                      3 => RedeemerTag::new_reward(), 4 => RedeemerTag::new_vote(), _ => RedeemerTag::new_voting_proposal() }
    }
    fn redeemers(&mut self, lo: u64, hi: u64) -> Redeemers {
        let mut v = Redeemers::new();
        let base = self.below(6);
        for i in 0..self.range(lo, hi) {
            // tags differ, so the (tag, index) keys are distinct
            let tag = self.redeemer_tag(base + i);
            let d = self.plutus_data(2);
            v.add(&Redeemer::new(&tag, &bn(self.u32e() as u64), &d, &self.ex_units()));
        }
        v
    }

    // ---- metadata ----
    fn md_int(&mut self, neg: bool) -> TransactionMetadatum {
        TransactionMetadatum::new_int(&if neg { Int::new_negative(&bn(self.pos())) } else { Int::new(&self.coin()) })
    }
    fn md_list(&mut self, depth: u32) -> TransactionMetadatum {
        let mut l = MetadataList::new();
        for _ in 0..self.below(4) { l.add(&self.metadatum(depth)); }
        TransactionMetadatum::new_list(&l)
    }
    fn md_map(&mut self, depth: u32) -> TransactionMetadatum {
        let mut m = MetadataMap::new();
        for _ in 0..self.below(4) { let k = self.metadatum(depth); m.insert(&k, &self.metadatum(depth)); }
        TransactionMetadatum::new_map(&m)
    }
    /// `depth` = how many more levels of compound metadata may follow
    fn metadatum(&mut self, depth: u32) -> TransactionMetadatum {
        let k = if depth == 0 { 2 + self.below(4) } else { self.below(6) };
        let d = depth.saturating_sub(1);
        match k {
            0 => self.md_list(d),
            1 => self.md_map(d),
            2 => self.md_int(false),
            3 => self.md_int(true),
            4 => { let n = self.len_edge(64); TransactionMetadatum::new_bytes(self.bytes(n)).unwrap() }
            _ => TransactionMetadatum::new_text(self.text(64)).unwrap(),
        }
    }
    fn general_metadata(&mut self, lo: u64, hi: u64) -> GeneralTransactionMetadata {
        let mut m = GeneralTransactionMetadata::new();
        for _ in 0..self.range(lo, hi) { let k = self.coin(); m.insert(&k, &self.metadatum(2)); }
        m
    }
    /// kind: 0 metadata_only, 1 with_native_scripts, 2/3/4 with_plutus_v1/v2/v3, 5 everything, 6 empty
    fn aux(&mut self, kind: u64) -> AuxiliaryData {
        let mut a = AuxiliaryData::new();
        match kind % 7 {
            0 => a.set_metadata(&self.general_metadata(0, 3)),
            1 => { if self.chance(3, 4) { a.set_metadata(&self.general_metadata(0, 3)); } a.set_native_scripts(&self.native_scripts(0, 3, 2)); }
            k @ 2..=4 => { if self.chance(1, 2) { a.set_metadata(&self.general_metadata(0, 3)); } a.set_plutus_scripts(&self.plutus_scripts(1, 3, &[k - 2])); }
            5 => { a.set_metadata(&self.general_metadata(1, 3)); a.set_native_scripts(&self.native_scripts(1, 3, 2));
                   let mut ps = PlutusScripts::new();
                   for v in 0..3 { ps.add(&self.plutus_script(v)); if self.chance(1, 2) { ps.add(&self.plutus_script(v)); } }
                   a.set_plutus_scripts(&ps); }
            _ => {}
        }
        if self.chance(1, 3) { a.set_prefer_alonzo_format(true); }
        a
    }

    // ---- outputs ----
    /// kind: 0 legacy_coin, 1 legacy_assets, 2 legacy_datum_hash, 3 inline_datum, 4 script_ref,
    /// 5 inline_datum_and_script_ref, 6 datum_hash_and_script_ref
    fn output(&mut self, kind: u64) -> TransactionOutput {
        let kind = kind % 7;
        let addr = self.address();
        let with_assets = kind == 1 || (kind >= 2 && self.chance(1, 3));
        let mut o = TransactionOutput::new(&addr, &self.value(with_assets));
        if kind == 2 || kind == 6 { o.set_data_hash(&self.data_hash()); }
        if kind == 3 || kind == 5 { o.set_plutus_data(&self.plutus_data(2)); }
        if kind >= 4 { let k = self.below(4); o.set_script_ref(&self.script_ref(k)); }
        o
    }
    fn outputs(&mut self, lo: u64, hi: u64) -> TransactionOutputs {
        let mut v = TransactionOutputs::new();
        for _ in 0..self.range(lo, hi) { let k = self.below(7); v.add(&self.output(k)); }
        v
    }

    // ---- body ----
    /// bits of `mask`: 0 ttl, 1 certs, 2 withdrawals, 3 aux data hash, 4 validity start, 5 mint, 6 script data hash,
    /// 7 collateral, 8 required signers, 9 network id, 10 collateral return, 11 total collateral, 12 reference inputs,
    /// 13 voting procedures, 14 voting proposals, 15 current treasury value, 16 donation
    fn body(&mut self, mask: u64) -> TransactionBody {
        let ins = if self.chance(1, 10) { self.tx_ins(0, 0) } else { self.tx_ins(1, 3) };
        let outs = self.outputs(0, 3);
        let mut b = TransactionBody::new_tx_body(&ins, &outs, &self.coin());
        let on = |i: u32| mask & (1u64 << i) != 0;
        if on(0) { b.set_ttl(&self.coin()); }
        if on(1) { b.set_certs(&self.certificates(1, 4)); }
        if on(2) { b.set_withdrawals(&self.withdrawals(1, 3)); }
        if on(3) { b.set_auxiliary_data_hash(&AuxiliaryDataHash::from_bytes(self.bytes(32)).unwrap()); }
        if on(4) { if self.chance(1, 3) { b.set_validity_start_interval(self.u32e()); } else { b.set_validity_start_interval_bignum(&self.coin()); } }
        if on(5) { b.set_mint(&self.mint(1, 3)); }
        if on(6) { b.set_script_data_hash(&ScriptDataHash::from_bytes(self.bytes(32)).unwrap()); }
        if on(7) { b.set_collateral(&self.tx_ins(1, 3)); }
        if on(8) { b.set_required_signers(&self.key_hashes(1, 3)); }
        if on(9) { b.set_network_id(&if self.chance(1, 2) { NetworkId::testnet() } else { NetworkId::mainnet() }); }
        if on(10) { let k = self.below(7); b.set_collateral_return(&self.output(k)); }
        if on(11) { b.set_total_collateral(&self.coin()); }
        if on(12) { b.set_reference_inputs(&self.tx_ins(1, 3)); }
        if on(13) { b.set_voting_procedures(&self.voting_procedures()); }
        if on(14) { b.set_voting_proposals(&self.voting_proposals(1, 3)); }
        if on(15) { b.set_current_treasury_value(&self.coin()); }
        if on(16) { b.set_donation(&bn(self.pos())); }
        b
    }

    // ---- witnesses ----
    fn vkeywitness(&mut self) -> Vkeywitness { let k = self.vkey(); Vkeywitness::new(&k, &self.sig()) }
    fn vkeywitnesses(&mut self, lo: u64, hi: u64) -> Vkeywitnesses {
        let mut v = Vkeywitnesses::new();
        for _ in 0..self.range(lo, hi) { v.add(&self.vkeywitness()); }
        v
    }
    fn bootstrap_witness(&mut self) -> BootstrapWitness {
        let (k, s) = (self.vkey(), self.sig());
        let attrs = if self.chance(1, 2) { vec![0xa0] } else { let n = self.below(40) as usize; self.bytes(n) };
        BootstrapWitness::new(&k, &s, self.bytes(32), attrs)
    }
    fn bootstrap_witnesses(&mut self, lo: u64, hi: u64) -> BootstrapWitnesses {
        let mut v = BootstrapWitnesses::new();
        for _ in 0..self.range(lo, hi) { v.add(&self.bootstrap_witness()); }
        v
    }
    /// bits of `mask`: 0 vkeys, 1 native scripts, 2 bootstraps, 3 plutus v1, 4 plutus v2, 5 plutus v3, 6 plutus data, 7 redeemers
    fn witness_set(&mut self, mask: u64) -> TransactionWitnessSet {
        let mut w = TransactionWitnessSet::new();
        let on = |i: u32| mask & (1u64 << i) != 0;
        if on(0) { w.set_vkeys(&self.vkeywitnesses(1, 3)); }
        if on(1) { w.set_native_scripts(&self.native_scripts(1, 3, 2)); }
        if on(2) { w.set_bootstraps(&self.bootstrap_witnesses(1, 2)); }
        if on(3) || on(4) || on(5) {
            let mut ps = PlutusScripts::new();
            for v in 0..3u64 { if on(3 + v as u32) { for _ in 0..self.range(1, 2) { ps.add(&self.plutus_script(v)); } } }
            w.set_plutus_scripts(&ps);
        }
        if on(6) { w.set_plutus_data(&self.distinct_plutus_list(1, 3)); }
        if on(7) { w.set_redeemers(&self.redeemers(1, 3)); }
        w
    }
}

// ------------------------------------------------------------------------------------------------
// stream 2: the label table and the constructions
const API: &[(&str, &[&str])] = &[
    ("TransactionInput", &["basic", "nv_index_u32"]),
    ("TransactionInputs", &["set"]),
    ("Credential", &["key", "script"]),
    ("Credentials", &["set"]),
    ("Ed25519KeyHashes", &["set"]),
    ("DRep", &["key", "script", "abstain", "no_confidence"]),
    ("Anchor", &["basic"]),
    ("UnitInterval", &["basic", "nv_zero_denominator", "nv_above_one"]),
    ("Relay", &["single_host_addr", "single_host_name", "multi_host_name"]),
    ("Relays", &["list"]),
    ("PoolMetadata", &["basic"]),
    ("ProtocolVersion", &["basic"]),
    ("ExUnits", &["basic"]),
    ("ExUnitPrices", &["basic"]),
    ("Certificate", &["stake_reg_legacy", "stake_dereg_legacy", "stake_delegation", "pool_registration",
        "pool_retirement", "stake_reg_conway", "stake_dereg_conway", "vote_delegation", "stake_and_vote_delegation",
        "stake_reg_and_delegation", "vote_reg_and_delegation", "stake_vote_reg_and_delegation", "committee_hot_auth",
        "committee_cold_resign", "drep_registration", "drep_deregistration", "drep_update",
        "nv_genesis_key_delegation", "nv_mir"]),
    ("Certificates", &["mixed"]),
    ("Assets", &["basic", "nv_zero_quantity"]),
    ("MultiAsset", &["basic", "nv_empty_policy"]),
    ("Value", &["coin_only", "with_assets", "nv_zero_asset"]),
    ("Mint", &["basic", "val_qty_above_int64", "val_qty_below_int64", "nv_duplicate_policy"]),
    ("Withdrawals", &["basic"]),
    ("Voter", &["cc_hot_key", "cc_hot_script", "drep_key", "drep_script", "stake_pool"]),
    ("GovernanceActionId", &["basic", "nv_index_u32"]),
    ("VotingProcedure", &["basic"]),
    ("VotingProcedures", &["basic"]),
    ("Costmdls", &["basic"]),
    ("PoolVotingThresholds", &["basic"]),
    ("DRepVotingThresholds", &["basic"]),
    ("ProtocolParamUpdate", &["all_conway_fields", "random_subset", "empty", "nv_protocol_version", "nv_u32_in_u16_field"]),
    ("Constitution", &["with_script", "without_script"]),
    ("GovernanceAction", &["parameter_change", "hard_fork", "treasury_withdrawals", "no_confidence", "update_committee",
        "new_constitution", "info"]),
    ("VotingProposal", &["basic"]),
    ("VotingProposals", &["mixed"]),
    ("NativeScript", &["pubkey", "all", "any", "n_of_k", "timelock_start", "timelock_expiry", "nested"]),
    ("NativeScripts", &["list"]),
    ("PlutusScripts", &["list"]),
    ("PlutusData", &["constr_small", "constr_mid", "constr_big", "constr_alt6", "constr_alt7", "constr_alt127", "constr_alt128", "map", "list_empty", "list_nonempty", "int_small",
        "int_big_pos", "int_big_neg", "bytes_short", "bytes_long", "nested", "nv_map_duplicate_key"]),
    ("PlutusList", &["basic"]),
    ("Redeemers", &["basic", "nv_index_u64", "nv_empty"]),
    ("TransactionMetadatum", &["int", "neg_int", "bytes", "text", "list", "map", "nested"]),
    ("GeneralTransactionMetadata", &["basic"]),
    ("AuxiliaryData", &["metadata_only", "with_native_scripts", "with_plutus_v1", "with_plutus_v2", "with_plutus_v3",
        "everything", "empty"]),
    ("ScriptRef", &["native", "plutus_v1", "plutus_v2", "plutus_v3"]),
    ("TransactionOutput", &["legacy_coin", "legacy_assets", "legacy_datum_hash", "inline_datum", "script_ref",
        "inline_datum_and_script_ref", "datum_hash_and_script_ref"]),
    ("TransactionOutputs", &["list"]),
    ("TransactionBody", &["minimal", "all_conway_fields", "random_subset", "nv_update_field", "nv_zero_donation",
        "empty_collections"]),
    ("Vkeywitness", &["basic"]),
    ("Vkeywitnesses", &["basic"]),
    ("BootstrapWitness", &["basic"]),
    ("BootstrapWitnesses", &["basic"]),
    ("TransactionWitnessSet", &["vkeys_only", "everything", "random_subset", "empty", "empty_bootstraps", "empty_redeemers"]),
    ("Transaction", &["minimal", "with_aux", "full"]),
];

const ALL_BODY: u64 = (1 << 17) - 1;
const ALL_WITS: u64 = (1 << 8) - 1;
const ALL_PPU: u64 = (1 << 30) - 1;

fn pos_of(labels: &[&str], l: &str) -> Option<u64> { labels.iter().position(|x| *x == l).map(|i| i as u64) }

/// The value of (type, label, k), serialised; None = unknown (type, label).
fn api(ty: &str, label: &str, k: u64) -> Option<Vec<u8>> {
    let mut g = G::new(fnv(&format!("{}/{}", ty, label)) ^ k);
    let g = &mut g;
    let labels: &[&str] = API.iter().find(|(t, _)| *t == ty).map(|(_, l)| *l)?;
    if !labels.contains(&label) { return None; }
    let li = pos_of(labels, label).unwrap();
    Some(match (ty, label) {
        ("TransactionInput", "basic") => {
            let idx = if k < 6 { [0u32, 23, 24, 255, 256, 65535][k as usize] } else { g.idx16() };
            TransactionInput::new(&g.txh(), idx).to_bytes()
        }
        ("TransactionInput", "nv_index_u32") => {
            let idx = match k { 0 => 65536, 1 => u32::MAX, _ => g.range(65536, u32::MAX as u64) as u32 };
            TransactionInput::new(&g.txh(), idx).to_bytes()
        }
        ("TransactionInputs", "set") => {
            let mut v = TransactionInputs::new();
            for _ in 0..g.below(6) { let i = g.tx_in(); v.add(&i); if g.chance(1, 3) { v.add(&i); } }
            v.to_bytes()
        }
        ("Credential", _) => g.cred(label == "script").to_bytes(),
        ("Credentials", "set") => {
            let mut v = Credentials::new();
            for _ in 0..g.below(6) { let c = g.cred_any(); v.add(&c); if g.chance(1, 3) { v.add(&c); } }
            v.to_bytes()
        }
        ("Ed25519KeyHashes", "set") => {
            let mut v = Ed25519KeyHashes::new();
            for _ in 0..g.below(6) { let c = g.kh(); v.add(&c); if g.chance(1, 3) { v.add(&c); } }
            v.to_bytes()
        }
        ("DRep", _) => g.drep(li).to_bytes(),
        ("Anchor", "basic") => g.anchor().to_bytes(),
        ("UnitInterval", "basic") => g.unit_interval().to_bytes(),
        ("UnitInterval", "nv_zero_denominator") => UnitInterval::new(&g.coin(), &bn(0)).to_bytes(),
        ("UnitInterval", "nv_above_one") => { let d = g.pos().min(u64::MAX - 1); let n = g.range(d + 1, u64::MAX); UnitInterval::new(&bn(n), &bn(d)).to_bytes() }
        ("Relay", _) => g.relay(li, k).to_bytes(),
        ("Relays", "list") => g.relays(0, 4).to_bytes(),
        ("PoolMetadata", "basic") => g.pool_metadata().to_bytes(),
        ("ProtocolVersion", "basic") => ProtocolVersion::new(g.u32e(), g.u32e()).to_bytes(),
        ("ExUnits", "basic") => g.ex_units().to_bytes(),
        ("ExUnitPrices", "basic") => g.ex_unit_prices().to_bytes(),
        ("Certificate", "nv_genesis_key_delegation") => Certificate::new_genesis_key_delegation(&GenesisKeyDelegation::new(
            &GenesisHash::from_bytes(g.bytes(28)).unwrap(), &GenesisDelegateHash::from_bytes(g.bytes(28)).unwrap(), &g.vrf())).to_bytes(),
        ("Certificate", "nv_mir") => {
            let pot = if g.chance(1, 2) { MIRPot::Reserves } else { MIRPot::Treasury };
            let mir = if k % 2 == 0 { MoveInstantaneousReward::new_to_other_pot(pot, &g.coin()) } else {
                let mut m = MIRToStakeCredentials::new();
                for _ in 0..g.range(1, 3) { let c = g.cred_any(); m.insert(&c, &g.mint_qty()); }
                MoveInstantaneousReward::new_to_stake_creds(pot, &m)
            };
            Certificate::new_move_instantaneous_rewards_cert(&MoveInstantaneousRewardsCert::new(&mir)).to_bytes()
        }
        ("Certificate", _) => g.certificate(li as usize, k % 2 == 1, k / 2).to_bytes(),
        ("Certificates", "mixed") => g.certificates(1, 6).to_bytes(),
        ("Assets", "basic") => g.assets(1, 4).to_bytes(),
        ("Assets", "nv_zero_quantity") => { let mut a = g.assets(0, 3); let n = g.asset_name(); a.insert(&n, &bn(0)); a.to_bytes() }
        ("MultiAsset", "basic") => g.multiasset(1, 3).to_bytes(),
        ("MultiAsset", "nv_empty_policy") => { let mut m = g.multiasset(1, 2); let p = g.sh(); m.insert(&p, &Assets::new()); m.to_bytes() }
        ("Value", "coin_only") => g.value(false).to_bytes(),
        ("Value", "with_assets") => g.value(true).to_bytes(),
        ("Value", "nv_zero_asset") => {
            let mut m = g.multiasset(0, 2);
            let mut a = g.assets(0, 2); let n = g.asset_name(); a.insert(&n, &bn(0));
            let p = g.sh(); m.insert(&p, &a);
            Value::new_with_assets(&g.coin(), &m).to_bytes()
        }
        ("Mint", "basic") => g.mint(1, 3).to_bytes(),
        ("Mint", "val_qty_above_int64") | ("Mint", "val_qty_below_int64") => {
            let q = if label == "val_qty_above_int64" {
                Int::new(&bn(match k { 0 => I63, 1 => u64::MAX, _ => g.range(I63, u64::MAX) }))
            } else {
                Int::new_negative(&bn(match k { 0 => I63 + 1, 1 => u64::MAX, _ => g.range(I63 + 1, u64::MAX) }))
            };
            let n = g.asset_name();
            let ma = if k % 2 == 0 { MintAssets::new_from_entry(&n, &q).unwrap() } else {
                let mut ma = g.mint_assets(0, 2); ma.insert(&n, &q).unwrap(); ma };
            let mut m = g.mint(0, 1);
            let p = g.sh(); m.insert(&p, &ma);
            m.to_bytes()
        }
        ("Mint", "nv_duplicate_policy") => {
            let mut m = g.mint(0, 1);
            let p = g.sh();
            m.insert(&p, &g.mint_assets(1, 2));
            m.insert(&p, &g.mint_assets(1, 2));
            m.to_bytes()
        }
        ("Withdrawals", "basic") => g.withdrawals(1, 4).to_bytes(),
        ("Voter", _) => g.voter(li).to_bytes(),
        ("GovernanceActionId", "basic") => {
            let idx = if k < 6 { [0u32, 23, 24, 255, 256, 65535][k as usize] } else { g.idx16() };
            GovernanceActionId::new(&g.txh(), idx).to_bytes()
        }
        ("GovernanceActionId", "nv_index_u32") => {
            let idx = match k { 0 => 65536, 1 => u32::MAX, _ => g.range(65536, u32::MAX as u64) as u32 };
            GovernanceActionId::new(&g.txh(), idx).to_bytes()
        }
        ("VotingProcedure", "basic") => g.voting_procedure(k).to_bytes(),
        ("VotingProcedures", "basic") => g.voting_procedures().to_bytes(),
        ("Costmdls", "basic") => g.costmdls().to_bytes(),
        ("PoolVotingThresholds", "basic") => g.pool_thresholds().to_bytes(),
        ("DRepVotingThresholds", "basic") => g.drep_thresholds().to_bytes(),
        ("ProtocolParamUpdate", "all_conway_fields") => g.ppu(ALL_PPU).to_bytes(),
        ("ProtocolParamUpdate", "random_subset") => { let m = g.r.next() & ALL_PPU; g.ppu(m).to_bytes() }
        ("ProtocolParamUpdate", "empty") => ProtocolParamUpdate::new().to_bytes(),
        ("ProtocolParamUpdate", "nv_protocol_version") => {
            let m = g.r.next() & g.r.next() & ALL_PPU;
            let mut p = g.ppu(m); p.set_protocol_version(&ProtocolVersion::new(g.below(12) as u32, g.below(3) as u32)); p.to_bytes()
        }
        ("ProtocolParamUpdate", "nv_u32_in_u16_field") => {
            let mut p = ProtocolParamUpdate::new();
            let v = match k { 0 => 65536, 1 => u32::MAX, _ => g.range(65536, u32::MAX as u64) as u32 };
            match g.below(5) { 0 => p.set_max_block_header_size(v), 1 => p.set_n_opt(v), 2 => p.set_collateral_percentage(v),
                               3 => p.set_max_collateral_inputs(v), _ => p.set_min_committee_size(v) }
            p.to_bytes()
        }
        ("Constitution", _) => g.constitution(label == "with_script").to_bytes(),
        ("GovernanceAction", _) => g.gov_action(li, k).to_bytes(),
        ("VotingProposal", "basic") => g.voting_proposal().to_bytes(),
        ("VotingProposals", "mixed") => g.voting_proposals(1, 4).to_bytes(),
        ("NativeScript", "nested") => { let kind = 1 + g.below(3); g.native_kind(kind, 2).to_bytes() }
        ("NativeScript", _) => g.native_kind(li, 0).to_bytes(),
        ("NativeScripts", "list") => g.native_scripts(0, 4, 2).to_bytes(),
        ("PlutusScripts", "list") => g.plutus_scripts(0, 4, &[0, 1, 2]).to_bytes(),
        ("PlutusData", "constr_small") => g.constr(0, 1).to_bytes(),
        ("PlutusData", "constr_mid") => g.constr(1, 1).to_bytes(),
        ("PlutusData", "constr_big") => g.constr(2, 1).to_bytes(),
        // the boundaries of the compact constructor tags: 121+alt up to 6, 1280+(alt-7) up to 127, general form from 128
        ("PlutusData", "constr_alt6") => g.constr_with(6, 1).to_bytes(),
        ("PlutusData", "constr_alt7") => g.constr_with(7, 1).to_bytes(),
        ("PlutusData", "constr_alt127") => g.constr_with(127, 1).to_bytes(),
        ("PlutusData", "constr_alt128") => g.constr_with(128, 1).to_bytes(),
        ("PlutusData", "map") => PlutusData::new_map(&g.plutus_map(1)).to_bytes(),
        ("PlutusData", "list_empty") => PlutusData::new_list(&PlutusList::new()).to_bytes(),
        ("PlutusData", "list_nonempty") => PlutusData::new_list(&g.plutus_list(1, 4, 1)).to_bytes(),
        ("PlutusData", "int_small") => PlutusData::new_integer(&g.bigint_small()).to_bytes(),
        ("PlutusData", "int_big_pos") => PlutusData::new_integer(&g.bigint_big(false, k)).to_bytes(),
        ("PlutusData", "int_big_neg") => PlutusData::new_integer(&g.bigint_big(true, k)).to_bytes(),
        ("PlutusData", "bytes_short") => { let n = if k < 4 { [0usize, 1, 63, 64][k as usize] } else { g.len_edge(64) }; PlutusData::new_bytes(g.bytes(n)).to_bytes() }
        ("PlutusData", "bytes_long") => { let n = if k < 4 { [65usize, 128, 129, 200][k as usize] } else { g.range(65, 200) as usize }; PlutusData::new_bytes(g.bytes(n)).to_bytes() }
        ("PlutusData", "nested") => { let kind = g.below(3); match kind { 0 => g.constr(k, 2), 1 => PlutusData::new_map(&g.plutus_map(2)), _ => PlutusData::new_list(&g.plutus_list(1, 3, 2)) }.to_bytes() }
        ("PlutusData", "nv_map_duplicate_key") => {
            let mut m = g.plutus_map(0);
            let key = g.plutus_data(0);
            let mut vals = PlutusMapValues::new();
            vals.add(&g.plutus_data(0)); vals.add(&g.plutus_data(0));
            m.insert(&key, &vals);
            PlutusData::new_map(&m).to_bytes()
        }
        ("PlutusList", "basic") => g.plutus_list(0, 4, 2).to_bytes(),
        ("Redeemers", "basic") => g.redeemers(1, 3).to_bytes(),
        ("Redeemers", "nv_index_u64") => {
            let mut v = g.redeemers(0, 2);
            let idx = match k { 0 => 1u64 << 32, 1 => u64::MAX, _ => g.range(1 << 32, u64::MAX) };
            let d = g.plutus_data(1);
            v.add(&Redeemer::new(&RedeemerTag::new_spend(), &bn(idx), &d, &g.ex_units()));
            v.to_bytes()
        }
        ("Redeemers", "nv_empty") => Redeemers::new().to_bytes(),
        ("TransactionMetadatum", "int") => g.md_int(false).to_bytes(),
        ("TransactionMetadatum", "neg_int") => g.md_int(true).to_bytes(),
        ("TransactionMetadatum", "bytes") => { let n = if k < 4 { [0usize, 1, 63, 64][k as usize] } else { g.len_edge(64) }; TransactionMetadatum::new_bytes(g.bytes(n)).unwrap().to_bytes() }
        ("TransactionMetadatum", "text") => TransactionMetadatum::new_text(g.text(64)).unwrap().to_bytes(),
        ("TransactionMetadatum", "list") => g.md_list(0).to_bytes(),
        ("TransactionMetadatum", "map") => g.md_map(0).to_bytes(),
        ("TransactionMetadatum", "nested") => if g.chance(1, 2) { g.md_list(2) } else { g.md_map(2) }.to_bytes(),
        ("GeneralTransactionMetadata", "basic") => g.general_metadata(0, 4).to_bytes(),
        ("AuxiliaryData", _) => g.aux(li).to_bytes(),
        ("ScriptRef", _) => g.script_ref(li).to_bytes(),
        ("TransactionOutput", _) => g.output(li).to_bytes(),
        ("TransactionOutputs", "list") => g.outputs(0, 4).to_bytes(),
        ("TransactionBody", "minimal") => g.body(0).to_bytes(),
        ("TransactionBody", "all_conway_fields") => g.body(ALL_BODY).to_bytes(),
        ("TransactionBody", "random_subset") => { let m = g.r.next() & ALL_BODY; g.body(m).to_bytes() }
        ("TransactionBody", "nv_update_field") => {
            let m = g.r.next() & g.r.next() & ALL_BODY;
            let mut b = g.body(m);
            let mut pp = ProposedProtocolParameterUpdates::new();
            for _ in 0..g.range(1, 2) { let h = GenesisHash::from_bytes(g.bytes(28)).unwrap(); let pm = g.r.next() & g.r.next() & ALL_PPU; pp.insert(&h, &g.ppu(pm)); }
            b.set_update(&Update::new(&pp, g.u32e()));
            b.to_bytes()
        }
        ("TransactionBody", "nv_zero_donation") => { let m = g.r.next() & g.r.next() & ALL_BODY & !(1 << 16); let mut b = g.body(m); b.set_donation(&bn(0)); b.to_bytes() }
        ("TransactionBody", "empty_collections") => {
            let mut b = g.body(0);
            let which = if k == 0 { 0xff } else if k <= 8 { 1u64 << (k - 1) } else { g.range(1, 0xff) };
            if which & 1 != 0 { b.set_certs(&Certificates::new()); }
            if which & 2 != 0 { b.set_withdrawals(&Withdrawals::new()); }
            if which & 4 != 0 { b.set_mint(&Mint::new()); }
            if which & 8 != 0 { b.set_collateral(&TransactionInputs::new()); }
            if which & 16 != 0 { b.set_required_signers(&Ed25519KeyHashes::new()); }
            if which & 32 != 0 { b.set_reference_inputs(&TransactionInputs::new()); }
            if which & 64 != 0 { b.set_voting_procedures(&VotingProcedures::new()); }
            if which & 128 != 0 { b.set_voting_proposals(&VotingProposals::new()); }
            b.to_bytes()
        }
        ("Vkeywitness", "basic") => g.vkeywitness().to_bytes(),
        ("Vkeywitnesses", "basic") => { let mut v = g.vkeywitnesses(0, 3); if g.chance(1, 2) { let w = g.vkeywitness(); v.add(&w); v.add(&w); } v.to_bytes() }
        ("BootstrapWitness", "basic") => g.bootstrap_witness().to_bytes(),
        ("BootstrapWitnesses", "basic") => { let mut v = g.bootstrap_witnesses(0, 3); if g.chance(1, 2) { let w = g.bootstrap_witness(); v.add(&w); v.add(&w); } v.to_bytes() }
        ("TransactionWitnessSet", "vkeys_only") => g.witness_set(1).to_bytes(),
        ("TransactionWitnessSet", "everything") => g.witness_set(ALL_WITS).to_bytes(),
        ("TransactionWitnessSet", "random_subset") => { let m = g.r.next() & ALL_WITS; g.witness_set(m).to_bytes() }
        ("TransactionWitnessSet", "empty") => TransactionWitnessSet::new().to_bytes(),
        ("TransactionWitnessSet", "empty_bootstraps") => { let m = g.r.next() & ALL_WITS & !4; let mut w = g.witness_set(m); w.set_bootstraps(&BootstrapWitnesses::new()); w.to_bytes() }
        ("TransactionWitnessSet", "empty_redeemers") => { let m = g.r.next() & ALL_WITS & !128; let mut w = g.witness_set(m); w.set_redeemers(&Redeemers::new()); w.to_bytes() }
        ("Transaction", "minimal") => { let m = g.r.next() & g.r.next() & ALL_BODY; let b = g.body(m); let mut t = Transaction::new(&b, &g.witness_set(1), None); if k % 4 == 3 { t.set_is_valid(false); } t.to_bytes() }
        ("Transaction", "with_aux") => {
            let (bm, wm, ak) = (g.r.next() & ALL_BODY, g.r.next() & ALL_WITS, g.below(7));
            let b = g.body(bm | 8); let w = g.witness_set(wm);
            let mut t = Transaction::new(&b, &w, Some(g.aux(ak)));
            if k % 4 == 3 { t.set_is_valid(false); }
            t.to_bytes()
        }
        ("Transaction", "full") => { let b = g.body(ALL_BODY); let w = g.witness_set(ALL_WITS); Transaction::new(&b, &w, Some(g.aux(5))).to_bytes() }
        _ => return None,
    })
}


// ------------------------------------------------------------------------------------------------
// stream 2b: SIZE and RANGE bounds of every bounded leaf of the CDDL, through every validating constructor.
// Lengths are measured in BYTES (what `tstr .size` / `bytes .size` bound) and built from ASCII and from 2-, 3- and
// 4-byte code points, so that character count and byte count differ.  A constructor may reject (result `rejected`);
// whatever it ACCEPTS is emitted and must conform.
const WIDTHS: &[&str] = &["ascii", "u2", "u3", "u4", "mix"];
/// text of exactly `n` UTF-8 bytes made of code points of `width` bytes (0 = mixed widths), ASCII padding for the remainder
fn text_of_bytes(g: &mut G, n: usize, width: usize) -> String {
    const C2: [char; 3] = ['é', 'ß', 'ж'];
    const C3: [char; 3] = ['€', '語', 'ก'];
    const C4: [char; 3] = ['😀', '𝄞', '𐍈'];
    let mut s = String::new();
    while s.len() < n {
        let w = if width == 0 { 1 + g.below(4) as usize } else { width };
        let w = if s.len() + w <= n { w } else { 1 };
        let c = match w { 2 => C2[g.below(3) as usize], 3 => C3[g.below(3) as usize], 4 => C4[g.below(3) as usize],
                          _ => (b'a' + g.below(26) as u8) as char };
        s.push(c);
    }
    s
}
/// the text for variant k at a byte bound: k%4 = 0: bound-1 bytes, 1: bound, 2: bound+1, 3: `bound` CHARACTERS of that width
/// (bound*width bytes: at most `bound` characters but far more bytes); larger k also try bound+2.. and 2*bound
fn bounded_text(g: &mut G, bound: usize, width_name: &str, k: u64) -> String {
    let width = match width_name { "ascii" => 1, "u2" => 2, "u3" => 3, "u4" => 4, _ => 0 };
    match k % 8 {
        0 => text_of_bytes(g, bound - 1, width),
        1 => text_of_bytes(g, bound, width),
        2 => text_of_bytes(g, bound + 1, width),
        3 => { let w = if width == 0 { 3 } else { width }; text_of_bytes(g, bound * w, w) }
        4 => text_of_bytes(g, bound + 2, width),
        5 => { let w = if width == 0 { 2 } else { width }; text_of_bytes(g, (bound / w) * w + w, w) }   // just over, no padding
        6 => text_of_bytes(g, 2 * bound, width),
        _ => { let n = g.range(bound as u64 - 3, bound as u64 + 3) as usize; text_of_bytes(g, n, width) }
    }
}
fn bounded_len(bound: usize, k: u64) -> usize {
    match k % 8 { 0 => bound - 1, 1 => bound, 2 => bound + 1, 3 => 0, 4 => bound + 2, 5 => 2 * bound, 6 => 2 * bound + 1, _ => bound.saturating_sub(2) }
}
fn bound_labels() -> Vec<(&'static str, String)> {
    let mut v: Vec<(&'static str, String)> = Vec::new();
    for w in WIDTHS {
        v.push(("Anchor", format!("bound_url_{}", w)));
        v.push(("PoolMetadata", format!("bound_url_{}", w)));
        v.push(("Relay", format!("bound_dns_a_{}", w)));
        v.push(("Relay", format!("bound_dns_srv_{}", w)));
        v.push(("TransactionMetadatum", format!("bound_text_{}", w)));
        v.push(("TransactionMetadatum", format!("bound_mapkey_{}", w)));
        v.push(("TransactionMetadatum", format!("bound_json_text_{}", w)));
        v.push(("Certificate", format!("bound_pool_registration_{}", w)));
        v.push(("Certificate", format!("bound_drep_anchor_{}", w)));
    }
    for l in ["bound_ipv4", "bound_ipv6", "bound_port"] { v.push(("Relay", l.to_string())); }
    for l in ["bound_bytes", "bound_json_bytes", "bound_arbitrary_bytes", "bound_int_from_str"] { v.push(("TransactionMetadatum", l.to_string())); }
    v.push(("Assets", "bound_asset_name".to_string()));
    v.push(("MultiAsset", "bound_asset_name".to_string()));
    v.push(("Value", "bound_coin_from_str".to_string()));
    v.push(("Mint", "bound_qty_int64".to_string()));
    v.push(("TransactionInput", "bound_index".to_string()));
    v.push(("GovernanceActionId", "bound_index".to_string()));
    v.push(("Redeemers", "bound_index_u32".to_string()));
    v.push(("TransactionBody", "bound_uint64_fields".to_string()));
    v.push(("ProtocolParamUpdate", "bound_sized_fields".to_string()));
    v.push(("Costmdls", "bound_cost_int64".to_string()));
    v.push(("NativeScript", "bound_n_of_k".to_string()));
    v.push(("PlutusData", "bound_bytes".to_string()));
    v.push(("PlutusData", "bound_bigint".to_string()));
    v.push(("UnitInterval", "bound_extremes".to_string()));
    v
}
/// None = unknown label; Some(Err) = the constructor rejected the value; Some(Ok(bytes)) = emitted bytes
fn bound(ty: &str, label: &str, k: u64) -> Option<Result<Vec<u8>, ()>> {
    let mut g = G::new(fnv(&format!("{}/{}", ty, label)) ^ k);
    let g = &mut g;
    let width = label.rsplit('_').next().unwrap_or("");
    let stem = if WIDTHS.contains(&width) { &label[..label.len() - width.len() - 1] } else { label };
    let two63: u64 = 1u64 << 63;
    Some(match (ty, stem) {
        ("Anchor", "bound_url") => URL::new(bounded_text(g, 128, width, k)).map_err(|_| ())
            .map(|u| Anchor::new(&u, &AnchorDataHash::from_bytes(g.bytes(32)).unwrap()).to_bytes()),
        ("PoolMetadata", "bound_url") => URL::new(bounded_text(g, 128, width, k)).map_err(|_| ())
            .map(|u| PoolMetadata::new(&u, &PoolMetadataHash::from_bytes(g.bytes(32)).unwrap()).to_bytes()),
        ("Relay", "bound_dns_a") => DNSRecordAorAAAA::new(bounded_text(g, 128, width, k)).map_err(|_| ())
            .map(|d| Relay::new_single_host_name(&SingleHostName::new(if k & 8 != 0 { Some(g.u16e() as u16) } else { None }, &d)).to_bytes()),
        ("Relay", "bound_dns_srv") => DNSRecordSRV::new(bounded_text(g, 128, width, k)).map_err(|_| ())
            .map(|d| Relay::new_multi_host_name(&MultiHostName::new(&d)).to_bytes()),
        ("Relay", "bound_ipv4") => Ipv4::new(g.bytes(bounded_len(4, k))).map_err(|_| ())
            .map(|ip| Relay::new_single_host_addr(&SingleHostAddr::new(None, Some(ip), None)).to_bytes()),
        ("Relay", "bound_ipv6") => Ipv6::new(g.bytes(bounded_len(16, k))).map_err(|_| ())
            .map(|ip| Relay::new_single_host_addr(&SingleHostAddr::new(None, None, Some(ip))).to_bytes()),
        ("Relay", "bound_port") => { let p = [0u16, 1, 23, 24, 255, 256, 65534, 65535][(k % 8) as usize];
            Ok(Relay::new_single_host_addr(&SingleHostAddr::new(Some(p), None, None)).to_bytes()) }
        ("TransactionMetadatum", "bound_text") => TransactionMetadatum::new_text(bounded_text(g, 64, width, k)).map_err(|_| ()).map(|m| m.to_bytes()),
        ("TransactionMetadatum", "bound_bytes") => TransactionMetadatum::new_bytes(g.bytes(bounded_len(64, k))).map_err(|_| ()).map(|m| m.to_bytes()),
        ("TransactionMetadatum", "bound_mapkey") => { let mut m = MetadataMap::new();
            m.insert_str(&bounded_text(g, 64, width, k), &g.md_int(false)).map_err(|_| ()).map(|_| TransactionMetadatum::new_map(&m).to_bytes()) }
        ("TransactionMetadatum", "bound_json_text") => {
            let t = bounded_text(g, 64, width, k);
            let schema = [MetadataJsonSchema::NoConversions, MetadataJsonSchema::BasicConversions, MetadataJsonSchema::DetailedSchema][((k / 8) % 3) as usize];
            let json = if let MetadataJsonSchema::DetailedSchema = schema { format!("{{\"map\":[{{\"k\":{{\"string\":\"{}\"}},\"v\":{{\"list\":[{{\"string\":\"{}\"}}]}}}}]}}", t, t) }
                       else { format!("{{\"{}\":[\"{}\"]}}", t, t) };
            encode_json_str_to_metadatum(json, schema).map_err(|_| ()).map(|m| m.to_bytes())
        }
        ("TransactionMetadatum", "bound_json_bytes") => {
            let h = hex::encode(g.bytes(bounded_len(64, k)));
            let (json, schema) = if (k / 8) % 2 == 0 { (format!("{{\"k\":\"0x{}\"}}", h), MetadataJsonSchema::BasicConversions) }
                                 else { (format!("{{\"map\":[{{\"k\":{{\"bytes\":\"{}\"}},\"v\":{{\"bytes\":\"{}\"}}}}]}}", h, h), MetadataJsonSchema::DetailedSchema) };
            encode_json_str_to_metadatum(json, schema).map_err(|_| ()).map(|m| m.to_bytes())
        }
        ("TransactionMetadatum", "bound_arbitrary_bytes") => { let n = [0usize, 1, 63, 64, 65, 127, 128, 129][(k % 8) as usize];
            Ok(encode_arbitrary_bytes_as_metadatum(&g.bytes(n)).to_bytes()) }
        ("TransactionMetadatum", "bound_int_from_str") => {
            let t = ["18446744073709551614", "18446744073709551615", "18446744073709551616", "-18446744073709551615",
                     "-18446744073709551616", "-18446744073709551617", "9223372036854775808", "-9223372036854775809"][(k % 8) as usize];
            Int::from_str(t).map_err(|_| ()).map(|i| TransactionMetadatum::new_int(&i).to_bytes()) }
        ("Certificate", "bound_pool_registration") => URL::new(bounded_text(g, 128, width, k)).map_err(|_| ()).and_then(|u| {
            let d = DNSRecordAorAAAA::new(bounded_text(g, 128, width, k)).map_err(|_| ())?;
            let mut relays = Relays::new(); relays.add(&Relay::new_single_host_name(&SingleHostName::new(Some(65535), &d)));
            let md = PoolMetadata::new(&u, &PoolMetadataHash::from_bytes(g.bytes(32)).unwrap());
            let (op, vrf, ui, ra, owners) = (g.kh(), g.vrf(), g.unit_interval(), g.reward_any(), g.key_hashes(0, 2));
            let p = PoolParams::new(&op, &vrf, &g.coin(), &g.coin(), &ui, &ra, &owners, &relays, Some(md));
            Ok(Certificate::new_pool_registration(&PoolRegistration::new(&p)).to_bytes()) }),
        ("Certificate", "bound_drep_anchor") => URL::new(bounded_text(g, 128, width, k)).map_err(|_| ()).map(|u| {
            let a = Anchor::new(&u, &AnchorDataHash::from_bytes(g.bytes(32)).unwrap());
            let c = g.cred_any();
            Certificate::new_drep_update(&DRepUpdate::new_with_anchor(&c, &a)).to_bytes() }),
        ("Assets", "bound_asset_name") => AssetName::new(g.bytes(bounded_len(32, k))).map_err(|_| ())
            .map(|n| { let mut a = Assets::new(); a.insert(&n, &bn(g.pos())); a.to_bytes() }),
        ("MultiAsset", "bound_asset_name") => AssetName::new(g.bytes(bounded_len(32, k))).map_err(|_| ())
            .map(|n| { let mut m = MultiAsset::new(); m.set_asset(&g.sh(), &n, &bn(g.pos())); m.to_bytes() }),
        ("Value", "bound_coin_from_str") => {
            let t = ["0", "23", "4294967295", "4294967296", "18446744073709551614", "18446744073709551615", "18446744073709551616", "-1"][(k % 8) as usize];
            BigNum::from_str(t).map_err(|_| ()).map(|c| Value::new(&c).to_bytes()) }
        ("Mint", "bound_qty_int64") => {
            let q = match k % 8 { 0 => Int::new(&bn(two63 - 2)), 1 => Int::new(&bn(two63 - 1)), 2 => Int::new(&bn(two63)),
                                  3 => Int::new_negative(&bn(two63 - 1)), 4 => Int::new_negative(&bn(two63)), 5 => Int::new_negative(&bn(two63 + 1)),
                                  6 => Int::new_i32(1), _ => Int::new_i32(-1) };
            MintAssets::new_from_entry(&g.asset_name(), &q).map_err(|_| ()).map(|ma| Mint::new_from_entry(&g.sh(), &ma).to_bytes()) }
        ("TransactionInput", "bound_index") => Ok(TransactionInput::new(&g.txh(), [65534u32, 65535][(k % 2) as usize]).to_bytes()),
        ("GovernanceActionId", "bound_index") => Ok(GovernanceActionId::new(&g.txh(), [65534u32, 65535][(k % 2) as usize]).to_bytes()),
        ("Redeemers", "bound_index_u32") => { let mut v = Redeemers::new();
            let i = [0u64, 65535, 65536, (1u64 << 32) - 2, (1u64 << 32) - 1][(k % 5) as usize];
            let tag = g.redeemer_tag(k); let d = g.plutus_data(1);
            v.add(&Redeemer::new(&tag, &bn(i), &d, &ExUnits::new(&bn(u64::MAX), &bn(u64::MAX - 1)))); Ok(v.to_bytes()) }
        ("TransactionBody", "bound_uint64_fields") => {
            let x = [u64::MAX, u64::MAX - 1, 1u64 << 32, (1u64 << 32) - 1][(k % 4) as usize];
            let mut b = TransactionBody::new_tx_body(&g.tx_ins(1, 2), &g.outputs(0, 2), &bn(x));
            b.set_ttl(&bn(x)); b.set_validity_start_interval_bignum(&bn(x)); b.set_total_collateral(&bn(x)); b.set_donation(&bn(x));
            let _ = b.set_current_treasury_value(&bn(x)); Ok(b.to_bytes()) }
        ("ProtocolParamUpdate", "bound_sized_fields") => {
            let (a, c) = if k % 2 == 0 { (65535u32, u32::MAX) } else { (65534u32, u32::MAX - 1) };
            let mut p = ProtocolParamUpdate::new();
            p.set_max_block_header_size(a); p.set_n_opt(a); p.set_collateral_percentage(a); p.set_max_collateral_inputs(a); p.set_min_committee_size(a);
            p.set_max_block_body_size(c); p.set_max_tx_size(c); p.set_max_epoch(c); p.set_max_value_size(c);
            p.set_committee_term_limit(c); p.set_governance_action_validity_period(c); p.set_drep_inactivity_period(c);
            Ok(p.to_bytes()) }
        ("Costmdls", "bound_cost_int64") => (|| -> Result<Vec<u8>, ()> { let mut m = CostModel::new();
            m.set(0, &Int::new(&bn(two63 - 1))).map_err(|_| ())?; m.set(1, &Int::new_negative(&bn(two63))).map_err(|_| ())?;
            m.set(2, &Int::new(&bn(two63 - 2))).map_err(|_| ())?; m.set(3, &Int::new_negative(&bn(two63 - 1))).map_err(|_| ())?;
            let mut c = Costmdls::new(); c.insert(&[Language::new_plutus_v1(), Language::new_plutus_v2(), Language::new_plutus_v3()][(k % 3) as usize], &m);
            Ok(c.to_bytes()) })(),
        ("NativeScript", "bound_n_of_k") => { let n = [0u32, 1, 65535, 65536, u32::MAX - 1, u32::MAX][(k % 6) as usize];
            Ok(NativeScript::new_script_n_of_k(&ScriptNOfK::new(n, &g.native_scripts(0, 2, 0))).to_bytes()) }
        ("PlutusData", "bound_bytes") => { let n = [0usize, 63, 64, 65, 127, 128, 129, 192][(k % 8) as usize]; Ok(PlutusData::new_bytes(g.bytes(n)).to_bytes()) }
        ("PlutusData", "bound_bigint") => {
            let t = ["18446744073709551615", "18446744073709551616", "-18446744073709551616", "-18446744073709551617",
                     "9223372036854775807", "-9223372036854775808", "0", "-1"][(k % 8) as usize];
            BigInt::from_str(t).map_err(|_| ()).map(|b| PlutusData::new_integer(&b).to_bytes()) }
        ("UnitInterval", "bound_extremes") => { let (n, d) = [(0u64, 1u64), (1, 1), (0, u64::MAX), (u64::MAX, u64::MAX), (u64::MAX - 1, u64::MAX), (1, 2), (23, 24), (255, 256)][(k % 8) as usize];
            Ok(UnitInterval::new(&bn(n), &bn(d)).to_bytes()) }
        _ => return None,
    })
}


// ------------------------------------------------------------------------------------------------
// stream 2c: PROVENANCE REUSE.  A value is equal for the library whatever bytes it was decoded from, but it may remember
// an encoding hint (set tag, definite/indefinite, legacy/map output, array/map redeemers, aux-data era).  Here a collection
// is first DECODED from one of the wire spellings the decoder accepts, then moved through typed constructors / setters into
// every OTHER container that takes the type, and the container's bytes are judged.  Spellings that the CDDL itself allows
// only (PlutusData keeps its original bytes by design, so it is only offered conformant spellings).
fn cbor_bytes(b: &[u8]) -> Vec<u8> { let mut v = if b.len() < 24 { vec![0x40 + b.len() as u8] } else if b.len() < 256 { vec![0x58, b.len() as u8] } else { vec![0x59, (b.len() >> 8) as u8, b.len() as u8] }; v.extend_from_slice(b); v }
fn strip_set_tag(b: &[u8]) -> Vec<u8> { if b.len() >= 3 && b[0] == 0xd9 && b[1] == 0x01 && b[2] == 0x02 { b[3..].to_vec() } else { b.to_vec() } }
fn with_set_tag(b: &[u8]) -> Vec<u8> { let mut v = vec![0xd9, 0x01, 0x02]; v.extend_from_slice(&strip_set_tag(b)); v }
/// definite array / map at the top -> indefinite with break
fn to_indefinite(b: &[u8]) -> Vec<u8> {
    if b.is_empty() { return b.to_vec(); }
    let (m, ai) = (b[0] >> 5, b[0] & 31);
    if m != 4 && m != 5 { return b.to_vec(); }
    let skip = match ai { 0..=23 => 1, 24 => 2, 25 => 3, 26 => 5, 27 => 9, _ => return b.to_vec() };
    let mut v = vec![(m << 5) | 31]; v.extend_from_slice(&b[skip..]); v.push(0xff); v
}
/// the first head written one width class wider than necessary
fn widen_head(b: &[u8]) -> Vec<u8> {
    if b.is_empty() { return b.to_vec(); }
    let (m, ai) = (b[0] >> 5, b[0] & 31);
    let mut v = match ai { 0..=23 => vec![(m << 5) | 24, ai], 24 => vec![(m << 5) | 25, 0, b[1]], _ => return b.to_vec() };
    v.extend_from_slice(&b[if ai < 24 { 1 } else { 2 }..]); v
}
/// the spellings of a SET (canonical bytes = tag 258 + definite array): 8 variants
fn set_spelling(canon: &[u8], v: u64) -> Vec<u8> {
    let arr = strip_set_tag(canon);
    match v % 8 {
        0 => with_set_tag(&arr), 1 => arr,
        2 => with_set_tag(&to_indefinite(&arr)), 3 => to_indefinite(&arr),
        4 => with_set_tag(&widen_head(&arr)), 5 => widen_head(&arr),
        6 => { let mut t = vec![0xda, 0, 0, 0x01, 0x02]; t.extend_from_slice(&arr); t }      // the tag itself non-minimal
        _ => with_set_tag(&widen_head(&widen_head(&arr))),
    }
}
/// the spellings of a plain ARRAY / MAP collection
fn arr_spelling(canon: &[u8], v: u64) -> Vec<u8> {
    match v % 4 { 0 => canon.to_vec(), 1 => to_indefinite(canon), 2 => widen_head(canon), _ => with_set_tag(canon) }
}
/// every `d9 0102` (set tag) inside the element removed: the pre-Conway spelling of nested sets
fn strip_inner_set_tags(b: &[u8]) -> Vec<u8> {
    let mut v = Vec::with_capacity(b.len()); let mut i = 0;
    while i < b.len() { if i + 2 < b.len() && b[i] == 0xd9 && b[i + 1] == 0x01 && b[i + 2] == 0x02 { i += 3; } else { v.push(b[i]); i += 1; } }
    v
}
/// another wire spelling of the SAME element (k mod 6): as written / nested set tags stripped / indefinite top array /
/// wide top head / stripped and indefinite / stripped and wide
fn respell(b: &[u8], v: u64) -> Vec<u8> {
    match v % 6 { 0 => b.to_vec(), 1 => strip_inner_set_tags(b), 2 => to_indefinite(b), 3 => widen_head(b),
                  4 => to_indefinite(&strip_inner_set_tags(b)), _ => widen_head(&strip_inner_set_tags(b)) }
}
fn prov_labels() -> Vec<(&'static str, &'static str)> {
    vec![
        ("NativeScript", "prov_scripts_ws_into_all"), ("NativeScript", "prov_scripts_ws_into_any"), ("NativeScript", "prov_scripts_ws_into_n_of_k"),
        ("NativeScript", "prov_scripts_plain_into_all"), ("NativeScript", "prov_scripts_aux_into_any"),
        ("AuxiliaryData", "prov_scripts_ws_into_aux"), ("AuxiliaryData", "prov_scripts_plain_into_aux"), ("AuxiliaryData", "prov_scripts_aux_into_aux"),
        ("AuxiliaryData", "prov_metadata_into_aux"), ("AuxiliaryData", "prov_plutus_scripts_ws_into_aux"), ("AuxiliaryData", "prov_aux_era_switch"),
        ("TransactionWitnessSet", "prov_scripts_plain_into_ws"), ("TransactionWitnessSet", "prov_scripts_aux_into_ws"),
        ("TransactionWitnessSet", "prov_ws_fields_into_ws"), ("TransactionWitnessSet", "prov_redeemers_into_ws"),
        ("TransactionWitnessSet", "prov_plutus_list_into_ws"), ("TransactionWitnessSet", "prov_plutus_scripts_aux_into_ws"),
        ("NativeScripts", "prov_scripts_ws_standalone"),
        ("Certificate", "prov_keyhashes_into_pool_owners"), ("TransactionBody", "prov_keyhashes_into_required_signers"),
        ("Ed25519KeyHashes", "prov_keyhashes_standalone"),
        ("GovernanceAction", "prov_credentials_into_committee"), ("Credentials", "prov_credentials_standalone"),
        ("Certificate", "prov_credential_into_certs"), ("VotingProposal", "prov_action_into_proposal"),
        ("TransactionBody", "prov_inputs_into_body"), ("TransactionBody", "prov_certs_into_body"), ("TransactionBody", "prov_proposals_into_body"),
        ("TransactionBody", "prov_outputs_into_body"), ("TransactionBody", "prov_output_into_collateral_return"),
        ("TransactionOutputs", "prov_outputs_list"), ("TransactionOutput", "prov_output_forms"),
        ("PlutusData", "prov_list_into_data"), ("PlutusData", "prov_list_into_constr"), ("PlutusData", "prov_list_ws_into_constr"),
        ("Redeemers", "prov_data_into_redeemer"), ("Redeemers", "prov_redeemers_forms"),
        ("Transaction", "prov_parts_into_transaction"),
        ("TransactionWitnessSet", "prov_datum_pair_into_ws"), ("Transaction", "prov_datum_pair_into_transaction"),
        ("Certificates", "prov_pair_certs"), ("TransactionBody", "prov_pair_certs_in_body"), ("VotingProposals", "prov_pair_proposals"),
        ("TransactionBody", "prov_pair_proposals_in_body"), ("Ed25519KeyHashes", "prov_pair_keyhashes"),
        ("Credentials", "prov_pair_credentials"), ("TransactionInputs", "prov_pair_inputs"), ("Vkeywitnesses", "prov_pair_vkeys"),
        ("BootstrapWitnesses", "prov_pair_bootstraps"), ("TransactionWitnessSet", "prov_pair_native_scripts_in_ws"),
        ("TransactionWitnessSet", "prov_pair_plutus_scripts_in_ws"),
        ("Transaction", "pin_net_zero_mint"), ("Transaction", "pin_collateral_zero_only_policy"), ("Transaction", "pin_mixed_bundle_output"),
        ("Assets", "json_asset_name"), ("Assets", "json_assets"), ("MultiAsset", "json_multiasset"), ("Value", "json_value"), ("Mint", "json_mint"),
        ("TransactionOutput", "json_output"), ("TransactionBody", "json_body"), ("Transaction", "json_transaction"),
        ("Anchor", "json_url"), ("Anchor", "json_anchor"), ("PoolMetadata", "json_pool_metadata"), ("Certificate", "json_cert_pool_registration"),
        ("Certificate", "json_cert_drep_anchor"), ("VotingProposal", "json_proposal_anchor"),
        ("Relay", "json_dns_a"), ("Relay", "json_dns_srv"), ("Relay", "json_relay"),
        ("GeneralTransactionMetadata", "json_metadata_text"), ("AuxiliaryData", "json_aux_text"),
    ]
}
// the three free JSON -> metadatum converters: ONE bounded field (text / byte string of 63, 64, 65, 128 bytes, 64 / 66 bytes in
// 2-byte code points) in ONE position (k % 6: value, list item, map key, map value, nested key, nested value), everything else
// short; k / 6 % 6 = length, k / 36 % 2 = text / byte string: 72 cases per converter, all on every run
fn conv_labels() -> Vec<(&'static str, &'static str)> {
    vec![("GeneralTransactionMetadata", "json_conv_no_conversions"), ("GeneralTransactionMetadata", "json_conv_basic_conversions"),
         ("GeneralTransactionMetadata", "json_conv_detailed_schema"), ("AuxiliaryData", "json_conv_into_aux")]
}
fn dec<T, E>(r: Result<T, E>) -> Result<T, ()> { r.map_err(|_| ()) }
/// None = unknown label; Some(Err) = the decoder refused that spelling; Some(Ok(bytes)) = the container's bytes
fn prov(ty: &str, label: &str, k: u64) -> Option<Result<Vec<u8>, ()>> {
    let mut g = G::new(fnv(&format!("{}/{}", ty, label)) ^ (k / 8));
    let g = &mut g;
    let v = k % 8;
    // ---- sources ----
    // native scripts decoded from a witness set in spelling v (the field is a set there)
    let scripts_from_ws = |g: &mut G, v: u64| -> Result<NativeScripts, ()> {
        let fresh = g.native_scripts(1, 3, 1);
        let mut ws = TransactionWitnessSet::new(); ws.set_native_scripts(&fresh);
        let b = ws.to_bytes();                                   // a1 01 d9 0102 8n ...
        let mut bytes = vec![0xa1, 0x01]; bytes.extend_from_slice(&set_spelling(&b[2..], v));
        dec(TransactionWitnessSet::from_bytes(bytes))?.native_scripts().ok_or(())
    };
    let scripts_plain = |g: &mut G, v: u64| -> Result<NativeScripts, ()> { let fresh = g.native_scripts(1, 3, 1); dec(NativeScripts::from_bytes(arr_spelling(&fresh.to_bytes(), v))) };
    // from auxiliary data: Shelley-MA array form or Alonzo map form
    let scripts_from_aux = |g: &mut G, v: u64| -> Result<NativeScripts, ()> {
        let fresh = g.native_scripts(1, 3, 1);
        let mut a = AuxiliaryData::new(); a.set_native_scripts(&fresh);
        if v % 2 == 0 { a.set_metadata(&g.general_metadata(0, 2)); } else { a.set_prefer_alonzo_format(true); }
        dec(AuxiliaryData::from_bytes(a.to_bytes()))?.native_scripts().ok_or(())
    };
    let keyhashes = |g: &mut G, v: u64| -> Result<Ed25519KeyHashes, ()> { let f = g.key_hashes(1, 3); dec(Ed25519KeyHashes::from_bytes(set_spelling(&f.to_bytes(), v))) };
    let credentials = |g: &mut G, v: u64| -> Result<Credentials, ()> { let f = g.credentials(1, 3); dec(Credentials::from_bytes(set_spelling(&f.to_bytes(), v))) };
    let plutus_list = |g: &mut G, v: u64| -> Result<PlutusList, ()> {
        let f = g.plutus_list(1, 3, 1); let c = f.to_bytes();           // indefinite by default when non-empty
        let definite = { let mut l = PlutusList::new(); for i in 0..f.len() { l.add(&f.get(i)); } let mut d = vec![0x80 + f.len() as u8]; for i in 0..f.len() { d.extend_from_slice(&f.get(i).to_bytes()); } let _ = l; d };
        dec(PlutusList::from_bytes(match v % 3 { 0 => c, 1 => definite, _ => with_set_tag(&c) }))
    };
    let anchor_hash = |g: &mut G| AnchorDataHash::from_bytes(g.bytes(32)).unwrap();
    Some(match label {
        "prov_scripts_ws_into_all" => scripts_from_ws(g, v).map(|s| NativeScript::new_script_all(&ScriptAll::new(&s)).to_bytes()),
        "prov_scripts_ws_into_any" => scripts_from_ws(g, v).map(|s| NativeScript::new_script_any(&ScriptAny::new(&s)).to_bytes()),
        "prov_scripts_ws_into_n_of_k" => scripts_from_ws(g, v).map(|s| NativeScript::new_script_n_of_k(&ScriptNOfK::new(1, &s)).to_bytes()),
        "prov_scripts_plain_into_all" => scripts_plain(g, v).map(|s| NativeScript::new_script_all(&ScriptAll::new(&s)).to_bytes()),
        "prov_scripts_aux_into_any" => scripts_from_aux(g, v).map(|s| NativeScript::new_script_any(&ScriptAny::new(&s)).to_bytes()),
        "prov_scripts_ws_standalone" => scripts_from_ws(g, v).map(|s| s.to_bytes()),
        "prov_scripts_ws_into_aux" | "prov_scripts_plain_into_aux" | "prov_scripts_aux_into_aux" => {
            let s = match label { "prov_scripts_ws_into_aux" => scripts_from_ws(g, v), "prov_scripts_plain_into_aux" => scripts_plain(g, v), _ => scripts_from_aux(g, v) };
            s.map(|s| { let mut a = AuxiliaryData::new(); a.set_native_scripts(&s);
                        match (k / 8) % 3 { 0 => a.set_metadata(&g.general_metadata(0, 2)), 1 => a.set_prefer_alonzo_format(true), _ => a.set_plutus_scripts(&g.plutus_scripts(1, 2, &[1, 2, 3])) }
                        a.to_bytes() })
        }
        "prov_metadata_into_aux" => {
            let f = g.general_metadata(1, 3);
            // decoded stand-alone (definite / indefinite / wide head) or out of an auxiliary data of either era
            let m = match v % 5 { 0 | 1 | 2 => dec(GeneralTransactionMetadata::from_bytes(arr_spelling(&f.to_bytes(), v))),
                                  3 => { let mut a = AuxiliaryData::new(); a.set_metadata(&f); dec(AuxiliaryData::from_bytes(a.to_bytes())).and_then(|a| a.metadata().ok_or(())) }
                                  _ => { let mut a = AuxiliaryData::new(); a.set_metadata(&f); a.set_prefer_alonzo_format(true); dec(AuxiliaryData::from_bytes(a.to_bytes())).and_then(|a| a.metadata().ok_or(())) } };
            m.map(|m| { let mut a = AuxiliaryData::new(); a.set_metadata(&m);
                        match (k / 8) % 3 { 0 => {}, 1 => a.set_native_scripts(&g.native_scripts(0, 2, 1)), _ => a.set_prefer_alonzo_format(true) } a.to_bytes() })
        }
        "prov_plutus_scripts_ws_into_aux" | "prov_plutus_scripts_aux_into_ws" => {
            let f = g.plutus_scripts(1, 3, &[1, 2, 3]);
            if label == "prov_plutus_scripts_ws_into_aux" {
                let mut ws = TransactionWitnessSet::new(); ws.set_plutus_scripts(&f);
                dec(TransactionWitnessSet::from_bytes(ws.to_bytes())).and_then(|w| w.plutus_scripts().ok_or(()))
                    .map(|p| { let mut a = AuxiliaryData::new(); a.set_plutus_scripts(&p); if v % 2 == 0 { a.set_metadata(&g.general_metadata(0, 2)); } a.to_bytes() })
            } else {
                let mut a = AuxiliaryData::new(); a.set_plutus_scripts(&f);
                dec(AuxiliaryData::from_bytes(a.to_bytes())).and_then(|a| a.plutus_scripts().ok_or(()))
                    .map(|p| { let mut ws = TransactionWitnessSet::new(); ws.set_plutus_scripts(&p); ws.to_bytes() })
            }
        }
        "prov_aux_era_switch" => {
            // an auxiliary data decoded in one era's form, then pushed to another form by a later setter
            let mut a = AuxiliaryData::new(); a.set_metadata(&g.general_metadata(0, 2));
            match v % 4 { 0 => {}, 1 => a.set_native_scripts(&g.native_scripts(0, 2, 1)), 2 => a.set_native_scripts(&NativeScripts::new()), _ => a.set_prefer_alonzo_format(true) }
            dec(AuxiliaryData::from_bytes(a.to_bytes())).map(|mut d| {
                match (k / 8) % 4 { 0 => d.set_prefer_alonzo_format(true), 1 => d.set_plutus_scripts(&g.plutus_scripts(1, 2, &[1, 2, 3])),
                                    2 => d.set_native_scripts(&NativeScripts::new()), _ => d.set_native_scripts(&g.native_scripts(1, 2, 1)) }
                d.to_bytes() })
        }
        "prov_scripts_plain_into_ws" => scripts_plain(g, v).map(|s| { let mut ws = TransactionWitnessSet::new(); ws.set_native_scripts(&s); ws.to_bytes() }),
        "prov_scripts_aux_into_ws" => scripts_from_aux(g, v).map(|s| { let mut ws = TransactionWitnessSet::new(); ws.set_native_scripts(&s); ws.to_bytes() }),
        "prov_ws_fields_into_ws" => {
            // every set-typed witness field decoded in spelling v, moved into a fresh witness set
            let (vk, bs) = (g.vkeywitnesses(1, 3), g.bootstrap_witnesses(1, 2));
            dec(Vkeywitnesses::from_bytes(set_spelling(&vk.to_bytes(), v))).and_then(|vk| {
                let bs = dec(BootstrapWitnesses::from_bytes(set_spelling(&bs.to_bytes(), v + 1)))?;
                let ns = scripts_from_ws(g, v + 2)?;
                let mut ws = TransactionWitnessSet::new(); ws.set_vkeys(&vk); ws.set_bootstraps(&bs); ws.set_native_scripts(&ns); Ok(ws.to_bytes()) })
        }
        "prov_redeemers_into_ws" | "prov_redeemers_forms" => {
            let f = g.redeemers(1, 3);
            // the array form is the concatenation of the redeemers, each an array [tag, index, data, ex_units]
            let mut arr = vec![0x80 + f.len() as u8]; for i in 0..f.len() { arr.extend_from_slice(&f.get(i).to_bytes()); }
            let bytes = match v % 5 { 0 => f.to_bytes(), 1 => arr, 2 => to_indefinite(&arr), 3 => to_indefinite(&f.to_bytes()), _ => widen_head(&f.to_bytes()) };
            dec(Redeemers::from_bytes(bytes)).map(|r| if label == "prov_redeemers_forms" {
                // rebuilt through the typed API: the form hint must not leak
                let mut n = Redeemers::new(); for i in 0..r.len() { n.add(&r.get(i)); } n.to_bytes()
            } else { let mut ws = TransactionWitnessSet::new(); ws.set_redeemers(&r); ws.to_bytes() })
        }
        "prov_plutus_list_into_ws" => plutus_list(g, v).map(|l| { let mut ws = TransactionWitnessSet::new(); ws.set_plutus_data(&l); ws.to_bytes() }),
        "prov_keyhashes_into_pool_owners" => keyhashes(g, v).map(|o| {
            let p = PoolParams::new(&g.kh(), &g.vrf(), &g.coin(), &g.coin(), &g.unit_interval(), &g.reward_any(), &o, &g.relays(0, 2), None);
            Certificate::new_pool_registration(&PoolRegistration::new(&p)).to_bytes() }),
        "prov_keyhashes_into_required_signers" => keyhashes(g, v).map(|o| { let mut b = g.body(0); b.set_required_signers(&o); b.to_bytes() }),
        "prov_keyhashes_standalone" => keyhashes(g, v).map(|o| { let mut n = Ed25519KeyHashes::new(); for i in 0..o.len() { n.add(&o.get(i)); } if (k / 8) % 2 == 0 { o.to_bytes() } else { n.to_bytes() } }),
        "prov_credentials_into_committee" => credentials(g, v).map(|rm| {
            let mut c = Committee::new(&g.unit_interval()); for i in 0..rm.len() { if g.chance(1, 2) { c.add_member(&rm.get(i), g.u32e()); } }
            GovernanceAction::new_new_committee_action(&UpdateCommitteeAction::new(&c, &rm)).to_bytes() }),
        "prov_credentials_standalone" => credentials(g, v).map(|c| c.to_bytes()),
        "prov_credential_into_certs" => {
            let f = g.cred_any();
            dec(Credential::from_bytes(if v % 2 == 0 { f.to_bytes() } else { to_indefinite(&f.to_bytes()) })).map(|c| match (k / 8) % 4 {
                0 => Certificate::new_stake_registration(&StakeRegistration::new(&c)).to_bytes(),
                1 => Certificate::new_vote_delegation(&VoteDelegation::new(&c, &g.drep_any())).to_bytes(),
                2 => Certificate::new_committee_hot_auth(&CommitteeHotAuth::new(&c, &g.cred_any())).to_bytes(),
                _ => Certificate::new_drep_update(&DRepUpdate::new_with_anchor(&c, &Anchor::new(&g.url(), &anchor_hash(g)))).to_bytes() })
        }
        "prov_action_into_proposal" => {
            let kind = (k / 8) % 7; let a = g.gov_action(kind, v % 2);
            dec(GovernanceAction::from_bytes(if v % 4 < 2 { a.to_bytes() } else { to_indefinite(&a.to_bytes()) }))
                .map(|a| VotingProposal::new(&a, &g.anchor(), &g.reward_any(), &g.coin()).to_bytes())
        }
        "prov_inputs_into_body" => { let f = g.tx_ins(1, 3);
            dec(TransactionInputs::from_bytes(set_spelling(&f.to_bytes(), v))).map(|i| {
                let mut b = TransactionBody::new_tx_body(&i, &g.outputs(0, 2), &g.coin()); b.set_collateral(&i); b.set_reference_inputs(&i); b.to_bytes() }) }
        "prov_certs_into_body" => { let f = g.certificates(1, 3);
            dec(Certificates::from_bytes(set_spelling(&f.to_bytes(), v))).map(|c| { let mut b = g.body(0); b.set_certs(&c); b.to_bytes() }) }
        "prov_proposals_into_body" => { let f = g.voting_proposals(1, 2);
            dec(VotingProposals::from_bytes(set_spelling(&f.to_bytes(), v))).map(|c| { let mut b = g.body(0); b.set_voting_proposals(&c); b.to_bytes() }) }
        "prov_output_forms" | "prov_outputs_into_body" | "prov_output_into_collateral_return" | "prov_outputs_list" => {
            // an output decoded from the legacy array, the legacy array with datum hash, or the map form with only address and value
            let kind = (k / 8) % 7; let o = g.output(kind); let canon = o.to_bytes();
            let plain_map = { let mut m = vec![0xa2, 0x00]; m.extend_from_slice(&cbor_bytes(&o.address().to_bytes())); m.push(0x01); m.extend_from_slice(&o.amount().to_bytes()); m };
            let bytes = match v % 5 { 0 => canon, 1 => to_indefinite(&canon), 2 => widen_head(&canon), 3 => plain_map, _ => to_indefinite(&plain_map) };
            dec(TransactionOutput::from_bytes(bytes)).map(|o| match label {
                "prov_output_forms" => o.to_bytes(),
                "prov_outputs_list" => { let mut l = TransactionOutputs::new(); l.add(&o); l.add(&g.output(0)); l.to_bytes() }
                "prov_output_into_collateral_return" => { let mut b = g.body(0); b.set_collateral(&g.tx_ins(1, 2)); b.set_collateral_return(&o); b.to_bytes() }
                _ => { let mut l = TransactionOutputs::new(); l.add(&o); TransactionBody::new_tx_body(&g.tx_ins(1, 2), &l, &g.coin()).to_bytes() } })
        }
        "prov_list_into_data" => plutus_list(g, v).map(|l| PlutusData::new_list(&l).to_bytes()),
        "prov_list_into_constr" => plutus_list(g, v).map(|l| PlutusData::new_constr_plutus_data(&ConstrPlutusData::new(&bn([0u64, 6, 7, 127, 128][((k / 8) % 5) as usize]), &l)).to_bytes()),
        "prov_list_ws_into_constr" => {
            let f = g.distinct_plutus_list(1, 3); let mut ws = TransactionWitnessSet::new(); ws.set_plutus_data(&f);
            dec(TransactionWitnessSet::from_bytes(ws.to_bytes())).and_then(|w| w.plutus_data().ok_or(()))
                .map(|l| if v % 2 == 0 { PlutusData::new_constr_plutus_data(&ConstrPlutusData::new(&bn(1), &l)).to_bytes() } else { PlutusData::new_list(&l).to_bytes() })
        }
        "prov_data_into_redeemer" => plutus_list(g, v).map(|l| { let d = PlutusData::new_list(&l); let mut r = Redeemers::new();
            r.add(&Redeemer::new(&g.redeemer_tag(k), &bn(g.u32e() as u64), &d, &g.ex_units())); r.to_bytes() }),
        // the SAME datum twice with different provenance: built through the typed API, and decoded from its own bytes (the
        // decoded one remembers its original bytes).  Both are written as the same bytes, so the datum set must hold it once.
        "prov_datum_pair_into_ws" | "prov_datum_pair_into_transaction" => {
            let typed = match (k / 8) % 4 { 0 => g.plutus_data(2), 1 => g.constr(k, 1), 2 => PlutusData::new_integer(&g.bigint_small()), _ => PlutusData::new_bytes(g.bytes(8)) };
            dec(PlutusData::from_bytes(typed.to_bytes())).and_then(|decoded| {
                let decoded2 = dec(PlutusData::from_bytes(typed.to_bytes()))?;
                let other = PlutusData::new_bytes(g.bytes(5));
                let mut l = PlutusList::new();
                match v {
                    0 => { l.add(&typed); l.add(&decoded); }
                    1 => { l.add(&decoded); l.add(&typed); }
                    2 => { l.add(&typed); l.add(&other); l.add(&decoded); }
                    3 => { l.add(&decoded); l.add(&decoded2); }
                    4 => { l.add(&typed); l.add(&typed); }
                    5 => { l.add(&other); l.add(&decoded); l.add(&typed); l.add(&decoded2); }
                    6 => { // the list itself decoded from bytes holding the pair's first half, then the typed twin added
                           let mut one = PlutusList::new(); one.add(&typed); let mut dl = dec(PlutusList::from_bytes(one.to_bytes()))?; dl.add(&typed); l = dl; }
                    _ => { l.add(&decoded); l.add(&other); l.add(&typed); }
                }
                let mut ws = TransactionWitnessSet::new(); ws.set_plutus_data(&l);
                if label == "prov_datum_pair_into_ws" { Ok(ws.to_bytes()) }
                else { ws.set_vkeys(&g.vkeywitnesses(1, 2)); Ok(Transaction::new(&g.body(0), &ws, None).to_bytes()) }
            })
        }
        // ELEMENT PAIRS: the same element twice in a set-typed collection, one copy built through the typed API, the other
        // decoded from another spelling of the same element (the differing format hint may sit INSIDE the element, e.g. the
        // pool owners of a registration certificate).  Both are == and are written as the same bytes: the set holds it once.
        "prov_pair_certs" | "prov_pair_certs_in_body" => {
            let kinds = [3usize, 3, 3, 0, 2, 9, 14, 16];        // pool registration (nested owners set) most of the time
            let x = g.certificate(kinds[((k / 6) % 8) as usize], k % 2 == 1, k / 2);
            dec(Certificate::from_bytes(respell(&x.to_bytes(), v))).map(|y| {
                let mut c = Certificates::new();
                if (k / 48) % 2 == 0 { c.add(&x); c.add(&y); } else { c.add(&y); c.add(&g.certificate(1, false, 0)); c.add(&x); }
                if label == "prov_pair_certs" { c.to_bytes() } else { let mut b = g.body(0); b.set_certs(&c); b.to_bytes() } })
        }
        "prov_pair_proposals" | "prov_pair_proposals_in_body" => {
            let kind = [4u64, 4, 0, 2, 5, 6][((k / 6) % 6) as usize];   // update committee (nested credentials set) most of the time
            let a = g.gov_action(kind, k % 2);
            let x = VotingProposal::new(&a, &g.anchor(), &g.reward_any(), &g.coin());
            dec(VotingProposal::from_bytes(respell(&x.to_bytes(), v))).map(|y| {
                let mut c = VotingProposals::new(); c.add(&x); c.add(&y);
                if label == "prov_pair_proposals" { c.to_bytes() } else { let mut b = g.body(0); b.set_voting_proposals(&c); b.to_bytes() } })
        }
        "prov_pair_keyhashes" => { let x = g.kh(); dec(Ed25519KeyHash::from_bytes(x.to_bytes())).map(|y| {
            let mut c = Ed25519KeyHashes::new(); c.add(&x); c.add(&g.kh()); c.add(&y); c.to_bytes() }) }
        "prov_pair_credentials" => { let x = g.cred_any(); dec(Credential::from_bytes(respell(&x.to_bytes(), v))).map(|y| {
            let mut c = Credentials::new(); c.add(&x); c.add(&y); c.to_bytes() }) }
        "prov_pair_inputs" => { let x = g.tx_in(); dec(TransactionInput::from_bytes(respell(&x.to_bytes(), v))).map(|y| {
            let mut c = TransactionInputs::new(); c.add(&y); c.add(&g.tx_in()); c.add(&x); c.to_bytes() }) }
        "prov_pair_vkeys" => { let x = g.vkeywitness(); dec(Vkeywitness::from_bytes(respell(&x.to_bytes(), v))).map(|y| {
            let mut c = Vkeywitnesses::new(); c.add(&x); c.add(&y); c.to_bytes() }) }
        "prov_pair_bootstraps" => { let x = g.bootstrap_witness(); dec(BootstrapWitness::from_bytes(respell(&x.to_bytes(), v))).map(|y| {
            let mut c = BootstrapWitnesses::new(); c.add(&x); c.add(&y); c.to_bytes() }) }
        "prov_pair_native_scripts_in_ws" => {
            // a compound script whose nested list is decoded tagged / indefinite / wide
            let inner = g.native_scripts(1, 2, 0);
            let x = NativeScript::new_script_all(&ScriptAll::new(&inner));
            let xb = x.to_bytes();                                   // 82 01 <array>
            let nested = &xb[2..];
            let mut yb = vec![0x82, 0x01]; yb.extend_from_slice(&match v % 4 { 0 => nested.to_vec(), 1 => with_set_tag(nested), 2 => to_indefinite(nested), _ => widen_head(nested) });
            dec(NativeScript::from_bytes(yb)).map(|y| { let mut c = NativeScripts::new(); c.add(&x); c.add(&y);
                let mut ws = TransactionWitnessSet::new(); ws.set_native_scripts(&c); ws.to_bytes() })
        }
        "prov_pair_plutus_scripts_in_ws" => {
            let x = g.plutus_script(1 + (k / 6) % 3);
            dec(PlutusScript::from_bytes_with_version(x.to_bytes(), &x.language_version())).map(|y| {
                let mut c = PlutusScripts::new(); c.add(&x); c.add(&y);
                let mut ws = TransactionWitnessSet::new(); ws.set_plutus_scripts(&c); ws.to_bytes() })
        }
        // PINNED builder triggers (deterministic; also in corpus/C03/w2-pinned.case)
        "pin_net_zero_mint" | "pin_collateral_zero_only_policy" | "pin_mixed_bundle_output" => {
            let run = |g: &mut G| -> Result<Vec<u8>, JsError> {
                let cfg = TransactionBuilderConfigBuilder::new().fee_algo(&LinearFee::new(&bn(44), &bn(155381)))
                    .pool_deposit(&bn(500 * ADA)).key_deposit(&bn(2 * ADA)).max_value_size(5000).max_tx_size(16384)
                    .coins_per_utxo_byte(&bn(4310)).build()?;
                let mut tb = TransactionBuilder::new(&cfg);
                let (pa, pb) = (g.sh(), g.sh());
                let (n1, n2) = (AssetName::new(b"token".to_vec())?, AssetName::new(b"spent".to_vec())?);
                let change = g.key_address();
                match label {
                    "pin_net_zero_mint" => {
                        // add_asset(+q) then add_asset(-q) on one line (k odd: next to a live line): build must refuse, never emit `=> 0`
                        let script = g.policy_script();
                        let wit = MintWitness::new_native_script(&NativeScriptSource::new(&script));
                        let q = 1 + g.below(1000);
                        let mut mb = MintBuilder::new();
                        mb.add_asset(&wit, &n2, &Int::new(&bn(q)))?; mb.add_asset(&wit, &n2, &Int::new_negative(&bn(q)))?;
                        if k % 2 == 1 { mb.add_asset(&wit, &n1, &Int::new(&bn(7)))?; }
                        tb.set_mint_builder(&mb);
                        tb.add_key_input(&g.kh(), &g.tx_in(), &Value::new(&bn(10 * ADA)));
                        // the live line (k odd) goes to the output; NO change output: the whole surplus is the fee (since
                        // /repo bb8d7fa a change output carrying the zero quantity would be refused by add_output)
                        let out_v = if k % 2 == 1 { let mut a = Assets::new(); a.insert(&n1, &bn(7)); let mut ma = MultiAsset::new(); ma.insert(&script.hash(), &a);
                                                    Value::new_with_assets(&bn(2 * ADA), &ma) } else { Value::new(&bn(2 * ADA)) };
                        tb.add_output(&TransactionOutput::new(&g.key_address(), &out_v))?;
                        tb.set_fee(&bn(8 * ADA));
                        tb.add_change_if_needed(&change)?;
                        // judged on the body build() releases: build_tx's structural balance check refuses a total input that
                        // carries the zero-quantity minted entry no output can carry any more
                        Ok(Transaction::new(&tb.build()?, &TransactionWitnessSet::new(), None).to_bytes())
                    }
                    "pin_collateral_zero_only_policy" => {
                        // the ONLY asset-carrying collateral input: policy A with a real asset, policy B with only a zero quantity
                        // (k odd: also an asset-less policy); the return is computed by the builder
                        let mut a = Assets::new(); a.insert(&n1, &bn(5));
                        let mut b = Assets::new(); b.insert(&n2, &bn(0));
                        let mut ma = MultiAsset::new(); ma.insert(&pa, &a); ma.insert(&pb, &b);
                        if k % 2 == 1 { ma.insert(&g.sh(), &Assets::new()); }
                        let mut ib = TxInputsBuilder::new();
                        ib.add_key_input(&g.kh(), &g.tx_in(), &Value::new_with_assets(&bn(8 * ADA), &ma));
                        tb.set_collateral(&ib);
                        tb.set_total_collateral_and_return(&bn(3 * ADA), &g.key_address())?;
                        tb.add_key_input(&g.kh(), &g.tx_in(), &Value::new(&bn(10 * ADA)));
                        tb.add_output(&TransactionOutput::new(&g.key_address(), &Value::new(&bn(2 * ADA))))?;
                        tb.add_change_if_needed(&change)?;
                        Ok(tb.build_tx()?.to_bytes())
                    }
                    _ => {
                        // an output REQUESTED with a zero quantity next to a positive one under one policy (k odd: a zero-only policy)
                        let mut a = Assets::new(); if k % 2 == 0 { a.insert(&n1, &bn(5)); } a.insert(&n2, &bn(0));
                        let mut ma = MultiAsset::new(); ma.insert(&pa, &a);
                        let v = Value::new_with_assets(&bn(3 * ADA), &ma);
                        tb.add_regular_input(&g.key_address(), &g.tx_in(), &Value::new_with_assets(&bn(10 * ADA), &ma))?;
                        tb.add_output(&TransactionOutput::new(&g.key_address(), &v))?;
                        tb.add_change_if_needed(&change)?;
                        Ok(Transaction::new(&tb.build()?, &TransactionWitnessSet::new(), None).to_bytes())
                    }
                }
            };
            run(g).map_err(|_| ())
        }
        // JSON AS A PROVENANCE: a valid value is written with to_json, the text of one size-bounded field is replaced by a longer
        // (or boundary) one, and the result is read back with the type's from_json (and the enclosing types' from_json).  The
        // reader must refuse, or what it accepted must be emitted as conforming bytes.
        l if l.starts_with("json_") => {
            let nv = k % 8;                                  // length variant: bound-1, bound, bound+1, bound+2, 2*bound, bound+1 (multi-byte) ...
            let len_for = |bound: usize| -> usize { match nv { 0 => bound - 1, 1 => bound, 2 => bound + 1, 3 => bound + 2, 4 => 2 * bound, 5 => bound + 1, 6 => bound, _ => 3 * bound } };
            // asset names: the marker name a5a5a5a5a5a5a5 is replaced by a name of the variant's length
            let name_marker = vec![0xa5u8; 7];
            let marker_hex = hex::encode(&name_marker);
            let new_name_hex = hex::encode(g.bytes(len_for(32)));
            let mname = AssetName::new(name_marker.clone()).unwrap();
            let swap_name = |json: String| json.replace(&marker_hex, &new_name_hex);
            // texts: the marker zqxjkvzqxjkv is replaced by a text of the variant's BYTE length (ASCII, or 2-byte code points for nv 5, 6)
            let tmarker = "zqxjkvzqxjkv";
            let new_text = |g: &mut G, bound: usize| -> String { text_of_bytes(g, len_for(bound), if nv == 5 || nv == 6 { 2 } else { 1 }) };
            let pid = g.sh();
            let mut assets = Assets::new(); assets.insert(&mname, &bn(g.pos())); if g.chance(1, 2) { assets.insert(&g.asset_name(), &bn(g.pos())); }
            let mut ma = MultiAsset::new(); ma.insert(&pid, &assets);
            let value = Value::new_with_assets(&bn(2 * ADA), &ma);
            let js = |r: Result<String, JsError>| -> Result<String, ()> { r.map_err(|_| ()) };
            match l {
                "json_asset_name" => dec(AssetName::from_json(&format!("\"{}\"", new_name_hex))).map(|n| { let mut a = Assets::new(); a.insert(&n, &bn(1)); a.to_bytes() }),
                "json_assets" => js(assets.to_json()).and_then(|j| dec(Assets::from_json(&swap_name(j)))).map(|x| x.to_bytes()),
                "json_multiasset" => js(ma.to_json()).and_then(|j| dec(MultiAsset::from_json(&swap_name(j)))).map(|x| x.to_bytes()),
                "json_value" => js(value.to_json()).and_then(|j| dec(Value::from_json(&swap_name(j)))).map(|x| x.to_bytes()),
                "json_mint" => { let mas = MintAssets::new_from_entry(&mname, &Int::new_i32(5)).unwrap(); let m = Mint::new_from_entry(&pid, &mas);
                    js(m.to_json()).and_then(|j| dec(Mint::from_json(&swap_name(j)))).map(|x| x.to_bytes()) }
                "json_output" => { let o = TransactionOutput::new(&g.key_address(), &value);
                    js(o.to_json()).and_then(|j| dec(TransactionOutput::from_json(&swap_name(j)))).map(|x| x.to_bytes()) }
                "json_body" | "json_transaction" => {
                    let mut outs = TransactionOutputs::new(); outs.add(&TransactionOutput::new(&g.key_address(), &value));
                    let mut b = TransactionBody::new_tx_body(&g.tx_ins(1, 2), &outs, &g.coin());
                    if g.chance(1, 2) { let mas = MintAssets::new_from_entry(&mname, &Int::new_i32(3)).unwrap(); b.set_mint(&Mint::new_from_entry(&pid, &mas)); }
                    if l == "json_body" { js(b.to_json()).and_then(|j| dec(TransactionBody::from_json(&swap_name(j)))).map(|x| x.to_bytes()) }
                    else { let t = Transaction::new(&b, &TransactionWitnessSet::new(), None);
                           js(t.to_json()).and_then(|j| dec(Transaction::from_json(&swap_name(j)))).map(|x| x.to_bytes()) }
                }
                "json_url" => { let t = new_text(g, 128); dec(URL::from_json(&format!("\"{}\"", t))).map(|u| Anchor::new(&u, &anchor_hash(g)).to_bytes()) }
                "json_anchor" => { let a = Anchor::new(&URL::new(tmarker.to_string()).unwrap(), &anchor_hash(g)); let t = new_text(g, 128);
                    js(a.to_json()).and_then(|j| dec(Anchor::from_json(&j.replace(tmarker, &t)))).map(|x| x.to_bytes()) }
                "json_pool_metadata" => { let a = PoolMetadata::new(&URL::new(tmarker.to_string()).unwrap(), &PoolMetadataHash::from_bytes(g.bytes(32)).unwrap()); let t = new_text(g, 128);
                    js(a.to_json()).and_then(|j| dec(PoolMetadata::from_json(&j.replace(tmarker, &t)))).map(|x| x.to_bytes()) }
                "json_cert_pool_registration" => {
                    // both bounded texts of a pool registration: the metadata url and a relay's dns name
                    let md = PoolMetadata::new(&URL::new(tmarker.to_string()).unwrap(), &PoolMetadataHash::from_bytes(g.bytes(32)).unwrap());
                    let mut relays = Relays::new(); relays.add(&Relay::new_single_host_name(&SingleHostName::new(None, &DNSRecordAorAAAA::new("qqqdnsmarkerqqq".to_string()).unwrap())));
                    let (op, vrf, ui, ra, owners) = (g.kh(), g.vrf(), g.unit_interval(), g.reward_any(), g.key_hashes(0, 2));
                    let p = PoolParams::new(&op, &vrf, &g.coin(), &g.coin(), &ui, &ra, &owners, &relays, Some(md));
                    let c = Certificate::new_pool_registration(&PoolRegistration::new(&p)); let t = new_text(g, 128);
                    js(c.to_json()).and_then(|j| dec(Certificate::from_json(&if (k / 8) % 2 == 0 { j.replace(tmarker, &t) } else { j.replace("qqqdnsmarkerqqq", &t) }))).map(|x| x.to_bytes()) }
                "json_cert_drep_anchor" => { let a = Anchor::new(&URL::new(tmarker.to_string()).unwrap(), &anchor_hash(g));
                    let c = Certificate::new_drep_update(&DRepUpdate::new_with_anchor(&g.cred_any(), &a)); let t = new_text(g, 128);
                    js(c.to_json()).and_then(|j| dec(Certificate::from_json(&j.replace(tmarker, &t)))).map(|x| x.to_bytes()) }
                "json_proposal_anchor" => { let a = Anchor::new(&URL::new(tmarker.to_string()).unwrap(), &anchor_hash(g));
                    let p = VotingProposal::new(&g.gov_action(6, 0), &a, &g.reward_any(), &g.coin()); let t = new_text(g, 128);
                    js(p.to_json()).and_then(|j| dec(VotingProposal::from_json(&j.replace(tmarker, &t)))).map(|x| x.to_bytes()) }
                "json_dns_a" => { let t = new_text(g, 128); dec(DNSRecordAorAAAA::from_json(&format!("\"{}\"", t))).map(|d| Relay::new_single_host_name(&SingleHostName::new(None, &d)).to_bytes()) }
                "json_dns_srv" => { let t = new_text(g, 128); dec(DNSRecordSRV::from_json(&format!("\"{}\"", t))).map(|d| Relay::new_multi_host_name(&MultiHostName::new(&d)).to_bytes()) }
                "json_relay" => { let r = if (k / 8) % 2 == 0 { Relay::new_single_host_name(&SingleHostName::new(Some(1), &DNSRecordAorAAAA::new(tmarker.to_string()).unwrap())) }
                                          else { Relay::new_multi_host_name(&MultiHostName::new(&DNSRecordSRV::new(tmarker.to_string()).unwrap())) };
                    let t = new_text(g, 128); js(r.to_json()).and_then(|j| dec(Relay::from_json(&j.replace(tmarker, &t)))).map(|x| x.to_bytes()) }
                l if l.starts_with("json_conv_") => {
                    let pos = k % 6; let lv = (k / 6) % 6; let bytes_kind = (k / 36) % 2 == 1;
                    let n = [63usize, 64, 65, 128, 64, 66][lv as usize];
                    let schema = match l { "json_conv_no_conversions" => MetadataJsonSchema::NoConversions, "json_conv_basic_conversions" => MetadataJsonSchema::BasicConversions,
                                           "json_conv_detailed_schema" => MetadataJsonSchema::DetailedSchema,
                                           _ => [MetadataJsonSchema::NoConversions, MetadataJsonSchema::BasicConversions, MetadataJsonSchema::DetailedSchema][((k / 72) % 3) as usize] };
                    let detailed = if let MetadataJsonSchema::DetailedSchema = schema { true } else { false };
                    let txt = text_of_bytes(g, n, if lv >= 4 { 2 } else { 1 });
                    let hx = hex::encode(g.bytes(n));
                    let json = if detailed {
                        let leaf = if bytes_kind { format!("{{\"bytes\":\"{}\"}}", hx) } else { format!("{{\"string\":\"{}\"}}", txt) };
                        match pos {
                            0 => leaf,
                            1 => format!("{{\"list\":[{{\"int\":1}},{}]}}", leaf),
                            2 => format!("{{\"map\":[{{\"k\":{},\"v\":{{\"int\":1}}}}]}}", leaf),
                            3 => format!("{{\"map\":[{{\"k\":{{\"int\":1}},\"v\":{}}}]}}", leaf),
                            4 => format!("{{\"list\":[{{\"map\":[{{\"k\":{},\"v\":{{\"int\":2}}}}]}}]}}", leaf),
                            _ => format!("{{\"map\":[{{\"k\":{{\"string\":\"a\"}},\"v\":{{\"list\":[{}]}}}}]}}", leaf),
                        }
                    } else {
                        // NoConversions has no byte strings: "0x.." stays a TEXT there (made n or n-1 bytes long)
                        let no_conv = if let MetadataJsonSchema::NoConversions = schema { true } else { false };
                        let t = if !bytes_kind { txt } else if no_conv { format!("0x{}", hex::encode(g.bytes((n - 2) / 2))) } else { format!("0x{}", hx) };
                        match pos {
                            0 => format!("\"{}\"", t),
                            1 => format!("[1,\"{}\"]", t),
                            2 => format!("{{\"{}\":1}}", t),
                            3 => format!("{{\"k\":\"{}\"}}", t),
                            4 => format!("{{\"a\":[{{\"{}\":2}}]}}", t),
                            _ => format!("[{{\"a\":[\"{}\"]}}]", t),
                        }
                    };
                    dec(encode_json_str_to_metadatum(json, schema)).map(|md| {
                        let mut m = GeneralTransactionMetadata::new(); m.insert(&bn(7), &md);
                        if l == "json_conv_into_aux" { let mut a = AuxiliaryData::new(); a.set_metadata(&m); a.to_bytes() } else { m.to_bytes() }
                    })
                }
                "json_metadata_text" | "json_aux_text" => {
                    let mut m = GeneralTransactionMetadata::new(); m.insert(&bn(7), &TransactionMetadatum::new_text(tmarker.to_string()).unwrap());
                    let t = new_text(g, 64);
                    if l == "json_metadata_text" { js(m.to_json()).and_then(|j| dec(GeneralTransactionMetadata::from_json(&j.replace(tmarker, &t)))).map(|x| x.to_bytes()) }
                    else { let mut a = AuxiliaryData::new(); a.set_metadata(&m);
                           js(a.to_json()).and_then(|j| dec(AuxiliaryData::from_json(&j.replace(tmarker, &t)))).map(|x| x.to_bytes()) }
                }
                _ => return None,
            }
        }
        "prov_parts_into_transaction" => {
            // body, witness set and auxiliary data each decoded from their own bytes, then assembled
            let (bm, wm, ak) = (g.r.next() & ALL_BODY, g.r.next() & ALL_WITS, g.below(7));
            let b = g.body(bm); let w = g.witness_set(wm); let a = g.aux(ak);
            dec(TransactionBody::from_bytes(b.to_bytes())).and_then(|b| { let w = dec(TransactionWitnessSet::from_bytes(w.to_bytes()))?;
                let a = dec(AuxiliaryData::from_bytes(a.to_bytes()))?; Ok(Transaction::new(&b, &w, if v % 2 == 0 { Some(a) } else { None }).to_bytes()) })
        }
        _ => return None,
    })
}

// ------------------------------------------------------------------------------------------------
// stream 3: TransactionBuilder scenarios
#[derive(Default)]
struct Feat { v: Vec<&'static str>, given: Vec<Vec<u8>> }   // given: the Values handed to the builder (inputs, collateral inputs, requested outputs)
impl Feat {
    fn set(&mut self, s: &'static str) { if !self.v.contains(&s) { self.v.push(s); } }
    fn line(&self, ok: bool) -> String { let mut s = String::from(if ok { "ok" } else { "fail" }); for f in &self.v { s.push(','); s.push_str(f); } s }
}
#[derive(Default)]
struct Stats { n: u64, ok: u64, feat: BTreeMap<String, (u64, u64)>, errs: BTreeMap<String, u64> }
impl Stats {
    fn add(&mut self, line: &str, err: Option<&str>) {
        let mut it = line.split(',');
        let ok = it.next() == Some("ok");
        self.n += 1; if ok { self.ok += 1; }
        for f in it { let e = self.feat.entry(f.to_string()).or_insert((0, 0)); e.0 += 1; if ok { e.1 += 1; } }
        if let Some(e) = err { let key: String = e.chars().take(70).collect(); *self.errs.entry(key).or_insert(0) += 1; }
    }
    fn print(&self) {
        eprintln!("tx scenarios: {} built ok {} ({:.1}%)", self.n, self.ok, 100.0 * self.ok as f64 / self.n.max(1) as f64);
        for (f, (n, ok)) in &self.feat { eprintln!("  {:28} scenarios {:5}  built {:5}", f, n, ok); }
        for (e, n) in &self.errs { eprintln!("  err {:5}  {}", n, e); }
    }
}

const ADA: u64 = 1_000_000;
struct Policy { script: NativeScript, id: ScriptHash, names: Vec<AssetName> }
type Holdings = BTreeMap<(usize, usize), u64>;

fn ma_of(pols: &[Policy], m: &Holdings) -> MultiAsset {
    let mut ma = MultiAsset::new();
    for ((p, a), q) in m { if *q > 0 { ma.set_asset(&pols[*p].id, &pols[*p].names[*a], &bn(*q)); } }
    ma
}
/// the same value with degenerate entries added: a zero-quantity asset under one of its policies (or a fresh one) and/or
/// an empty policy bundle (what Assets::insert(name, 0) / MultiAsset::insert(policy, Assets::new()) admit)
fn degenerate_value(v: &Value, g: &mut G, pols: &[Policy]) -> Value {
    let mut ma = v.multiasset().unwrap_or(MultiAsset::new());
    // every shape is an INDEPENDENT draw (at least one is applied):
    //   mixed  a zero quantity next to a positive one under a policy the value already holds
    //   zpol   a policy holding only a zero quantity (one of the scenario's policies or a fresh one)
    //   epol   a policy with no asset at all
    let (mut mixed, mut zpol, mut epol) = (g.chance(1, 2), g.chance(1, 2), g.chance(1, 2));
    if !(mixed || zpol || epol) { match g.below(3) { 0 => mixed = true, 1 => zpol = true, _ => epol = true } }
    let held = ma.keys();
    if mixed && held.len() > 0 {
        let pid = held.get(g.below(held.len() as u64) as usize);
        let mut name = g.asset_name();
        let mut tries = 0;
        while !ma.get_asset(&pid, &name).is_zero() && tries < 8 { name = g.asset_name(); tries += 1; }
        if ma.get_asset(&pid, &name).is_zero() { ma.set_asset(&pid, &name, &bn(0)); }
    } else if mixed { zpol = true; }
    if zpol {
        let name = g.asset_name();
        let pid = if !pols.is_empty() && g.chance(1, 2) { pols[g.below(pols.len() as u64) as usize].id.clone() } else { g.sh() };
        // never overwrite a real holding
        if ma.get_asset(&pid, &name).is_zero() { ma.set_asset(&pid, &name, &bn(0)); }
    }
    if epol { let pid = g.sh(); if ma.get(&pid).is_none() { ma.insert(&pid, &Assets::new()); } }
    Value::new_with_assets(&v.coin(), &ma)
}
fn value_of(coin: u64, pols: &[Policy], m: &Holdings) -> Value {
    let ma = ma_of(pols, m);
    if ma.len() == 0 { Value::new(&bn(coin)) } else { Value::new_with_assets(&bn(coin), &ma) }
}

impl G {
    fn policy_script(&mut self) -> NativeScript {
        match self.below(4) {
            0 | 1 => NativeScript::new_script_pubkey(&ScriptPubkey::new(&self.kh())),
            2 => { let mut s = NativeScripts::new(); s.add(&NativeScript::new_script_pubkey(&ScriptPubkey::new(&self.kh())));
                   s.add(&NativeScript::new_timelock_expiry(&TimelockExpiry::new_timelockexpiry(&bn(self.below(1 << 40)))));
                   NativeScript::new_script_all(&ScriptAll::new(&s)) }
            _ => { let mut s = NativeScripts::new(); for _ in 0..self.range(1, 3) { s.add(&NativeScript::new_script_pubkey(&ScriptPubkey::new(&self.kh()))); }
                   NativeScript::new_script_n_of_k(&ScriptNOfK::new(1, &s)) }
        }
    }
    /// a random sub-bundle of the asset universe: 1..=3 policies x 1..=3 assets
    fn pick_assets(&mut self, pols: &[Policy], rich: bool) -> Holdings {
        let mut h = Holdings::new();
        if pols.is_empty() { return h; }
        for _ in 0..(if rich { self.range(2, 5) } else { self.range(1, 3) }) {
            let p = self.below(pols.len() as u64) as usize;
            for _ in 0..self.range(1, 3) {
                let a = self.below(pols[p].names.len() as u64) as usize;
                let q = match self.below(4) { 0 => 1, 1 => 1 + self.below(1000), _ => 1 + self.edge() % (1u64 << 40) };
                h.insert((p, a), q);
            }
        }
        h
    }
    /// a certificate for the builder: (certificate, deposit it needs, native script when the credential is a script)
    fn tx_cert(&mut self, pool_ok: bool) -> (Certificate, u64, Option<NativeScript>) {
        let script = self.chance(1, 5);
        let ns = self.policy_script();
        let c = if script { Credential::from_scripthash(&ns.hash()) } else { self.cred(false) };
        let amt = *self.r.pick(&[2 * ADA, 2 * ADA, 500 * ADA, 0, 1, 7 * ADA]);
        let kind = loop { let k = self.below(17); if k != 3 || pool_ok { break k; } };
        let anchor = self.chance(1, 2);
        let (cert, dep) = match kind {
            0 => (Certificate::new_stake_registration(&StakeRegistration::new(&c)), 2 * ADA),
            1 => (Certificate::new_stake_deregistration(&StakeDeregistration::new(&c)), 0),
            2 => (Certificate::new_stake_delegation(&StakeDelegation::new(&c, &self.kh())), 0),
            3 => {
                let owners = self.key_hashes(1, 2);
                let relays = self.relays(0, 2);
                let md = if self.chance(1, 2) { Some(self.pool_metadata()) } else { None };
                let pp = PoolParams::new(&self.kh(), &self.vrf(), &bn(self.below(1000) * ADA), &bn(340 * ADA), &self.unit_interval(),
                    &self.reward(false), &owners, &relays, md);
                (Certificate::new_pool_registration(&PoolRegistration::new(&pp)), 500 * ADA)
            }
            4 => (Certificate::new_pool_retirement(&PoolRetirement::new(&self.kh(), self.below(1000) as u32)), 0),
            5 => (Certificate::new_reg_cert(&StakeRegistration::new_with_explicit_deposit(&c, &bn(amt))).unwrap(), amt),
            6 => (Certificate::new_unreg_cert(&StakeDeregistration::new_with_explicit_refund(&c, &bn(amt))).unwrap(), 0),
            7 => (Certificate::new_vote_delegation(&VoteDelegation::new(&c, &self.drep_any())), 0),
            8 => (Certificate::new_stake_and_vote_delegation(&StakeAndVoteDelegation::new(&c, &self.kh(), &self.drep_any())), 0),
            9 => (Certificate::new_stake_registration_and_delegation(&StakeRegistrationAndDelegation::new(&c, &self.kh(), &bn(amt))), amt),
            10 => (Certificate::new_vote_registration_and_delegation(&VoteRegistrationAndDelegation::new(&c, &self.drep_any(), &bn(amt))), amt),
            11 => (Certificate::new_stake_vote_registration_and_delegation(&StakeVoteRegistrationAndDelegation::new(&c, &self.kh(), &self.drep_any(), &bn(amt))), amt),
            12 => { let hot = self.cred_any(); (Certificate::new_committee_hot_auth(&CommitteeHotAuth::new(&c, &hot)), 0) }
            13 => (Certificate::new_committee_cold_resign(&if anchor { CommitteeColdResign::new_with_anchor(&c, &self.anchor()) } else { CommitteeColdResign::new(&c) }), 0),
            14 => (Certificate::new_drep_registration(&if anchor { DRepRegistration::new_with_anchor(&c, &bn(amt), &self.anchor()) } else { DRepRegistration::new(&c, &bn(amt)) }), amt),
            15 => (Certificate::new_drep_deregistration(&DRepDeregistration::new(&c, &bn(amt))), 0),
            _ => (Certificate::new_drep_update(&if anchor { DRepUpdate::new_with_anchor(&c, &self.anchor()) } else { DRepUpdate::new(&c) }), 0),
        };
        (cert, dep, if script { Some(ns) } else { None })
    }
    fn json_metadatum(&mut self, depth: u32) -> String {
        match if depth == 0 { self.below(2) } else { self.below(4) } {
            0 => format!("{}", self.edge() >> self.below(40)),
            1 => format!("\"{}\"", self.text(64).replace('é', "e")),
            2 => { let n = self.below(4); let v: Vec<String> = (0..n).map(|_| self.json_metadatum(depth - 1)).collect(); format!("[{}]", v.join(",")) }
            _ => { let n = self.below(4); let v: Vec<String> = (0..n).map(|i| format!("\"k{}{}\":{}", i, self.text(10).replace('é', "e"), self.json_metadatum(depth - 1))).collect(); format!("{{{}}}", v.join(",")) }
        }
    }
}

fn tx_scenario(k: u64, f: &mut Feat) -> Result<Transaction, JsError> {
    let mut g = G::new(k ^ 0x7478_5f63_3033);
    let g = &mut g;
    #[cfg(csl_verif)]
    { let script: Vec<u64> = (0..600).map(|_| g.r.next()).collect(); cardano_serialization_lib::verif_hooks::verif_set_rng_script(Some(script)); }

    // ---- degenerate histories (a third of the scenarios): bit 0 mint history with a net-zero / partly cancelled line,
    // 1 inputs carrying zero-quantity assets / empty bundles, 2 an output requested with such a value, 3 sub-builders set but
    // empty, 4 collateral inputs with degenerate values, 5 the whole surplus taken as fee (change exactly zero)
    let degen: u64 = if g.chance(1, 3) { let m = g.r.next() & 127; if m == 0 { 1 } else { m } } else { 0 };
    if degen != 0 { f.set("degenerate"); }

    // ---- configuration ----
    let with_assets = g.chance(7, 10);
    let small_mvs = with_assets && g.chance(1, 2);
    let coinsel = g.chance(1, 4);
    let ref_scripts = g.chance(1, 6);
    let tight = !with_assets && !coinsel && g.chance(1, 6);
    let mut cb = TransactionBuilderConfigBuilder::new()
        .fee_algo(&LinearFee::new(&bn(44), &bn(155381)))
        .pool_deposit(&bn(500 * ADA)).key_deposit(&bn(2 * ADA))
        .max_value_size(if small_mvs { if k % 2 == 0 { 300 } else { 200 } } else { 5000 }).max_tx_size(16384)
        .coins_per_utxo_byte(&bn(4310));
    if g.chance(1, 4) { cb = cb.prefer_pure_change(true); f.set("prefer_pure_change"); }
    if ref_scripts || g.chance(1, 4) {
        cb = cb.ref_script_coins_per_byte(&UnitInterval::new(&bn(15), &bn(1)))
            .ex_unit_prices(&ExUnitPrices::new(&UnitInterval::new(&bn(577), &bn(10000)), &UnitInterval::new(&bn(721), &bn(10000000))));
    }
    if small_mvs { f.set("max_value_size_small"); }
    let mut tb = TransactionBuilder::new(&cb.build()?);
    let data_cost = DataCost::new_coins_per_byte(&bn(4310));

    // ---- the asset universe: policies are hashes of native scripts so that they can be minted / burnt ----
    let npol = if !with_assets { 0 } else if small_mvs { g.range(3, 6) } else { g.range(1, 4) };
    let mut pols: Vec<Policy> = vec![];
    for _ in 0..npol {
        let script = g.policy_script();
        let mut names: Vec<AssetName> = vec![];
        for _ in 0..(if small_mvs { g.range(2, 4) } else { g.range(1, 3) }) { let n = g.asset_name(); if !names.contains(&n) { names.push(n); } }
        pols.push(Policy { id: script.hash(), script, names });
    }

    // ---- what the inputs hold ----
    let mut avail = Holdings::new();                    // assets the outputs / burns may draw from
    let mut explicit: Vec<(Address, TransactionInput, u64, Holdings)> = vec![];
    let mut utxos: Vec<(Address, TransactionInput, u64, Holdings)> = vec![];
    if !coinsel {
        for _ in 0..g.range(1, 6) {
            let h = if with_assets && g.chance(2, 3) { g.pick_assets(&pols, small_mvs) } else { Holdings::new() };
            for (key, q) in &h { *avail.entry(*key).or_insert(0) += q; }
            let coin = g.range(2 * ADA, 50 * ADA);
            explicit.push((g.key_address(), g.tx_in(), coin, h));
        }
    } else {
        f.set("coin_selection");
        for _ in 0..g.range(5, 20) {
            let h = if with_assets && g.chance(1, 2) { g.pick_assets(&pols, small_mvs) } else { Holdings::new() };
            for (key, q) in &h { *avail.entry(*key).or_insert(0) += q; }
            let coin = g.range(2 * ADA, 60 * ADA);
            utxos.push((g.key_address(), g.tx_in(), coin, h));
        }
    }
    if !avail.is_empty() { f.set("assets_in_inputs"); }

    // ---- mint / burn ----
    let mut need: u64 = 0;                              // lovelace the inputs must provide besides the fee
    if (with_assets && g.chance(2, 5)) || g.chance(1, 12) {
        let mut mb = MintBuilder::new();
        let mut any = false;
        let mut touched: Vec<(usize, usize)> = vec![];
        for _ in 0..g.range(1, 2) {
            let fresh = pols.is_empty() || g.chance(1, 4);
            if fresh {
                let script = g.policy_script();
                let names = vec![g.asset_name()];
                pols.push(Policy { id: script.hash(), script, names });
            }
            let p = if fresh { pols.len() - 1 } else { g.below(pols.len() as u64) as usize };
            let wit = MintWitness::new_native_script(&NativeScriptSource::new(&pols[p].script));
            for _ in 0..g.range(1, 2) {
                let a = g.below(pols[p].names.len() as u64) as usize;
                let held = *avail.get(&(p, a)).unwrap_or(&0);
                // one entry per asset: the builder adds quantities up and rejects a zero sum
                if touched.contains(&(p, a)) { continue; }
                touched.push((p, a));
                if !coinsel && held > 0 && g.chance(2, 3) {
                    let q = if g.chance(1, 2) { held } else { g.range(1, held) };
                    mb.add_asset(&wit, &pols[p].names[a], &Int::new_negative(&bn(q)))?;
                    avail.insert((p, a), held - q);
                    f.set("burn");
                } else {
                    let q = 1 + g.edge() % (1u64 << 40);
                    mb.add_asset(&wit, &pols[p].names[a], &Int::new(&bn(q)))?;
                    *avail.entry((p, a)).or_insert(0) += q;
                }
                any = true;
            }
        }
        if any { tb.set_mint_builder(&mb); f.set("mint"); }
    }

    // ---- degenerate mint histories on a fresh policy (several add_asset / set_asset calls on the same line) ----
    if degen & 1 != 0 {
        let mut mb = tb.get_mint_builder().unwrap_or(MintBuilder::new());
        let script = g.policy_script();
        let names = vec![g.asset_name(), { let mut n = g.asset_name(); while n.name().is_empty() { n = g.asset_name(); } n }];
        let names = if names[0] == names[1] { vec![names[0].clone()] } else { names };
        pols.push(Policy { id: script.hash(), script, names });
        let p = pols.len() - 1;
        let wit = MintWitness::new_native_script(&NativeScriptSource::new(&pols[p].script));
        let q = 1 + g.edge() % (1u64 << 40);
        let r = 1 + g.edge() % (1u64 << 40);
        let (pos, neg) = (|x: u64| Int::new(&bn(x)), |x: u64| Int::new_negative(&bn(x)));
        let n0 = pols[p].names[0].clone();
        let n1 = pols[p].names[pols[p].names.len() - 1].clone();
        let last = pols[p].names.len() - 1;
        match g.below(6) {
            0 => { mb.add_asset(&wit, &n0, &pos(q))?; mb.add_asset(&wit, &n0, &neg(q))?; }                                  // net zero
            1 => { mb.add_asset(&wit, &n0, &pos(q))?; mb.add_asset(&wit, &n0, &neg(q))?; mb.add_asset(&wit, &n0, &pos(r))?;
                   *avail.entry((p, 0)).or_insert(0) += r; }
            2 => { mb.add_asset(&wit, &n0, &pos(q))?; mb.add_asset(&wit, &n0, &pos(r))?; mb.add_asset(&wit, &n0, &neg(q))?;
                   *avail.entry((p, 0)).or_insert(0) += r; }
            3 => { mb.set_asset(&wit, &n0, &pos(q))?; mb.add_asset(&wit, &n0, &neg(q))?; }                                  // net zero after a set
            4 => { mb.add_asset(&wit, &n0, &pos(q))?; *avail.entry((p, 0)).or_insert(0) += q;                               // one live line, one cancelled
                   if last != 0 { mb.add_asset(&wit, &n1, &pos(r))?; mb.add_asset(&wit, &n1, &neg(r))?; } }
            _ => { mb.add_asset(&wit, &n0, &pos(q))?; mb.add_asset(&wit, &n0, &neg(q / 2 + 1))?;                            // mint, then burn part of it
                   if q > q / 2 + 1 { *avail.entry((p, 0)).or_insert(0) += q - (q / 2 + 1); } }
        }
        tb.set_mint_builder(&mb);
        f.set("degenerate_mint");
    }

    // ---- outputs ----
    let n_out = g.range(1, 4);
    let mut outs_have_assets = false;
    for _ in 0..n_out {
        let addr = g.pay_address();
        let mut h = Holdings::new();
        let keys: Vec<(usize, usize)> = avail.iter().filter(|(_, q)| **q > 0).map(|(k, _)| *k).collect();
        if !keys.is_empty() && g.chance(1, 2) {
            for _ in 0..g.range(1, 2) {
                let key = *g.r.pick(&keys);
                let left = avail[&key];
                if left == 0 { continue; }
                // in coin-selection scenarios ask for at most half of what the pool holds
                let cap = if coinsel { (left / 2).max(1) } else { left };
                let q = if !coinsel && g.chance(1, 3) { left } else { g.range(1, cap) };
                *h.entry(key).or_insert(0) += q;
                avail.insert(key, left - q);
            }
        }
        if !h.is_empty() { outs_have_assets = true; f.set("assets_in_outputs"); }
        let ma = ma_of(&pols, &h);
        let datum = g.below(8);
        let extra = if tight { 0 } else { g.below(3 * ADA) };
        let out = if g.chance(1, 3) {
            // the output builder
            let mut ob = TransactionOutputBuilder::new().with_address(&addr);
            match datum { 1 => { ob = ob.with_data_hash(&g.data_hash()); f.set("out_datum_hash"); }
                          2 | 4 => { ob = ob.with_plutus_data(&g.plutus_data(2)); f.set("out_inline_datum"); } _ => {} }
            if datum == 3 || datum == 4 { let kk = g.below(4); ob = ob.with_script_ref(&g.script_ref(kk)); f.set("out_script_ref"); }
            let ab = ob.next()?;
            if ma.len() > 0 { ab.with_asset_and_min_required_coin_by_utxo_cost(&ma, &data_cost)?.build()? }
            else {
                let probe = ab.with_coin(&bn(0)).build()?;
                let min = u64::from(min_ada_for_output(&probe, &data_cost)?);
                ab.with_coin(&bn(min + extra)).build()?
            }
        } else {
            let mk = |coin: u64, g: &mut G, f: &mut Feat| -> TransactionOutput {
                let v = if ma.len() > 0 { Value::new_with_assets(&bn(coin), &ma) } else { Value::new(&bn(coin)) };
                let mut o = TransactionOutput::new(&addr, &v);
                match datum { 1 => { o.set_data_hash(&g.data_hash()); f.set("out_datum_hash"); }
                              2 | 4 => { o.set_plutus_data(&g.plutus_data(2)); f.set("out_inline_datum"); } _ => {} }
                if datum == 3 || datum == 4 { let kk = g.below(4); o.set_script_ref(&g.script_ref(kk)); f.set("out_script_ref"); }
                o
            };
            // same random draws for the probe and the final output
            let save = g.r.clone();
            let probe = mk(0, g, f);
            let min = u64::from(min_ada_for_output(&probe, &data_cost)?);
            g.r = save;
            mk(min + extra, g, f)
        };
        let out = if degen & 4 != 0 && (g.chance(1, 2) || out.amount().multiasset().map(|m| m.len() > 0).unwrap_or(false)) {
            f.set("degenerate_requested_output");
            let mut o = TransactionOutput::new(&out.address(), &degenerate_value(&out.amount(), g, &pols));
            if let Some(d) = out.data_hash() { o.set_data_hash(&d); }
            // room for the larger value
            let v = o.amount(); let c = u64::from(v.coin()) + ADA;
            let mut v2 = v.clone(); v2.set_coin(&bn(c)); TransactionOutput::new(&out.address(), &v2)
        } else { out };
        need += u64::from(out.amount().coin());
        f.given.push(out.amount().to_bytes());
        tb.add_output(&out)?;
    }

    // ---- validity interval ----
    if g.chance(1, 2) { if g.chance(1, 2) { tb.set_ttl_bignum(&g.coin()); } else { tb.set_ttl(g.u32e()); } f.set("ttl"); }
    if g.chance(1, 3) { if g.chance(1, 2) { tb.set_validity_start_interval_bignum(g.coin()); } else { tb.set_validity_start_interval(g.u32e()); } f.set("validity_start"); }

    // ---- certificates ----
    if g.chance(1, 3) {
        let mut cbld = CertificatesBuilder::new();
        for _ in 0..g.range(1, 3) {
            let pool_ok = g.chance(1, 4);
            let (cert, dep, ns) = g.tx_cert(pool_ok);
            let r = match &ns {
                Some(s) => match cbld.add(&cert) { Ok(()) => Ok(()), Err(_) => { f.set("cert_native_script"); cbld.add_with_native_script(&cert, &NativeScriptSource::new(s)) } },
                None => cbld.add(&cert),
            };
            r?;
            need += dep;
        }
        tb.set_certs_builder(&cbld);
        f.set("certs");
    }

    // ---- withdrawals ----
    if g.chance(1, 4) {
        let mut wb = WithdrawalsBuilder::new();
        for _ in 0..g.range(1, 3) {
            let coin = if g.chance(1, 5) { 0 } else { g.below(50 * ADA) };
            if g.chance(1, 5) {
                let s = g.policy_script();
                let n = g.net();
                wb.add_with_native_script(&RewardAddress::new(n, &Credential::from_scripthash(&s.hash())), &bn(coin), &NativeScriptSource::new(&s))?;
            } else { wb.add(&g.reward(false), &bn(coin))?; }
        }
        tb.set_withdrawals_builder(&wb);
        f.set("withdrawals");
    }

    // ---- collateral ----
    if g.chance(1, 4) {
        let mut ib = TxInputsBuilder::new();
        let mut total = 0u64;
        let mut ch = Holdings::new();
        for _ in 0..g.range(1, 2) {
            let coin = g.range(5 * ADA, 20 * ADA);
            total += coin;
            let h = if with_assets && g.chance(1, 4) { g.pick_assets(&pols, small_mvs) } else { Holdings::new() };
            for (key, q) in &h { *ch.entry(*key).or_insert(0) += q; }
            let v = value_of(coin, &pols, &h);
            let v = if degen & 16 != 0 { f.set("degenerate_collateral"); degenerate_value(&v, g, &pols) } else { v };
            f.given.push(v.to_bytes());
            if g.chance(1, 2) { ib.add_key_input(&g.kh(), &g.tx_in(), &v); } else { ib.add_regular_input(&g.key_address(), &g.tx_in(), &v)?; }
        }
        tb.set_collateral(&ib);
        f.set("collateral");
        let ret_addr = g.key_address();
        match g.below(4) {
            0 | 1 => { tb.set_total_collateral_and_return(&bn(g.range(1 * ADA, total - 3 * ADA)), &ret_addr)?; f.set("collateral_return"); }
            2 => { let back = g.range(3 * ADA, total - ADA); tb.set_collateral_return_and_total(&TransactionOutput::new(&ret_addr, &value_of(back, &pols, &ch)))?; f.set("collateral_return"); }
            _ => if !ch.is_empty() { tb.set_total_collateral_and_return(&bn(2 * ADA), &ret_addr)?; f.set("collateral_return"); },
        }
        if !ch.is_empty() { f.set("collateral_with_assets"); }
    }

    // ---- required signers, reference inputs ----
    if g.chance(1, 4) { for _ in 0..g.range(1, 3) { tb.add_required_signer(&g.kh()); } f.set("required_signers"); }
    if ref_scripts || g.chance(1, 4) {
        for _ in 0..g.range(1, 3) {
            if ref_scripts && g.chance(2, 3) { tb.add_script_reference_input(&g.tx_in(), g.range(1, 5000) as usize); f.set("script_reference_inputs"); }
            else { tb.add_reference_input(&g.tx_in()); }
        }
        f.set("reference_inputs");
    }

    // ---- metadata ----
    if g.chance(1, 3) {
        match g.below(3) {
            0 => tb.set_metadata(&g.general_metadata(1, 3)),
            1 => for _ in 0..g.range(1, 2) { let j = g.json_metadatum(2); tb.add_json_metadatum(&g.coin(), j)?; },
            _ => for _ in 0..g.range(1, 2) { let l = g.coin(); tb.add_metadatum(&l, &g.metadatum(2)); },
        }
        f.set("metadata");
    }

    // ---- governance ----
    if g.chance(1, 6) {
        let mut pb = VotingProposalBuilder::new();
        for _ in 0..g.range(1, 2) {
            let kind = g.below(7);
            // no policy hash / constitution script: those need a Plutus witness
            let with_id = g.below(2);
            let a = g.gov_action(kind, with_id);
            let dep = g.range(0, 100 * ADA);
            pb.add(&VotingProposal::new(&a, &g.anchor(), &g.reward_any(), &bn(dep)))?;
            need += dep;
        }
        tb.set_voting_proposal_builder(&pb);
        f.set("voting_proposals");
    }
    if g.chance(1, 6) {
        let mut vb = VotingBuilder::new();
        for _ in 0..g.range(1, 2) {
            if g.chance(1, 4) {
                let s = g.policy_script();
                let c = Credential::from_scripthash(&s.hash());
                let voter = if g.chance(1, 2) { Voter::new_drep_credential(&c) } else { Voter::new_constitutional_committee_hot_credential(&c) };
                for _ in 0..g.range(1, 2) { let v = g.below(6); vb.add_with_native_script(&voter, &g.action_id(), &g.voting_procedure(v), &NativeScriptSource::new(&s))?; }
            } else {
                let vk = *g.r.pick(&[0u64, 2, 4]);
                let voter = g.voter(vk);
                for _ in 0..g.range(1, 2) { let v = g.below(6); vb.add(&voter, &g.action_id(), &g.voting_procedure(v))?; }
            }
        }
        tb.set_voting_builder(&vb);
        f.set("votes");
    }
    if degen & 8 != 0 {
        // sub-builders attached but left empty (an application that always attaches them)
        if !f.v.contains(&"certs") { tb.set_certs_builder(&CertificatesBuilder::new()); }
        if !f.v.contains(&"withdrawals") { tb.set_withdrawals_builder(&WithdrawalsBuilder::new()); }
        if !f.v.contains(&"voting_proposals") { tb.set_voting_proposal_builder(&VotingProposalBuilder::new()); }
        if !f.v.contains(&"votes") { tb.set_voting_builder(&VotingBuilder::new()); }
        if tb.get_mint_builder().is_none() { tb.set_mint_builder(&MintBuilder::new()); }
        if !f.v.contains(&"collateral") { tb.set_collateral(&TxInputsBuilder::new()); }
        if !f.v.contains(&"metadata") && g.chance(1, 2) { tb.set_metadata(&GeneralTransactionMetadata::new()); }
        f.set("empty_sub_builders");
    }
    if degen & 64 != 0 {
        // the same extra witness datum handed over twice: typed, and decoded from its own bytes
        let typed = g.plutus_data(1);
        if let Ok(decoded) = PlutusData::from_bytes(typed.to_bytes()) {
            if g.chance(1, 2) { tb.add_extra_witness_datum(&typed); tb.add_extra_witness_datum(&decoded); }
            else { tb.add_extra_witness_datum(&decoded); tb.add_extra_witness_datum(&typed); }
            if g.chance(1, 2) { tb.add_extra_witness_datum(&g.plutus_data(1)); }
            let cm = g.costmdls(); tb.calc_script_data_hash(&cm)?;
            f.set("datum_pair_both_provenances");
        }
    }
    if g.chance(1, 8) { let d = g.range(1, 5 * ADA); tb.set_donation(&bn(d)); need += d; f.set("donation"); }
    if g.chance(1, 8) { tb.set_current_treasury_value(&bn(g.pos()))?; f.set("current_treasury_value"); }

    // ---- inputs ----
    let fixed_fee = g.chance(1, 10);
    if !coinsel {
        // make the first input rich enough: outputs + deposits + room for the change outputs and the fee
        let have: u64 = explicit.iter().skip(1).map(|e| e.2).sum();
        let room = if tight { g.range(170_000, 1_500_000) } else { 2 * ADA + pols.len() as u64 * 3 * ADA / 2 + g.below(20 * ADA) };
        explicit[0].2 = (need + room).saturating_sub(have).max(ADA);
        if tight { f.set("tight_change"); }
        let via_builder = g.chance(1, 2);
        let mut ib = TxInputsBuilder::new();
        for (addr, input, coin, h) in &explicit {
            let v = value_of(*coin, &pols, h);
            let v = if degen & 2 != 0 && g.chance(1, 2) { f.set("degenerate_inputs"); degenerate_value(&v, g, &pols) } else { v };
            f.given.push(v.to_bytes());
            let key = addr.payment_cred().and_then(|c| c.to_keyhash()).expect("key address");
            if via_builder {
                match g.below(3) {
                    0 => ib.add_key_input(&key, input, &v),
                    1 => ib.add_regular_input(addr, input, &v)?,
                    _ => ib.add_regular_utxo(&TransactionUnspentOutput::new(input, &TransactionOutput::new(addr, &v)))?,
                }
            } else if g.chance(1, 2) { tb.add_key_input(&key, input, &v); } else { tb.add_regular_input(addr, input, &v)?; }
        }
        if via_builder { tb.set_inputs(&ib); }
    } else {
        let have: u64 = utxos.iter().map(|e| e.2).sum();
        if have < 2 * need + 20 * ADA { utxos.push((g.key_address(), g.tx_in(), 2 * need + 30 * ADA - have, Holdings::new())); }
        let mut list = TransactionUnspentOutputs::new();
        for (addr, input, coin, h) in &utxos {
            let v = value_of(*coin, &pols, h);
            let v = if degen & 2 != 0 && g.chance(1, 2) { f.set("degenerate_inputs"); degenerate_value(&v, g, &pols) } else { v };
            f.given.push(v.to_bytes());
            list.add(&TransactionUnspentOutput::new(input, &TransactionOutput::new(addr, &v)));
        }
        let random_ok = cfg!(csl_verif);
        let strat = if outs_have_assets || tb.get_mint_builder().is_some() {
            if random_ok && g.chance(1, 2) { f.set("sel_random_improve_ma"); CoinSelectionStrategyCIP2::RandomImproveMultiAsset } else { f.set("sel_largest_first_ma"); CoinSelectionStrategyCIP2::LargestFirstMultiAsset }
        } else {
            match g.below(4) {
                0 => { f.set("sel_largest_first"); CoinSelectionStrategyCIP2::LargestFirst }
                1 if random_ok => { f.set("sel_random_improve"); CoinSelectionStrategyCIP2::RandomImprove }
                2 if random_ok => { f.set("sel_random_improve_ma"); CoinSelectionStrategyCIP2::RandomImproveMultiAsset }
                _ => { f.set("sel_largest_first_ma"); CoinSelectionStrategyCIP2::LargestFirstMultiAsset }
            }
        };
        tb.add_inputs_from(&list, strat)?;
    }

    // ---- fee, change, build ----
    if degen & 32 != 0 && !fixed_fee {
        let surplus = tb.get_total_input()?.checked_sub(&tb.get_total_output()?)?;
        let has_assets = surplus.multiasset().map(|m| m.len() > 0).unwrap_or(false);
        if !has_assets && u64::from(surplus.coin()) >= u64::from(tb.min_fee()?) && u64::from(surplus.coin()) < 60 * ADA {
            tb.set_fee(&surplus.coin()); f.set("zero_change");
        }
    }
    if fixed_fee { let mf = tb.min_fee()?; tb.set_fee(&mf.checked_add(&bn(g.range(100_000, 400_000)))?); f.set("fixed_fee"); }
    let change_addr = g.key_address();
    let explicit_outs = n_out as usize;
    if g.chance(1, 8) {
        let d = if g.chance(1, 2) { OutputDatum::new_data_hash(&g.data_hash()) } else { OutputDatum::new_data(&g.plutus_data(1)) };
        tb.add_change_if_needed_with_datum(&change_addr, &d)?; f.set("change_with_datum");
    } else { tb.add_change_if_needed(&change_addr)?; }
    // build_tx re-validates the balance with Value's structural equality, which happens to refuse a body whose outputs carry an
    // entry the inputs do not; TransactionBuilder::build() (the body alone, also public) does not: when a degenerate requested
    // output got past add_output, judge what build() releases
    let tx = if f.v.contains(&"degenerate_requested_output") {
        f.set("body_via_build");
        Transaction::new(&tb.build()?, &TransactionWitnessSet::new(), None)
    } else { tb.build_tx()? };
    let outs = tx.body().outputs();
    let mut n_change = 0; let mut n_change_ma = 0;
    for i in explicit_outs..outs.len() { n_change += 1; if outs.get(i).amount().multiasset().is_some() { n_change_ma += 1; } }
    for i in 0..outs.len() {
        if let Some(ma) = outs.get(i).amount().multiasset() {
            if ma.len() == 0 { f.set("OBS_empty_multiasset_in_output"); }
            let ps = ma.keys();
            for j in 0..ps.len() {
                let a = ma.get(&ps.get(j)).unwrap();
                if a.len() == 0 { f.set("OBS_empty_policy_in_output"); }
                let ns = a.keys();
                for l in 0..ns.len() { if a.get(&ns.get(l)).unwrap().is_zero() { f.set("OBS_zero_quantity_in_output"); } }
            }
        }
    }
    // where a degenerate entry sits: a requested output (index < explicit_outs), a change output, or the collateral return
    for i in 0..outs.len() {
        if let Some(ma) = outs.get(i).amount().multiasset() {
            let ps = ma.keys(); let mut bad = ma.len() == 0;
            for j in 0..ps.len() { let a = ma.get(&ps.get(j)).unwrap(); if a.len() == 0 { bad = true; }
                let ns = a.keys(); for l in 0..ns.len() { if a.get(&ns.get(l)).unwrap().is_zero() { bad = true; } } }
            if bad { if i < explicit_outs { f.set("OBS_degenerate_in_requested_output"); } else { f.set("OBS_degenerate_in_change_output"); } }
        }
    }
    if let Some(cr) = tx.body().collateral_return() {
        if let Some(ma) = cr.amount().multiasset() {
            let ps = ma.keys(); let mut bad = ma.len() == 0;
            for j in 0..ps.len() { let a = ma.get(&ps.get(j)).unwrap(); if a.len() == 0 { bad = true; }
                let ns = a.keys(); for l in 0..ns.len() { if a.get(&ns.get(l)).unwrap().is_zero() { bad = true; } } }
            if bad { f.set("OBS_degenerate_in_collateral_return"); }
        }
    }
    if std::env::var("C03_OBS").is_ok() && f.v.iter().any(|x| x.starts_with("OBS_")) { eprintln!("OBS k={} {}", k, f.line(true)); }
    if n_change > 0 { f.set("change_output"); }
    if n_change > 1 { f.set("change_split_2plus"); }
    if n_change_ma > 0 { f.set("assets_in_change"); }
    if n_change_ma > 1 { f.set("assets_in_change_split"); }
    Ok(tx)
}

// ------------------------------------------------------------------------------------------------
/// CBOR array of already encoded items
fn cbor_array(items: &[Vec<u8>]) -> Vec<u8> {
    let n = items.len();
    let mut v: Vec<u8> = if n < 24 { vec![0x80 + n as u8] } else if n < 256 { vec![0x98, n as u8] } else { vec![0x99, (n >> 8) as u8, n as u8] };
    for i in items { v.extend_from_slice(i); }
    v
}
fn exec(toks: &[String]) -> String {
    match toks.first().map(|s| s.as_str()) {
        Some("neg") => "neg".to_string(),
        Some("rt") => {
            if toks.len() != 3 { return "harness-badcase".into(); }
            exec_rt(toks[1].as_str(), unhex_or_dash(&toks[2]))
        }
        Some("api") => {
            if toks.len() != 4 { return "harness-badcase".into(); }
            let k: u64 = match toks[3].parse() { Ok(k) => k, Err(_) => return "harness-badcase".into() };
            if toks[2].starts_with("prov_") || toks[2].starts_with("pin_") || toks[2].starts_with("json_") {
                return match prov(&toks[1], &toks[2], k) {
                    Some(Ok(b)) => format!("ok {}", hex_or_dash(&b)), Some(Err(())) => "rejected".to_string(), None => "skip unknown-label".to_string() };
            }
            if toks[2].starts_with("bound_") {
                return match bound(&toks[1], &toks[2], k) {
                    Some(Ok(b)) => format!("ok {}", hex_or_dash(&b)), Some(Err(())) => "rejected".to_string(), None => "skip unknown-label".to_string() };
            }
            match api(&toks[1], &toks[2], k) { Some(b) => format!("ok {}", hex_or_dash(&b)), None => "skip unknown-label".to_string() }
        }
        Some("tx") => {
            if toks.len() != 3 || toks[1] != "Transaction" { return "harness-badcase".into(); }
            let k: u64 = match toks[2].parse() { Ok(k) => k, Err(_) => return "harness-badcase".into() };
            let mut f = Feat::default();
            match tx_scenario(k, &mut f) { Ok(t) => format!("ok {} {}", hex_or_dash(&t.to_bytes()), hex_or_dash(&cbor_array(&f.given))), Err(_) => "builderr".to_string() }
        }
        _ => "harness-badcase".to_string(),
    }
}

fn run_line(line: &str) -> String {
    let toks: Vec<String> = line.split_whitespace().map(|s| s.to_string()).collect();
    guarded(move || exec(&toks))
}

fn gen(dir: &str) {
    let seed = seed_from_env();
    let thorough = is_thorough();
    let mut r = Rng::new(Rng::new(seed ^ 0xC03).next());
    let mut out = Out::new(dir);
    // 1. model cases
    if let Ok(txt) = std::fs::read_to_string(format!("{}/model_cases.txt", dir)) {
        for line in txt.lines() {
            let line = line.trim();
            if line.is_empty() { continue; }
            let res = run_line(line);
            out.emit(line, &res);
        }
    }
    // 2. api
    let (nfix, ndraw) = if thorough { (40u64, 10) } else { (4u64, 2) };
    for (ty, labels) in API {
        for label in labels.iter() {
            let mut ks: Vec<u64> = (0..nfix).collect();
            for _ in 0..ndraw { ks.push(r.next()); }
            for k in ks {
                let case = format!("api {} {} {}", ty, label, k);
                let res = run_line(&case);
                out.emit(&case, &res);
            }
        }
    }
    // 2b. bounds: the 8 fixed variants of every label (bound-1 / bound / bound+1 / `bound` characters / ...) always, more when thorough
    for (ty, label) in bound_labels() {
        let mut ks: Vec<u64> = (0..(if thorough { 48u64 } else { 8 })).collect();
        ks.push(r.next());
        for k in ks {
            let case = format!("api {} {} {}", ty, label, k);
            let res = run_line(&case);
            out.emit(&case, &res);
        }
    }
    // 2c. provenance reuse: the 8 source spellings of every label always (k % 8), the container variants by k / 8
    for (ty, label) in prov_labels() {
        let mut ks: Vec<u64> = (0..(if thorough { 96u64 } else { 16 })).collect();
        ks.push(r.next() % 4096);
        for k in ks {
            let case = format!("api {} {} {}", ty, label, k);
            let res = run_line(&case);
            out.emit(&case, &res);
        }
    }
    // 2d. the free JSON -> metadatum converters: every position x length x kind, always
    for (ty, label) in conv_labels() {
        let top = if label == "json_conv_into_aux" { 216u64 } else { 72 };
        for k in 0..top {
            let case = format!("api {} {} {}", ty, label, k);
            let res = run_line(&case);
            out.emit(&case, &res);
        }
    }
    // 3. tx
    let n = if thorough { 4000 } else { 300 };
    let mut ks: Vec<u64> = (0..20).collect();
    for _ in 0..n { ks.push(r.next()); }
    let stats = std::env::var("C03_STATS").is_ok();
    let mut st = Stats::default();
    for k in ks {
        let case = format!("tx Transaction {}", k);
        let res = if stats {
            guarded(move || { let mut f = Feat::default(); let r = tx_scenario(k, &mut f);
                              format!("{}\u{1}{}", f.line(r.is_ok()), match r { Ok(t) => format!("ok {} {}", hex_or_dash(&t.to_bytes()), hex_or_dash(&cbor_array(&f.given))), Err(e) => format!("builderr\u{1}{}", e.to_string()) }) })
        } else { run_line(&case) };
        let res = if stats && res != "panic" {
            let parts: Vec<&str> = res.split('\u{1}').collect();
            st.add(parts[0], parts.get(2).copied());
            parts[1].to_string()
        } else { res };
        out.emit(&case, &res);
    }
    if stats { st.print(); }
    out.finish();
}

fn main() {
    if std::env::var("VERIF_DEBUG").is_err() { silence_panics(); }
    let args: Vec<String> = std::env::args().collect();
    match args.get(1).map(|s| s.as_str()) {
        Some("gen") => gen(&args[2]),
        Some("run") => {
            let mut o = String::new();
            for (idx, toks) in read_cases(&args[2]) {
                let res = guarded(move || exec(&toks));
                o.push_str(&format!("{} {}\n", idx, res));
            }
            std::fs::write(&args[3], o).unwrap();
        }
        _ => { eprintln!("usage: c03 gen <dir> | run <cases> <out>"); std::process::exit(2); }
    }
}
