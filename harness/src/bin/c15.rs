//! C15 correspondence harness: stand-alone fee functions.
//! `c15 gen <dir>` generates cases from VERIF_SEED / VERIF_TIER and runs the implementation;
//! `c15 run <cases> <out>` runs the implementation on given case lines (replay / corpus).
use cardano_serialization_lib::*;
use csl_verif_harness::util::*;

fn bn(s: &str) -> BigNum { BigNum::from_str(s).expect("u64 in case") }
fn show(r: Result<BigNum, JsError>) -> String { match r { Ok(v) => format!("ok {}", v.to_str()), Err(_) => "err".into() } }

fn mk_tx(units: &[(u64, u64)], with_redeemers: bool, pad: usize) -> Transaction {
    let mut inputs = TransactionInputs::new();
    inputs.add(&TransactionInput::new(&TransactionHash::from_bytes(vec![7u8; 32]).unwrap(), 0));
    let outputs = TransactionOutputs::new();
    let body = TransactionBody::new_tx_body(&inputs, &outputs, &BigNum::from(170000u64));
    let mut ws = TransactionWitnessSet::new();
    if with_redeemers {
        let mut rs = Redeemers::new();
        for (i, (m, s)) in units.iter().enumerate() {
            rs.add(&Redeemer::new(&RedeemerTag::new_spend(), &BigNum::from(i as u64),
                &PlutusData::new_bytes(vec![1u8; pad % 40]), &ExUnits::new(&BigNum::from(*m), &BigNum::from(*s))));
        }
        ws.set_redeemers(&rs);
    }
    Transaction::new(&body, &ws, None)
}

fn cbor_uint(major: u8, v: u64, out: &mut Vec<u8>) {
    let m = major << 5;
    if v < 24 { out.push(m | v as u8) } else if v < 0x100 { out.push(m | 24); out.push(v as u8) }
    else if v < 0x1_0000 { out.push(m | 25); out.extend_from_slice(&(v as u16).to_be_bytes()) }
    else if v < 0x1_0000_0000 { out.push(m | 26); out.extend_from_slice(&(v as u32).to_be_bytes()) }
    else { out.push(m | 27); out.extend_from_slice(&v.to_be_bytes()) }
}

/// Redeemers written by hand in the array (`a`) or map (`m`) wire form, repeated (tag, index) keys included, and read
/// back by the library; `n` builds them with new() + add(). Upper-case: the whole transaction additionally goes through
/// to_bytes / from_bytes. "All redeemers" of the property are all entries the collection holds (len() of it).
fn mk_tx_decoded(fmt: &str, ents: &[(u64, u64, u64, u64)]) -> Result<Transaction, String> {
    let mut rs = Redeemers::new();
    match fmt.to_ascii_lowercase().as_str() {
        "n" => for (t, i, m, s) in ents {
            let tag = match t % 6 { 0 => RedeemerTag::new_spend(), 1 => RedeemerTag::new_mint(), 2 => RedeemerTag::new_cert(), 3 => RedeemerTag::new_reward(), 4 => RedeemerTag::new_vote(), _ => RedeemerTag::new_voting_proposal() };
            rs.add(&Redeemer::new(&tag, &BigNum::from(*i), &PlutusData::new_integer(&BigInt::from_str("0").unwrap()), &ExUnits::new(&BigNum::from(*m), &BigNum::from(*s))));
        },
        f => {
            let mut b = Vec::new();
            cbor_uint(if f == "m" { 5 } else { 4 }, ents.len() as u64, &mut b);
            for (t, i, m, s) in ents {
                if f == "m" { b.push(0x82); cbor_uint(0, t % 6, &mut b); cbor_uint(0, *i, &mut b); b.push(0x82); }
                else { b.push(0x84); cbor_uint(0, t % 6, &mut b); cbor_uint(0, *i, &mut b); }
                b.push(0x00); b.push(0x82); cbor_uint(0, *m, &mut b); cbor_uint(0, *s, &mut b);
            }
            rs = Redeemers::from_bytes(b).map_err(|_| "harness-redeemers-decode-failed".to_string())?;
        }
    }
    if rs.len() != ents.len() { return Err("harness-redeemers-len-differs".into()); }
    let mut inputs = TransactionInputs::new();
    inputs.add(&TransactionInput::new(&TransactionHash::from_bytes(vec![7u8; 32]).unwrap(), 0));
    let body = TransactionBody::new_tx_body(&inputs, &TransactionOutputs::new(), &BigNum::from(170000u64));
    let mut ws = TransactionWitnessSet::new();
    ws.set_redeemers(&rs);
    let tx = Transaction::new(&body, &ws, None);
    if fmt.chars().all(|c| c.is_ascii_uppercase()) {
        let tx2 = Transaction::from_bytes(tx.to_bytes()).map_err(|_| "harness-tx-decode-failed".to_string())?;
        let n2 = tx2.witness_set().redeemers().map(|r| r.len()).unwrap_or(0);
        if n2 != ents.len() { return Err("harness-tx-redeemers-len-differs".into()); }
        return Ok(tx2);
    }
    Ok(tx)
}

fn exec(toks: &[String]) -> String {
    let t: Vec<&str> = toks.iter().map(|s| s.as_str()).collect();
    match t.as_slice() {
        ["lin", size, coeff, konst] => {
            let size: usize = size.parse().unwrap();
            show(min_fee_for_size(size, &LinearFee::new(&bn(coeff), &bn(konst))))
        }
        ["exu", mem, steps, mpn, mpd, spn, spd] => {
            let prices = ExUnitPrices::new(&UnitInterval::new(&bn(mpn), &bn(mpd)), &UnitInterval::new(&bn(spn), &bn(spd)));
            show(calculate_ex_units_ceil_cost(&ExUnits::new(&bn(mem), &bn(steps)), &prices))
        }
        ["msf", k, rest @ ..] => {
            let k: i64 = k.parse().unwrap();
            let n = if k < 0 { 0 } else { k as usize };
            let units: Vec<(u64, u64)> = (0..n).map(|i| (rest[2 * i].parse().unwrap(), rest[2 * i + 1].parse().unwrap())).collect();
            let p = &rest[2 * n..];
            let prices = ExUnitPrices::new(&UnitInterval::new(&bn(p[0]), &bn(p[1])), &UnitInterval::new(&bn(p[2]), &bn(p[3])));
            let tx = mk_tx(&units, k >= 0, n);
            show(min_script_fee(&tx, &prices))
        }
        ["msfd", fmt, k, rest @ ..] => {
            let n: usize = k.parse().unwrap();
            let ents: Vec<(u64, u64, u64, u64)> = (0..n).map(|i| (rest[4 * i].parse().unwrap(), rest[4 * i + 1].parse().unwrap(), rest[4 * i + 2].parse().unwrap(), rest[4 * i + 3].parse().unwrap())).collect();
            let p = &rest[4 * n..];
            let prices = ExUnitPrices::new(&UnitInterval::new(&bn(p[0]), &bn(p[1])), &UnitInterval::new(&bn(p[2]), &bn(p[3])));
            match mk_tx_decoded(fmt, &ents) { Ok(tx) => show(min_script_fee(&tx, &prices)), Err(e) => e }
        }
        ["ref", size, pn, pd] => {
            let size: usize = size.parse().unwrap();
            show(min_ref_script_fee(size, &UnitInterval::new(&bn(pn), &bn(pd))))
        }
        _ => "harness-badcase".into(),
    }
}

fn price(r: &mut Rng) -> (u64, u64) {
    match r.below(12) {
        0 => (0, 1), 1 => (1, 1), 2 => (577, 10000), 3 => (721, 10000000), 4 => (15, 1),
        5 => (r.below(100), r.below(100) + 1),
        6 => { let g = r.below(50) + 1; (g * r.below(40), g * (r.below(40) + 1)) }          // non-reduced
        7 => (r.u64_edge(), r.u64_edge().max(1)),
        8 => (r.below(1000), 1u64 << r.below(64)),                                           // large denominators
        9 => (r.u64_edge(), 0),                                                              // zero denominator
        10 => (0, r.u64_edge()),
        _ => (r.next() >> r.below(64), (r.next() >> r.below(64)).max(1)),
    }
}

fn gen(dir: &str) {
    let seed = seed_from_env();
    let thorough = is_thorough();
    let mut r = Rng::new(seed ^ 0xC15);
    let mut out = Out::new(dir);
    let mut emit = |out: &mut Out, case: String| {
        let toks: Vec<String> = case.split_whitespace().map(|s| s.to_string()).collect();
        let res = guarded(move || exec(&toks));
        out.emit(&case, &res);
    };
    let n = if thorough { 20000 } else { 1500 };
    // linear fee
    for _ in 0..n {
        let size = match r.below(4) { 0 => r.below(20000), 1 => r.u64_edge(), 2 => r.below(1 << 32), _ => r.below(300) };
        let (a, b) = match r.below(4) { 0 => (44, 155381), 1 => (r.u64_edge(), r.u64_edge()), 2 => (r.below(1000), r.below(1_000_000)), _ => (r.next() >> r.below(64), r.next() >> r.below(64)) };
        emit(&mut out, format!("lin {} {} {}", size, a, b));
    }
    // linear fee, boundary-directed: the exact result lands on 2^64-1 +- 1 (largest representable value, first overflow)
    for i in 0..n / 10 {
        let size = match r.below(4) { 0 => 0, 1 => 1 + r.below(20000), 2 => 1 + r.below(1 << 32), _ => 3 };
        let coeff = if size == 0 { r.u64_edge() } else { match r.below(3) { 0 => r.below(1000), 1 => (u64::MAX / size).saturating_sub(r.below(3)), _ => r.below(u64::MAX / size + 1) } };
        let prod = size as u128 * coeff as u128;
        if prod > u64::MAX as u128 { continue; }
        let d = (i % 3) as i128 - 1;
        let konst = (u64::MAX as i128 - prod as i128 + d).clamp(0, u64::MAX as i128) as u64;
        emit(&mut out, format!("lin {} {} {}", size, coeff, konst));
    }
    // ex-unit cost
    for _ in 0..n {
        let (mem, steps) = match r.below(4) { 0 => (r.below(14_000_000), r.below(10_000_000_000)), 1 => (r.u64_edge(), r.u64_edge()), 2 => (0, r.u64_edge()), _ => (r.next() >> r.below(64), r.next() >> r.below(64)) };
        let (a, b) = price(&mut r); let (c, d) = price(&mut r);
        emit(&mut out, format!("exu {} {} {} {} {} {}", mem, steps, a, b, c, d));
    }
    // ex-unit cost, boundary-directed: the priced numerator mem*pn (or steps*pn) lands within a few denominators of
    // 2^64 (where a machine-word shortcut for the ceiling would saturate or wrap), and the quotient lands next to 2^64
    // (the exact-or-error boundary of the result)
    for i in 0..n / 2 {
        let d: u64 = match r.below(6) { 0 => 1 + r.below(20), 1 => 577, 2 => 10_000, 3 => 1u64 << (1 + r.below(40)), 4 => 10_000_000, _ => 1 + r.below(1_000_000) };
        let pn: u64 = match r.below(4) { 0 => 1, 1 => 1 + r.below(9), 2 => 721, _ => 1 + r.below(100_000) };
        let delta = r.below(2 * d.min(1 << 20) + 5) as i128 - (d.min(1 << 20) as i128 + 2);
        let target: i128 = if i % 3 == 2 { ((1i128 << 64) + r.below(5) as i128 - 2) * d as i128 + delta } else { (1i128 << 64) + delta };
        let x = (target / pn as i128 + (r.below(3) as i128 - 1)).clamp(0, u64::MAX as i128) as u64;
        let (zn, zd) = if r.chance(1, 2) { (0u64, 1u64) } else { (0, 1 + r.below(50)) };
        if r.chance(1, 2) { emit(&mut out, format!("exu {} {} {} {} {} {}", x, r.below(3), pn, d, zn, zd)); }
        else { emit(&mut out, format!("exu {} {} {} {} {} {}", r.below(3), x, zn, zd, pn, d)); }
    }
    // min_script_fee over a transaction's redeemers (sums, overflow of the sums, absent redeemers)
    for _ in 0..n / 3 {
        let k: i64 = match r.below(8) { 0 => -1, 1 => 0, _ => 1 + r.below(6) as i64 };
        let mut s = format!("msf {}", k);
        for _ in 0..k.max(0) {
            let (m, st) = match r.below(5) { 0 => (r.u64_edge(), r.u64_edge()), 1 => (u64::MAX / 2 + r.below(3), r.below(100)), 2 => (r.below(100), u64::MAX / 3 + r.below(3)), _ => (r.below(14_000_000), r.below(10_000_000_000)) };
            s.push_str(&format!(" {} {}", m, st));
        }
        let (a, b) = price(&mut r); let (c, d) = price(&mut r);
        s.push_str(&format!(" {} {} {} {}", a, b, c, d));
        emit(&mut out, s);
    }
    // min_script_fee over redeemers that were DECODED (array and map wire forms, repeated (tag, index) keys, whole-tx round
    // trip): every entry of the collection counts, whatever form it came in
    for i in 0..n / 3 {
        let k = 1 + r.below(6);
        let fmt = ["n", "a", "m", "N", "A", "M"][(i % 6) as usize];
        let mut s = format!("msfd {} {}", fmt, k);
        let (t0, i0) = (r.below(6), r.below(4));
        for j in 0..k {
            // repeated keys are frequent: same key as the first entry, as the previous one, or fresh
            let (t, ix) = match r.below(4) { 0 => (t0, i0), 1 => (t0, i0 + j), 2 => (r.below(6), r.below(3)), _ => (r.below(6), r.below(70000)) };
            let (m, st) = match r.below(6) { 0 => (r.u64_edge(), r.u64_edge()), 1 => (u64::MAX / 2 + r.below(3), r.below(100)), _ => (r.below(14_000_000), r.below(10_000_000_000)) };
            s.push_str(&format!(" {} {} {} {}", t, ix, m, st));
        }
        let (a, b) = price(&mut r); let (c, d) = price(&mut r);
        s.push_str(&format!(" {} {} {} {}", a, b, c, d));
        emit(&mut out, s);
    }
    // tiered reference-script fee: every tier boundary +-2 up to T tiers, then random sizes
    let tiers = if thorough { 400 } else { 60 };
    for t in 0..=tiers {
        for d in [-2i64, -1, 0, 1, 2] {
            let size = (t as i64) * 25600 + d;
            if size < 0 { continue; }
            let (a, b) = if t % 3 == 0 { (15, 1) } else { price(&mut r) };
            emit(&mut out, format!("ref {} {} {}", size, a, b));
        }
    }
    // quick: a sparse sample of the tiers beyond the dense range (the extracted model's 12^k is quadratic in k, so only a
    // few dozen), so that a guard or shortcut keyed on a large tier count is met in every run
    if !thorough {
        for j in 0..36u64 {
            let t = 61 + (j * 339) / 35 + if j > 0 && j < 35 { r.below(5) } else { 0 };     // 61 ..= 400, jittered
            for d in [-1i64, 0, 1] {
                let (a, b) = if j % 2 == 0 { (15, 1) } else { price(&mut r) };
                emit(&mut out, format!("ref {} {} {}", (t.min(400) * 25600) as i64 + d, a, b));
            }
        }
    }
    for _ in 0..n {
        let max = if thorough { 25600 * 400 } else { 25600 * 80 };
        let size = match r.below(3) { 0 => r.below(204800), 1 => r.below(max), _ => 25600 * r.below(max / 25600) + r.below(3) };
        let (a, b) = price(&mut r);
        emit(&mut out, format!("ref {} {} {}", size, a, b));
    }
    out.finish();
}

fn main() {
    silence_panics();
    let args: Vec<String> = std::env::args().collect();
    match args.get(1).map(|s| s.as_str()) {
        Some("gen") => gen(&args[2]),
        Some("run") => {
            let mut o = String::new();
            for (idx, toks) in read_cases(&args[2]) {
                let res = guarded(move || exec(&toks));
                o.push_str(&format!("{} {}\n", idx, res));
            }
            std::fs::write(&args[3], o).unwrap();
        }
        _ => { eprintln!("usage: c15 gen <dir> | run <cases> <out>"); std::process::exit(2); }
    }
}
