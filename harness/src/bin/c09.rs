//! C09 correspondence harness: script-integrity and auxiliary-data hashes.
//! `c09 gen <dir>` generates cases from VERIF_SEED / VERIF_TIER and runs the implementation;
//! `c09 run <cases> <out>` runs the implementation on given case lines (replay / corpus).
//!
//! Case lines (first token = generator label; `h…` = stand-alone helper, `b…` = builder history):
//!   h:<stream> D <pool> R <fmt n|m|a> <k> { <tag> <index> <didx> <mem> <steps> }* CM <costmdls> L <~ | <n|t|f|T|F> <k> <didx>*>
//!   b:<stream> D <pool> S <n> { <lang> <scripthex> }* OPS <n> <op>*
//!   pool     = <n> { <id> <flag o|s> <srchex> <byteshex> }*      a PlutusData value: decoded from src (o) or decoded and its outer
//!                                                                 original bytes dropped (s); bytes = its to_bytes(); id = its class under Ord
//!   costmdls = <n> { <lang 0..2> <k> <int>* }*
//!   list     = n: PlutusList::new()+add | t/f: decoded from a definite / indefinite encoding | T/F: the same with the set tag 258
//!   op       = sub <k 0..6> <number of collateral inputs> <nw> { <i<sidx> | r<lang>> <n | r | d<didx>> <index> <didx> <mem> <steps> }*
//!            | extra <didx> | calc <costmdls> | sethash <hex32> | rmhash
//!            | setaux <md | ~> <nativehex | ~> <~ | k sidx*> <alonzo 0|1> | rmaux | setmd <md> | addmd <label> <hex>
//!   md       = <k> { <label> <metadatumhex> }*
//!   sub k    = 0 inputs, 1 collateral, 2 mint, 3 certificates, 4 withdrawals, 5 votes, 6 proposals; the witness list is what the
//!              sub-builder's getter returns (the harness rebuilds a sub-builder from it and answers `stale-case` when the getter
//!              does not return exactly this list).
//! Results:  helper `ok h=<hash> ws=<witness set bytes>`;  builder `ok c=<calc flags> sdh=<hex|~> auxh=<hex|~> ws=<hex> aux=<hex|~> tx=<hex>`
//!           or `err c=<flags>` when build_tx fails.
#![allow(deprecated)]
use cardano_serialization_lib::*;
use csl_verif_harness::util::*;
use std::cmp::Ordering;

// ------------------------------------------------------------------ small helpers

fn bn(v: u64) -> BigNum { BigNum::from(v) }
fn h28(tag: u8, i: u64) -> Vec<u8> { let mut v = vec![tag; 28]; v[20..28].copy_from_slice(&i.to_be_bytes()); v }
fn h32(tag: u8) -> TransactionHash { TransactionHash::from_bytes(vec![tag; 32]).unwrap() }
fn lang_of(i: u64) -> Language { match i { 0 => Language::new_plutus_v1(), 1 => Language::new_plutus_v2(), _ => Language::new_plutus_v3() } }
fn lang_idx(l: &Language) -> u64 { l.kind() as u64 }
fn cbor_head(major: u8, n: u64) -> Vec<u8> {
    let m = major << 5;
    if n < 24 { vec![m | n as u8] }
    else if n < 256 { vec![m | 24, n as u8] }
    else if n < 65536 { let mut v = vec![m | 25]; v.extend(&(n as u16).to_be_bytes()); v }
    else if n < (1u64 << 32) { let mut v = vec![m | 26]; v.extend(&(n as u32).to_be_bytes()); v }
    else { let mut v = vec![m | 27]; v.extend(&n.to_be_bytes()); v }
}
fn inc_be(v: &[u8]) -> Vec<u8> {
    let mut r = v.to_vec();
    for b in r.iter_mut().rev() { if *b == 255 { *b = 0; } else { *b += 1; break; } }
    r
}

struct P<'a> { t: &'a [String], i: usize }
impl<'a> P<'a> {
    fn next(&mut self) -> &'a str { let s = &self.t[self.i]; self.i += 1; s.as_str() }
    fn expect(&mut self, s: &str) { let t = self.next(); assert_eq!(t, s, "case syntax"); }
    fn num(&mut self) -> u64 { self.next().parse().expect("number in case") }
    fn count(&mut self) -> usize { self.num() as usize }
}

// ------------------------------------------------------------------ Plutus data pool

#[derive(Clone)]
struct PoolItem { id: u64, flag: char, src: Vec<u8>, bytes: Vec<u8>, obj: PlutusData }

fn strip(x: &PlutusData) -> PlutusData {
    match x.kind() {
        PlutusDataKind::ConstrPlutusData => PlutusData::new_constr_plutus_data(&x.as_constr_plutus_data().unwrap()),
        PlutusDataKind::Map => PlutusData::new_map(&x.as_map().unwrap()),
        PlutusDataKind::List => PlutusData::new_list(&x.as_list().unwrap()),
        PlutusDataKind::Integer => PlutusData::new_integer(&x.as_integer().unwrap()),
        PlutusDataKind::Bytes => PlutusData::new_bytes(x.as_bytes().unwrap()),
    }
}
fn mk_obj(flag: char, src: &[u8]) -> Option<PlutusData> {
    let o = PlutusData::from_bytes(src.to_vec()).ok()?;
    Some(if flag == 's' { strip(&o) } else { o })
}
/// ids = classes of the derived Ord (what BTreeSet-based de-duplication sees), numbered by first occurrence
fn assign_ids(objs: &[PlutusData]) -> Vec<u64> {
    let mut ids: Vec<u64> = Vec::new();
    for (i, o) in objs.iter().enumerate() {
        let mut found = None;
        for j in 0..i { if objs[j].cmp(o) == Ordering::Equal { found = Some(ids[j]); break; } }
        ids.push(found.unwrap_or(i as u64));
    }
    ids
}
fn pool_to_string(pool: &[PoolItem]) -> String {
    let mut s = format!("D {}", pool.len());
    for p in pool { s += &format!(" {} {} {} {}", p.id, p.flag, hex_or_dash(&p.src), hex_or_dash(&p.bytes)); }
    s
}
/// Parses the pool and checks that the ids and bytes written in the case are the implementation's.
fn parse_pool(p: &mut P) -> Result<Vec<PoolItem>, String> {
    p.expect("D");
    let n = p.count();
    let mut items = Vec::new();
    for _ in 0..n {
        let id = p.num();
        let flag = p.next().chars().next().unwrap();
        let src = unhex_or_dash(p.next());
        let bytes = unhex_or_dash(p.next());
        let obj = mk_obj(flag, &src).ok_or_else(|| "pool item does not decode".to_string())?;
        if obj.to_bytes() != bytes { return Err("pool item bytes differ".to_string()); }
        items.push(PoolItem { id, flag, src, bytes, obj });
    }
    for i in 0..n { for j in 0..i {
        let same = items[i].obj.cmp(&items[j].obj) == Ordering::Equal;
        if same != (items[i].id == items[j].id) { return Err("pool ids are not the Ord classes".to_string()); }
    } }
    Ok(items)
}

// ------------------------------------------------------------------ random Plutus data (bytes level)

fn gen_int(r: &mut Rng) -> Vec<u8> {
    match r.below(8) {
        0 => cbor_head(0, r.below(24)),
        1 => cbor_head(0, r.u64_edge()),
        2 => cbor_head(1, r.u64_edge()),
        3 => { let n = r.below(24); vec![0x18, n as u8] }                       // non-minimal head
        4 => { let n = r.below(256); let mut v = vec![0x19]; v.extend(&(n as u16).to_be_bytes()); v }
        5 => { let k = r.range(9, 12) as usize; let mut v = vec![0xc2]; v.extend(cbor_head(2, k as u64)); let mut b = r.bytes(k); b[0] |= 1; v.extend(b); v } // bignum
        6 => { let k = r.range(9, 12) as usize; let mut v = vec![0xc3]; v.extend(cbor_head(2, k as u64)); let mut b = r.bytes(k); b[0] |= 1; v.extend(b); v }
        _ => cbor_head(0, r.below(3)),
    }
}
fn gen_bytes(r: &mut Rng) -> Vec<u8> {
    match r.below(5) {
        0 => vec![0x40],
        1 => { let k = r.range(1, 8) as usize; let mut v = cbor_head(2, k as u64); v.extend(r.bytes(k)); v }
        2 => { let k = r.range(24, 64) as usize; let mut v = cbor_head(2, k as u64); v.extend(r.bytes(k)); v }
        3 => { // chunked
            let mut v = vec![0x5f];
            for _ in 0..r.range(1, 2) { let k = r.range(1, 64) as usize; v.extend(cbor_head(2, k as u64)); v.extend(r.bytes(k)); }
            v.push(0xff); v }
        _ => { let k = r.below(3) as usize; let mut v = cbor_head(2, k as u64); v.extend(vec![7u8; k]); v }
    }
}
fn gen_data(r: &mut Rng, depth: u32) -> Vec<u8> {
    let c = if depth == 0 { r.below(2) } else { r.below(6) };
    match c {
        0 => gen_int(r),
        1 => gen_bytes(r),
        2 => { // list
            let k = r.below(4);
            let indef = r.chance(1, 2);
            let mut v = if indef { vec![0x9f] } else { cbor_head(4, k) };
            for _ in 0..k { v.extend(gen_data(r, depth - 1)); }
            if indef { v.push(0xff); }
            v }
        3 => { // map (distinct small keys)
            let k = r.below(3);
            let mut v = cbor_head(5, k);
            for i in 0..k { v.extend(cbor_head(0, i)); v.extend(gen_data(r, depth - 1)); }
            v }
        4 => { // compact constr
            let alt = if r.chance(1, 2) { 121 + r.below(7) } else { 1280 + r.below(121) };
            let mut v = cbor_head(6, alt);
            let k = r.below(3);
            let indef = k > 0 && r.chance(1, 2);
            if indef { v.push(0x9f) } else { v.extend(cbor_head(4, k)) }
            for _ in 0..k { v.extend(gen_data(r, depth - 1)); }
            if indef { v.push(0xff); }
            v }
        _ => { // general constr
            let mut v = cbor_head(6, 102); v.push(0x82); v.extend(cbor_head(0, r.u64_edge()));
            let k = r.below(3);
            v.extend(cbor_head(4, k));
            for _ in 0..k { v.extend(gen_data(r, depth - 1)); }
            v }
    }
}
/// Two encodings of the same Plutus data VALUE (equal under the library's PartialEq, which ignores preserved bytes and
/// list framing) with different bytes: non-minimal integer heads, bignum tags for small values, definite vs indefinite
/// lists / maps / constructor fields, chunked vs plain byte strings.
fn gen_eq_pair(r: &mut Rng) -> (Vec<u8>, Vec<u8>) {
    loop {
        let (a, b): (Vec<u8>, Vec<u8>) = match r.below(8) {
            0 => { let n = r.below(24) as u8; (vec![n], match r.below(3) { 0 => vec![0x18, n], 1 => vec![0x19, 0, n], _ => vec![0xc2, 0x41, n] }) }
            1 => { let n = r.range(24, 255) as u8; (vec![0x18, n], if r.chance(1, 2) { vec![0x19, 0, n] } else { vec![0xc2, 0x41, n] }) }
            2 => { let n = r.below(24) as u8; (vec![0x20 | n], if r.chance(1, 2) { vec![0x38, n] } else { vec![0xc3, 0x41, n] }) }
            3 => { // list
                let k = r.range(1, 3); let d = r.below(2) as u32;
                let els: Vec<Vec<u8>> = (0..k).map(|_| gen_data(r, d)).collect();
                let mut a = cbor_head(4, k); let mut b = vec![0x9f];
                for e in &els { a.extend(e); b.extend(e); } b.push(0xff); (a, b) }
            4 => { // map
                let k = r.range(1, 2);
                let mut a = cbor_head(5, k); let mut b = vec![0xbf];
                for i in 0..k { let v = gen_data(r, 0); a.extend(cbor_head(0, i)); a.extend(&v); b.extend(cbor_head(0, i)); b.extend(&v); } b.push(0xff); (a, b) }
            5 => { // bytes: plain vs chunked
                let k = r.range(2, 10) as usize; let x = r.bytes(k); let cut = r.range(1, k as u64 - 1) as usize;
                let mut a = cbor_head(2, k as u64); a.extend(&x);
                let mut b = vec![0x5f]; b.extend(cbor_head(2, cut as u64)); b.extend(&x[..cut]); b.extend(cbor_head(2, (k - cut) as u64)); b.extend(&x[cut..]); b.push(0xff);
                (a, b) }
            6 => { // constructor fields definite vs indefinite
                let tag = cbor_head(6, 121 + r.below(7)); let k = r.below(3);
                let els: Vec<Vec<u8>> = (0..k).map(|_| gen_data(r, 0)).collect();
                let mut a = tag.clone(); a.extend(cbor_head(4, k)); let mut b = tag.clone(); b.push(0x9f);
                for e in &els { a.extend(e); b.extend(e); } b.push(0xff); (a, b) }
            _ => { // nested: a list holding the two encodings of an inner value
                let (x, y) = gen_eq_pair(r);
                let mut a = vec![0x81]; a.extend(x); let mut b = vec![0x81]; b.extend(y); (a, b) }
        };
        if let (Ok(x), Ok(y)) = (PlutusData::from_bytes(a.clone()), PlutusData::from_bytes(b.clone())) {
            if x == y && x.to_bytes() != y.to_bytes() { return (a, b); }
        }
    }
}
/// A pool of n values with deliberate repetitions: equal values, the same datum with other original bytes,
/// the same value with its original bytes dropped.
fn gen_pool(r: &mut Rng, n: usize) -> Vec<PoolItem> {
    let mut raw: Vec<(char, Vec<u8>)> = Vec::new();
    while raw.len() < n {
        let k = raw.len();
        let pick = r.below(10);
        if k > 0 && pick < 2 { let j = r.below(k as u64) as usize; raw.push(raw[j].clone()); continue; }            // exact repetition
        if k > 0 && pick == 2 { let j = r.below(k as u64) as usize; raw.push(('s', raw[j].1.clone())); continue; }  // same value, no original bytes
        if pick == 3 { let (a, b) = gen_eq_pair(r); let fa = if r.chance(1, 4) { 's' } else { 'o' }; if r.chance(1, 2) { raw.push((fa, a)); raw.push(('o', b)); } else { raw.push(('o', b)); raw.push((fa, a)); } continue; } // same value, other bytes
        let d = if r.chance(1, 3) { 0 } else { r.range(1, 3) as u32 };
        let b = gen_data(r, d);
        let flag = if r.chance(1, 5) { 's' } else { 'o' };
        if mk_obj(flag, &b).is_some() { raw.push((flag, b)); }
    }
    raw.truncate(n);
    finish_pool(raw)
}
/// Pairs of value-equal, differently encoded values at positions (2i, 2i+1), decoded or constructed, then a few others.
fn gen_pool_pairs(r: &mut Rng, npairs: usize) -> Vec<PoolItem> {
    let mut raw: Vec<(char, Vec<u8>)> = Vec::new();
    for _ in 0..npairs {
        let (a, b) = gen_eq_pair(r);
        let (a, b) = if r.chance(1, 2) { (a, b) } else { (b, a) };
        raw.push((if r.chance(1, 3) { 's' } else { 'o' }, a));
        raw.push((if r.chance(1, 3) { 's' } else { 'o' }, b));
    }
    for _ in 0..r.range(1, 2) { raw.push(('o', gen_data(r, 1))); }
    finish_pool(raw)
}
fn finish_pool(raw: Vec<(char, Vec<u8>)>) -> Vec<PoolItem> {
    let objs: Vec<PlutusData> = raw.iter().map(|(f, b)| mk_obj(*f, b).unwrap()).collect();
    let ids = assign_ids(&objs);
    raw.into_iter().zip(objs).zip(ids).map(|(((flag, src), obj), id)| PoolItem { id, flag, bytes: obj.to_bytes(), src, obj }).collect()
}

// ------------------------------------------------------------------ cost models

#[derive(Clone)]
struct Cm(Vec<(u64, Vec<i128>)>);
impl Cm {
    fn to_string(&self) -> String {
        let mut s = format!("{}", self.0.len());
        for (l, cs) in &self.0 { s += &format!(" {} {}", l, cs.len()); for c in cs { s += &format!(" {}", c); } }
        s
    }
    fn parse(p: &mut P) -> Cm {
        let n = p.count();
        Cm((0..n).map(|_| { let l = p.num(); let k = p.count(); (l, (0..k).map(|_| p.next().parse::<i128>().unwrap()).collect()) }).collect())
    }
    fn build(&self) -> Costmdls {
        let mut c = Costmdls::new();
        for (l, cs) in &self.0 {
            let mut m = CostModel::new();
            for (i, v) in cs.iter().enumerate() { m.set(i, &Int::from_str(&v.to_string()).unwrap()).unwrap(); }
            c.insert(&lang_of(*l), &m);
        }
        c
    }
}
fn gen_cost(r: &mut Rng) -> i128 {
    match r.below(8) {
        0 => -(r.u64_edge() as i128) - 1,
        1 => r.u64_edge() as i128,
        2 => -(1i128 << 64),
        3 => (1i128 << 64) - 1,
        4 => -(r.below(30) as i128),
        _ => r.below(100_000) as i128,
    }
}
fn gen_cm(r: &mut Rng, langs: &[u64]) -> Cm {
    // insertion order is shuffled: the table is a BTreeMap, the order must not matter
    let mut ls: Vec<u64> = langs.to_vec();
    for i in (1..ls.len()).rev() { let j = r.below(i as u64 + 1) as usize; ls.swap(i, j); }
    Cm(ls.into_iter().map(|l| {
        let k = match r.below(6) { 0 => 0, 1 => r.range(1, 3), 2 => 23 + r.below(3), 3 => [166u64, 175, 251, 297][r.below(4) as usize], _ => r.range(4, 20) } as usize;
        (l, (0..k).map(|_| gen_cost(r)).collect())
    }).collect())
}
fn subset(r: &mut Rng) -> Vec<u64> { (0..3u64).filter(|_| r.chance(1, 2)).collect() }

// ------------------------------------------------------------------ the stand-alone helper

struct Red { tag: u64, index: u64, d: usize, mem: u64, steps: u64 }
fn tag_of(t: u64) -> RedeemerTag {
    match t { 0 => RedeemerTag::new_spend(), 1 => RedeemerTag::new_mint(), 2 => RedeemerTag::new_cert(), 3 => RedeemerTag::new_reward(),
              4 => RedeemerTag::new_vote(), _ => RedeemerTag::new_voting_proposal() }
}
fn tag_num(t: &RedeemerTag) -> u64 {
    match t.kind() { RedeemerTagKind::Spend => 0, RedeemerTagKind::Mint => 1, RedeemerTagKind::Cert => 2, RedeemerTagKind::Reward => 3,
                     RedeemerTagKind::Vote => 4, RedeemerTagKind::VotingProposal => 5 }
}
fn mk_redeemer(pool: &[PoolItem], x: &Red) -> Redeemer {
    Redeemer::new(&tag_of(x.tag), &bn(x.index), &pool[x.d].obj, &ExUnits::new(&bn(x.mem), &bn(x.steps)))
}

fn run_helper(t: &[String]) -> String {
    let mut p = P { t, i: 1 };
    let pool = match parse_pool(&mut p) { Ok(x) => x, Err(e) => return format!("stale-case:{}", e.replace(' ', "_")) };
    p.expect("R");
    let fmt = p.next();
    let k = p.count();
    let reds: Vec<Red> = (0..k).map(|_| Red { tag: p.num(), index: p.num(), d: p.count(), mem: p.num(), steps: p.num() }).collect();
    p.expect("CM");
    let cm = Cm::parse(&mut p);
    p.expect("L");
    let lf = p.next();
    let list: Option<(char, Vec<usize>)> = if lf == "~" { None } else { let k = p.count(); Some((lf.chars().next().unwrap(), (0..k).map(|_| p.count()).collect())) };
    // redeemers in the requested container form
    let mut rs = Redeemers::new();
    for x in &reds { rs.add(&mk_redeemer(&pool, x)); }
    let rs = match fmt {
        "n" => rs,
        "m" => Redeemers::from_bytes(rs.to_bytes()).expect("map-form redeemers"),
        _ => {
            let mut b = cbor_head(4, reds.len() as u64);
            for x in &reds { b.extend(mk_redeemer(&pool, x).to_bytes()); }
            Redeemers::from_bytes(b).expect("array-form redeemers")
        }
    };
    let datums: Option<PlutusList> = match &list {
        None => None,
        Some(('n', idx)) => { let mut l = PlutusList::new(); for i in idx { l.add(&pool[*i].obj); } Some(l) }
        Some((f, idx)) => {
            // decoded lists keep every element's original bytes: elements must be `o` items
            if idx.iter().any(|i| pool[*i].flag != 'o') { return "stale-case:decoded_list_needs_o_items".to_string(); }
            let mut b = Vec::new();
            if *f == 'T' || *f == 'F' { b.extend(&[0xd9, 0x01, 0x02]); }
            if *f == 't' || *f == 'T' { b.extend(cbor_head(4, idx.len() as u64)); } else { b.push(0x9f); }
            for i in idx { b.extend(&pool[*i].src); }
            if *f == 'f' || *f == 'F' { b.push(0xff); }
            match PlutusList::from_bytes(b) { Ok(l) => Some(l), Err(_) => return "stale-case:list_does_not_decode".to_string() }
        }
    };
    let (vk, bo): (Option<Vec<u8>>, Option<Vec<u8>>) = if p.i < p.t.len() {
        p.expect("V"); let v = p.next(); let v = if v == "~" { None } else { Some(unhex_or_dash(v)) };
        p.expect("B"); let b = p.next(); let b = if b == "~" { None } else { Some(unhex_or_dash(b)) };
        (v, b)
    } else { (None, None) };
    let costmdls = cm.build();
    let h = hash_script_data(&rs, &costmdls, datums.clone());
    // the witness set a caller would emit for the same redeemers and datums
    let mut ws = TransactionWitnessSet::new();
    if let Some(v) = &vk {
        match Vkeywitnesses::from_bytes(v.clone()) { Ok(x) => { if &x.to_bytes() != v || x.len() == 0 { return "stale-case:vkeys_bytes_differ".to_string(); } ws.set_vkeys(&x); } Err(_) => return "stale-case:vkeys_do_not_decode".to_string() }
    }
    if let Some(v) = &bo {
        match BootstrapWitnesses::from_bytes(v.clone()) { Ok(x) => { if &x.to_bytes() != v || x.len() == 0 { return "stale-case:bootstraps_bytes_differ".to_string(); } ws.set_bootstraps(&x); } Err(_) => return "stale-case:bootstraps_do_not_decode".to_string() }
    }
    ws.set_redeemers(&rs);
    if let Some(d) = &datums { ws.set_plutus_data(d); }
    format!("ok h={} ws={}", hex::encode(h.to_bytes()), hex_or_dash(&ws.to_bytes()))
}

// ------------------------------------------------------------------ builder histories

#[derive(Clone, PartialEq, Debug)]
enum Src { Inline(usize), Ref(u64) }
#[derive(Clone, PartialEq, Debug)]
enum Dat { None, Ref, Val(usize) }
#[derive(Clone, PartialEq, Debug)]
struct W { src: Src, dat: Dat, index: u64, d: usize, mem: u64, steps: u64 }
#[derive(Clone)]
struct AuxD { md: Option<Vec<(u64, Vec<u8>)>>, native: Option<Vec<u8>>, plutus: Option<Vec<usize>>, alonzo: bool }
#[derive(Clone)]
enum Wire { S(Vec<(u64, Vec<u8>)>), M(Vec<(u64, Vec<u8>)>, Vec<u8>), A(Option<Vec<(u64, Vec<u8>)>>, Option<Vec<u8>>, [Option<Vec<Vec<u8>>>; 3]) }
#[derive(Clone)]
enum Op { Sub(u64, u64, Vec<W>, Vec<u64>, Vec<Vec<u8>>), Extra(usize), Calc(Cm), SetHash(Vec<u8>), RmHash, SetAux(AuxD), RmAux, SetMd(Vec<(u64, Vec<u8>)>), AddMd(u64, Vec<u8>),
          AddJson(u64, u64, String, Vec<u8>), SetAuxW(Wire) }

fn md_to_string(md: &[(u64, Vec<u8>)]) -> String {
    let mut s = format!("{}", md.len());
    for (l, b) in md { s += &format!(" {} {}", l, hex_or_dash(b)); }
    s
}
fn op_to_string(o: &Op) -> String {
    match o {
        Op::Sub(k, ncol, ws, stale, nat) => {
            let mut s = format!("sub {} {} {}", k, ncol, ws.len());
            for w in ws {
                let a = match &w.src { Src::Inline(i) => format!("i{}", i), Src::Ref(l) => format!("r{}", l) };
                let b = match &w.dat { Dat::None => "n".to_string(), Dat::Ref => "r".to_string(), Dat::Val(i) => format!("d{}", i) };
                s += &format!(" {} {} {} {} {} {}", a, b, w.index, w.d, w.mem, w.steps);
            }
            s += &format!(" {}", stale.len()); for l in stale { s += &format!(" {}", l); }
            s += &format!(" {}", nat.len()); for n in nat { s += &format!(" {}", hex_or_dash(n)); }
            s
        }
        Op::Extra(i) => format!("extra {}", i),
        Op::Calc(cm) => format!("calc {}", cm.to_string()),
        Op::SetHash(h) => format!("sethash {}", hex::encode(h)),
        Op::RmHash => "rmhash".to_string(),
        Op::SetAux(a) => format!("setaux {} {} {} {}",
            match &a.md { None => "~".to_string(), Some(m) => md_to_string(m) },
            match &a.native { None => "~".to_string(), Some(b) => hex_or_dash(b) },
            match &a.plutus { None => "~".to_string(), Some(v) => { let mut s = format!("{}", v.len()); for i in v { s += &format!(" {}", i); } s } },
            if a.alonzo { 1 } else { 0 }),
        Op::RmAux => "rmaux".to_string(),
        Op::SetMd(m) => format!("setmd {}", md_to_string(m)),
        Op::AddMd(l, b) => format!("addmd {} {}", l, hex_or_dash(b)),
        Op::AddJson(l, sc, j, b) => format!("addjson {} {} {} {}", l, sc, hex_or_dash(j.as_bytes()), hex_or_dash(b)),
        Op::SetAuxW(w) => {
            let ol = |o: &Option<Vec<Vec<u8>>>| match o { None => "~".to_string(), Some(v) => { let mut s = format!("{}", v.len()); for b in v { s += &format!(" {}", hex_or_dash(b)); } s } };
            match w {
                Wire::S(md) => format!("setauxw s {}", md_to_string(md)),
                Wire::M(md, ns) => format!("setauxw m {} {}", md_to_string(md), hex_or_dash(ns)),
                Wire::A(md, ns, v) => format!("setauxw a {} {} {} {} {}",
                    match md { None => "~".to_string(), Some(m) => md_to_string(m) },
                    match ns { None => "~".to_string(), Some(b) => hex_or_dash(b) }, ol(&v[0]), ol(&v[1]), ol(&v[2])),
            }
        }
    }
}
/// The bytes of a wire form (definite lengths, keys in ascending order).
fn enc_md(md: &[(u64, Vec<u8>)]) -> Vec<u8> { let mut b = cbor_head(5, md.len() as u64); for (l, v) in md { b.extend(cbor_head(0, *l)); b.extend(v); } b }
fn enc_arr(v: &[Vec<u8>]) -> Vec<u8> { let mut b = cbor_head(4, v.len() as u64); for x in v { b.extend(cbor_head(2, x.len() as u64)); b.extend(x); } b }
fn enc_wire(w: &Wire) -> Vec<u8> {
    match w {
        Wire::S(md) => enc_md(md),
        Wire::M(md, ns) => { let mut b = vec![0x82]; b.extend(enc_md(md)); b.extend(ns); b }
        Wire::A(md, ns, v) => {
            let n = md.is_some() as u64 + ns.is_some() as u64 + v.iter().filter(|x| x.is_some()).count() as u64;
            let mut b = vec![0xd9, 0x01, 0x03]; b.extend(cbor_head(5, n));
            if let Some(m) = md { b.push(0); b.extend(enc_md(m)); }
            if let Some(x) = ns { b.push(1); b.extend(x); }
            for (i, o) in v.iter().enumerate() { if let Some(l) = o { b.push(2 + i as u8); b.extend(enc_arr(l)); } }
            b
        }
    }
}
fn parse_md(p: &mut P) -> Vec<(u64, Vec<u8>)> { let k = p.count(); (0..k).map(|_| (p.num(), unhex_or_dash(p.next()))).collect() }
fn parse_ops(p: &mut P) -> Vec<Op> {
    p.expect("OPS");
    let n = p.count();
    (0..n).map(|_| match p.next() {
        "sub" => {
            let k = p.num(); let ncol = p.num(); let nw = p.count();
            let ws: Vec<W> = (0..nw).map(|_| {
                let a = p.next(); let b = p.next();
                let src = if a.starts_with('i') { Src::Inline(a[1..].parse().unwrap()) } else { Src::Ref(a[1..].parse().unwrap()) };
                let dat = if b == "n" { Dat::None } else if b == "r" { Dat::Ref } else { Dat::Val(b[1..].parse().unwrap()) };
                W { src, dat, index: p.num(), d: p.count(), mem: p.num(), steps: p.num() }
            }).collect();
            let ns = p.count(); let stale: Vec<u64> = (0..ns).map(|_| p.num()).collect();
            let nn = p.count(); let nat: Vec<Vec<u8>> = (0..nn).map(|_| unhex_or_dash(p.next())).collect();
            Op::Sub(k, ncol, ws, stale, nat)
        }
        "extra" => Op::Extra(p.count()),
        "calc" => Op::Calc(Cm::parse(p)),
        "sethash" => Op::SetHash(unhex_or_dash(p.next())),
        "rmhash" => Op::RmHash,
        "setaux" => {
            let md = if p.t[p.i] == "~" { p.next(); None } else { Some(parse_md(p)) };
            let native = { let s = p.next(); if s == "~" { None } else { Some(unhex_or_dash(s)) } };
            let plutus = { let s = p.next(); if s == "~" { None } else { let k: usize = s.parse().unwrap(); Some((0..k).map(|_| p.count()).collect()) } };
            Op::SetAux(AuxD { md, native, plutus, alonzo: p.next() == "1" })
        }
        "rmaux" => Op::RmAux,
        "setmd" => Op::SetMd(parse_md(p)),
        "addmd" => Op::AddMd(p.num(), unhex_or_dash(p.next())),
        "addjson" => { let l = p.num(); let sc = p.num(); let j = String::from_utf8(unhex_or_dash(p.next())).unwrap(); Op::AddJson(l, sc, j, unhex_or_dash(p.next())) }
        "setauxw" => {
            fn optl(p: &mut P) -> Option<Vec<Vec<u8>>> { let s = p.next(); if s == "~" { None } else { let k: usize = s.parse().unwrap(); Some((0..k).map(|_| unhex_or_dash(p.next())).collect()) } }
            match p.next() {
                "s" => Op::SetAuxW(Wire::S(parse_md(p))),
                "m" => { let md = parse_md(p); Op::SetAuxW(Wire::M(md, unhex_or_dash(p.next()))) }
                _ => {
                    let md = if p.t[p.i] == "~" { p.next(); None } else { Some(parse_md(p)) };
                    let ns = { let s = p.next(); if s == "~" { None } else { Some(unhex_or_dash(s)) } };
                    let v1 = optl(p); let v2 = optl(p); let v3 = optl(p);
                    Op::SetAuxW(Wire::A(md, ns, [v1, v2, v3]))
                }
            }
        }
        x => panic!("unknown op {}", x),
    }).collect()
}

struct Ctx { pool: Vec<PoolItem>, scripts: Vec<PlutusScript> }

fn script_hash_of(ctx: &Ctx, w: &W, prev: &mut Vec<u8>, pos: usize, chain: bool) -> ScriptHash {
    let h = match &w.src {
        Src::Inline(i) => ctx.scripts[*i].hash().to_bytes(),
        // reference scripts get a hash of the harness' choosing: right after the previous entry's hash where the
        // sub-builder sorts by hash (so that the list order is the sorted order), position-derived elsewhere
        Src::Ref(_) => if chain { inc_be(prev) } else { h28(0xc0, pos as u64) },
    };
    *prev = h.clone();
    ScriptHash::from_bytes(h).unwrap()
}
fn mk_witness(ctx: &Ctx, w: &W, hash: &ScriptHash, pos: usize, sub: u64) -> PlutusWitness {
    let red = Redeemer::new(&RedeemerTag::new_spend(), &bn(0), &ctx.pool[w.d].obj, &ExUnits::new(&bn(w.mem), &bn(w.steps)));
    let src = match &w.src {
        Src::Inline(i) => PlutusScriptSource::new(&ctx.scripts[*i]),
        Src::Ref(l) => PlutusScriptSource::new_ref_input(hash, &TransactionInput::new(&h32(0xa0 + sub as u8), pos as u32), &lang_of(*l), 40 + pos),
    };
    match &w.dat {
        Dat::None => PlutusWitness::new_with_ref_without_datum(&src, &red),
        Dat::Ref => PlutusWitness::new_with_ref(&src, &DatumSource::new_ref_input(&TransactionInput::new(&h32(0xb0 + sub as u8), pos as u32)), &red),
        Dat::Val(i) => PlutusWitness::new_with_ref(&src, &DatumSource::new(&ctx.pool[*i].obj), &red),
    }
}
/// What a sub-builder's getter returned, in the case-file vocabulary (script source language and datum-reference are not
/// observable through the public API: they are taken from the entry with the same (mem, steps), unique within a sub-builder).
fn read_back(ctx: &Ctx, got: &PlutusWitnesses, want: &[W], tag: u64) -> Result<Vec<W>, String> {
    let mut out = Vec::new();
    for i in 0..got.len() {
        let g = got.get(i);
        let r = g.redeemer();
        if tag_num(&r.tag()) != tag { return Err("tag".into()); }
        let mem: u64 = r.ex_units().mem().into(); let steps: u64 = r.ex_units().steps().into();
        let e = want.iter().find(|w| w.mem == mem && w.steps == steps).ok_or("no entry with these ex units")?;
        if r.data().to_bytes() != ctx.pool[e.d].bytes || r.data().cmp(&ctx.pool[e.d].obj) != Ordering::Equal { return Err("redeemer data".into()); }
        match (&e.src, g.script()) {
            (Src::Inline(j), Some(s)) => if s != ctx.scripts[*j] { return Err("script".into()); },
            (Src::Ref(_), None) => (),
            _ => return Err("script source".into()),
        }
        match (&e.dat, g.datum()) {
            (Dat::Val(j), Some(d)) => if d.cmp(&ctx.pool[*j].obj) != Ordering::Equal { return Err("datum".into()); },
            (Dat::None, None) | (Dat::Ref, None) => (),
            _ => return Err("datum source".into()),
        }
        let index: u64 = r.index().into();
        out.push(W { index, ..e.clone() });
    }
    Ok(out)
}

enum Built { Inputs(TxInputsBuilder), Mint(MintBuilder), Certs(CertificatesBuilder), Wdrl(WithdrawalsBuilder), Votes(VotingBuilder), Props(VotingProposalBuilder) }

fn key_addr(i: u64) -> Address { EnterpriseAddress::new(0, &Credential::from_keyhash(&Ed25519KeyHash::from_bytes(h28(0x01, i)).unwrap())).to_address() }

/// Builds the real sub-builder for sub kind k from a witness list and returns it with the list its getter reports.
fn nat_bytes(ns: &NativeScripts) -> Vec<Vec<u8>> { (0..ns.len()).map(|i| ns.get(i).to_bytes()).collect() }
fn nat_src(b: &[u8]) -> Result<(NativeScript, NativeScriptSource), String> {
    let n = NativeScript::from_bytes(b.to_vec()).map_err(|_| "native script does not decode".to_string())?;
    if n.to_bytes() != b { return Err("native script bytes differ".into()); }
    let src = NativeScriptSource::new(&n);
    Ok((n, src))
}
/// Returns the sub-builder, the Plutus witness list and the native-script list its getters report.
fn build_sub(ctx: &Ctx, k: u64, ncol: u64, ws: &[W], stale: &[u64], nat: &[Vec<u8>]) -> Result<(Built, Vec<W>, Vec<Vec<u8>>), String> {
    let mut prev = vec![0u8; 28];
    let e = |x: JsError| x.to_string().replace(' ', "_");
    if k >= 2 && !stale.is_empty() { return Err("stale witnesses exist only for inputs and collateral".into()); }
    if k == 6 && !nat.is_empty() { return Err("the proposal builder takes no native scripts".into()); }
    match k {
        0 | 1 => {
            let mut b = TxInputsBuilder::new();
            let txid = if k == 0 { 0x00 } else { 0x11 };
            // stale witnesses: an outpoint added with a Plutus witness and then AGAIN — as a key input (the witness stays
            // registered, nothing is returned for it), or, for odd j with a returned witness at position j, under another
            // Plutus script (h1 -> h2: only the witness registered under the current hash is returned)
            let stale_w = |l: u64| W { src: Src::Ref(l), dat: Dat::None, index: 0, d: 0, mem: 1, steps: 1 };
            for (j, l) in stale.iter().enumerate() {
                if j % 2 == 1 && j < ws.len() {
                    let h = ScriptHash::from_bytes(h28(0xc5, j as u64)).unwrap();
                    let inp = TransactionInput::new(&h32(txid), ws[j].index as u32);
                    b.add_plutus_script_input(&mk_witness(ctx, &stale_w(*l), &h, 500 + j, k), &inp, &Value::new(&bn(2_000_000)));
                }
            }
            for (pos, w) in ws.iter().enumerate() {
                let h = script_hash_of(ctx, w, &mut prev, pos, false);
                let wit = mk_witness(ctx, w, &h, pos, k);
                b.add_plutus_script_input(&wit, &TransactionInput::new(&h32(txid), w.index as u32), &Value::new(&bn(2_000_000)));
            }
            for (j, l) in stale.iter().enumerate() {
                if j % 2 == 1 && j < ws.len() { continue; }
                let h = ScriptHash::from_bytes(h28(0xc5, j as u64)).unwrap();
                let inp = TransactionInput::new(&h32(txid), 5000 + j as u32);
                b.add_plutus_script_input(&mk_witness(ctx, &stale_w(*l), &h, 500 + j, k), &inp, &Value::new(&bn(2_000_000)));
                b.add_regular_input(&key_addr(50 + j as u64), &inp, &Value::new(&bn(2_000_000))).map_err(e)?;
            }
            for (j, nb) in nat.iter().enumerate() {
                let (_, src) = nat_src(nb)?;
                b.add_native_script_input(&src, &TransactionInput::new(&h32(txid), 6000 + j as u32), &Value::new(&bn(2_000_000)));
            }
            if k == 0 {
                // the funding input sorts after every script input
                b.add_regular_input(&key_addr(0), &TransactionInput::new(&h32(0xff), 0), &Value::new(&bn(4_000_000_000_000_000_000))).map_err(e)?;
            } else {
                let extra_inputs = (0..stale.len()).filter(|j| !(j % 2 == 1 && *j < ws.len())).count();
                let nkeys = (ncol as usize).saturating_sub(ws.len() + extra_inputs + nat.len());
                for j in 0..nkeys { b.add_regular_input(&key_addr(1 + j as u64), &TransactionInput::new(&h32(0x11), 1000 + j as u32), &Value::new(&bn(10_000_000))).map_err(e)?; }
            }
            let got = b.get_plutus_input_scripts().unwrap_or(PlutusWitnesses::new());
            let rb = read_back(ctx, &got, ws, 0)?;
            let nb = b.get_native_input_scripts().map(|x| nat_bytes(&x)).unwrap_or(vec![]);
            Ok((Built::Inputs(b), rb, nb))
        }
        2 => {
            let mut b = MintBuilder::new();
            for (pos, w) in ws.iter().enumerate() {
                if w.dat != Dat::None { return Err("mint witnesses have no datum".into()); }
                let h = script_hash_of(ctx, w, &mut prev, pos, true);
                let red = Redeemer::new(&RedeemerTag::new_mint(), &bn(0), &ctx.pool[w.d].obj, &ExUnits::new(&bn(w.mem), &bn(w.steps)));
                let src = match &w.src {
                    Src::Inline(i) => PlutusScriptSource::new(&ctx.scripts[*i]),
                    Src::Ref(l) => PlutusScriptSource::new_ref_input(&h, &TransactionInput::new(&h32(0xa2), pos as u32), &lang_of(*l), 40 + pos),
                };
                b.add_asset(&MintWitness::new_plutus_script(&src, &red), &AssetName::new(vec![b't', pos as u8]).unwrap(), &Int::new_i32(1 + pos as i32)).map_err(e)?;
            }
            for (j, nb) in nat.iter().enumerate() {
                let (_, src) = nat_src(nb)?;
                b.add_asset(&MintWitness::new_native_script(&src), &AssetName::new(vec![b'n', j as u8]).unwrap(), &Int::new_i32(1 + j as i32)).map_err(e)?;
            }
            let rb = read_back(ctx, &b.get_plutus_witnesses(), ws, 1)?;
            let nb = nat_bytes(&b.get_native_scripts());
            Ok((Built::Mint(b), rb, nb))
        }
        3 => {
            let mut b = CertificatesBuilder::new();
            let n = ws.iter().map(|w| w.index + 1).max().unwrap_or(0);
            let mut wi = 0usize;
            for i in 0..n {
                let pool = Ed25519KeyHash::from_bytes(h28(0x03, i)).unwrap();
                if let Some(w) = ws.iter().find(|w| w.index == i) {
                    let h = script_hash_of(ctx, w, &mut prev, i as usize, false);
                    let cert = Certificate::new_stake_delegation(&StakeDelegation::new(&Credential::from_scripthash(&h), &pool));
                    b.add_with_plutus_witness(&cert, &mk_witness(ctx, w, &h, i as usize, k)).map_err(e)?;
                    wi += 1;
                } else {
                    let cert = Certificate::new_stake_delegation(&StakeDelegation::new(&Credential::from_keyhash(&Ed25519KeyHash::from_bytes(h28(0x04, i)).unwrap()), &pool));
                    b.add(&cert).map_err(e)?;
                }
            }
            if wi != ws.len() { return Err("certificate indices repeat".into()); }
            for (j, nb) in nat.iter().enumerate() {
                let (n, src) = nat_src(nb)?;
                let cert = Certificate::new_stake_delegation(&StakeDelegation::new(&Credential::from_scripthash(&n.hash()), &Ed25519KeyHash::from_bytes(h28(0x13, j as u64)).unwrap()));
                b.add_with_native_script(&cert, &src).map_err(e)?;
            }
            let rb = read_back(ctx, &b.get_plutus_witnesses(), ws, 2)?;
            let nb = nat_bytes(&b.get_native_scripts());
            Ok((Built::Certs(b), rb, nb))
        }
        4 => {
            let mut b = WithdrawalsBuilder::new();
            for (pos, w) in ws.iter().enumerate() {
                let h = script_hash_of(ctx, w, &mut prev, pos, true);
                let addr = RewardAddress::new(0, &Credential::from_scripthash(&h));
                b.add_with_plutus_witness(&addr, &bn(1000 + pos as u64), &mk_witness(ctx, w, &h, pos, k)).map_err(e)?;
            }
            for (j, nb) in nat.iter().enumerate() {
                let (n, src) = nat_src(nb)?;
                b.add_with_native_script(&RewardAddress::new(0, &Credential::from_scripthash(&n.hash())), &bn(2000 + j as u64), &src).map_err(e)?;
            }
            let rb = read_back(ctx, &b.get_plutus_witnesses(), ws, 3)?;
            let nb = nat_bytes(&b.get_native_scripts());
            Ok((Built::Wdrl(b), rb, nb))
        }
        5 => {
            let mut b = VotingBuilder::new();
            for (pos, w) in ws.iter().enumerate() {
                let h = script_hash_of(ctx, w, &mut prev, pos, true);
                let voter = Voter::new_drep_credential(&Credential::from_scripthash(&h));
                b.add_with_plutus_witness(&voter, &GovernanceActionId::new(&h32(0x55), pos as u32), &VotingProcedure::new(VoteKind::Yes), &mk_witness(ctx, w, &h, pos, k)).map_err(e)?;
            }
            for (j, nb) in nat.iter().enumerate() {
                let (n, src) = nat_src(nb)?;
                b.add_with_native_script(&Voter::new_drep_credential(&Credential::from_scripthash(&n.hash())), &GovernanceActionId::new(&h32(0x56), j as u32), &VotingProcedure::new(VoteKind::No), &src).map_err(e)?;
            }
            let rb = read_back(ctx, &b.get_plutus_witnesses(), ws, 4)?;
            let nb = nat_bytes(&b.get_native_scripts());
            Ok((Built::Votes(b), rb, nb))
        }
        _ => {
            let mut b = VotingProposalBuilder::new();
            for (pos, w) in ws.iter().enumerate() {
                let h = script_hash_of(ctx, w, &mut prev, pos, false);
                let anchor = Anchor::new(&URL::new(format!("https://p.example/{:04}", pos)).unwrap(), &AnchorDataHash::from_bytes(vec![7u8; 32]).unwrap());
                let acct = RewardAddress::new(0, &Credential::from_keyhash(&Ed25519KeyHash::from_bytes(h28(0x06, 0)).unwrap()));
                let prop = VotingProposal::new(&GovernanceAction::new_info_action(&InfoAction::new()), &anchor, &acct, &bn(0));
                b.add_with_plutus_witness(&prop, &mk_witness(ctx, w, &h, pos, k)).map_err(e)?;
            }
            let rb = read_back(ctx, &b.get_plutus_witnesses(), ws, 5)?;
            Ok((Built::Props(b), rb, vec![]))
        }
    }
}

fn base_inputs() -> TxInputsBuilder {
    let mut b = TxInputsBuilder::new();
    b.add_regular_input(&key_addr(0), &TransactionInput::new(&h32(0xff), 0), &Value::new(&bn(4_000_000_000_000_000_000))).unwrap();
    b
}
fn mk_metadata(md: &[(u64, Vec<u8>)]) -> Result<GeneralTransactionMetadata, String> {
    let mut g = GeneralTransactionMetadata::new();
    for (l, b) in md {
        let m = TransactionMetadatum::from_bytes(b.clone()).map_err(|_| "metadatum does not decode".to_string())?;
        if &m.to_bytes() != b { return Err("metadatum bytes differ".into()); }
        if g.get(&bn(*l)).is_some() { return Err("metadata labels repeat".into()); }
        g.insert(&bn(*l), &m);
    }
    Ok(g)
}

fn run_builder(t: &[String]) -> String {
    let mut p = P { t, i: 1 };
    let pool = match parse_pool(&mut p) { Ok(x) => x, Err(e) => return format!("stale-case:{}", e.replace(' ', "_")) };
    p.expect("S");
    let ns = p.count();
    let scripts: Vec<PlutusScript> = (0..ns).map(|_| { let l = p.num(); PlutusScript::new_with_version(unhex_or_dash(p.next()), &lang_of(l)) }).collect();
    let ops = parse_ops(&mut p);
    let ctx = Ctx { pool, scripts };
    let cfg = TransactionBuilderConfigBuilder::new()
        .fee_algo(&LinearFee::new(&bn(44), &bn(155381)))
        .pool_deposit(&bn(500_000_000)).key_deposit(&bn(2_000_000))
        .max_value_size(50_000).max_tx_size(u32::MAX)
        .coins_per_utxo_byte(&bn(4310))
        .ex_unit_prices(&ExUnitPrices::new(&UnitInterval::new(&bn(577), &bn(10_000)), &UnitInterval::new(&bn(721), &bn(10_000_000))))
        .ref_script_coins_per_byte(&UnitInterval::new(&bn(15), &bn(1)))
        .build().unwrap();
    let mut tb = TransactionBuilder::new(&cfg);
    tb.set_inputs(&base_inputs());
    let mut flags = String::new();
    for o in &ops {
        match o {
            Op::Sub(k, ncol, ws, stale, nat) => {
                let (b, rb, nb) = match build_sub(&ctx, *k, *ncol, ws, stale, nat) { Ok(x) => x, Err(e) => return format!("stale-case:{}", e.replace(' ', "_")) };
                if &rb != ws { return "stale-case:getter_returns_another_list".to_string(); }
                if &nb != nat { return "stale-case:native_getter_returns_another_list".to_string(); }
                match b {
                    Built::Inputs(x) => if *k == 0 { tb.set_inputs(&x) } else { tb.set_collateral(&x) },
                    Built::Mint(x) => tb.set_mint_builder(&x),
                    Built::Certs(x) => tb.set_certs_builder(&x),
                    Built::Wdrl(x) => tb.set_withdrawals_builder(&x),
                    Built::Votes(x) => tb.set_voting_builder(&x),
                    Built::Props(x) => tb.set_voting_proposal_builder(&x),
                }
            }
            Op::Extra(i) => tb.add_extra_witness_datum(&ctx.pool[*i].obj),
            Op::Calc(cm) => flags.push(if tb.calc_script_data_hash(&cm.build()).is_ok() { '1' } else { '0' }),
            Op::SetHash(h) => tb.set_script_data_hash(&ScriptDataHash::from_bytes(h.clone()).unwrap()),
            Op::RmHash => tb.remove_script_data_hash(),
            Op::SetAux(a) => {
                let mut aux = AuxiliaryData::new();
                if let Some(md) = &a.md { match mk_metadata(md) { Ok(g) => aux.set_metadata(&g), Err(e) => return format!("stale-case:{}", e.replace(' ', "_")) } }
                if let Some(nb) = &a.native {
                    match NativeScripts::from_bytes(nb.clone()) {
                        Ok(ns) => { if &ns.to_bytes() != nb { return "stale-case:native_scripts_bytes_differ".to_string(); } aux.set_native_scripts(&ns) }
                        Err(_) => return "stale-case:native_scripts_do_not_decode".to_string(),
                    }
                }
                if let Some(ix) = &a.plutus { let mut ps = PlutusScripts::new(); for i in ix { ps.add(&ctx.scripts[*i]); } aux.set_plutus_scripts(&ps); }
                aux.set_prefer_alonzo_format(a.alonzo);
                tb.set_auxiliary_data(&aux);
            }
            Op::RmAux => tb.remove_auxiliary_data(),
            Op::SetMd(md) => match mk_metadata(md) { Ok(g) => tb.set_metadata(&g), Err(e) => return format!("stale-case:{}", e.replace(' ', "_")) },
            Op::AddJson(l, sc, j, b) => {
                let schema = match sc { 0 => MetadataJsonSchema::NoConversions, 1 => MetadataJsonSchema::BasicConversions, _ => MetadataJsonSchema::DetailedSchema };
                match encode_json_str_to_metadatum(j.clone(), schema) {
                    Ok(m) => if &m.to_bytes() != b { return "stale-case:json_converts_to_other_bytes".to_string(); },
                    Err(_) => return "stale-case:json_does_not_convert".to_string(),
                }
                if *sc == 0 && b.len() % 2 == 0 { if tb.add_json_metadatum(&bn(*l), j.clone()).is_err() { return "harness-error:add_json_metadatum".to_string(); } }
                else if tb.add_json_metadatum_with_schema(&bn(*l), j.clone(), schema).is_err() { return "harness-error:add_json_metadatum".to_string(); }
            }
            Op::SetAuxW(w) => {
                // components must survive the library's own round trip for the wire description to be what the decoder sees
                let mds: Vec<&Vec<(u64, Vec<u8>)>> = match w { Wire::S(m) | Wire::M(m, _) => vec![m], Wire::A(m, _, _) => m.iter().collect() };
                for md in mds { for (_, b) in md { match TransactionMetadatum::from_bytes(b.clone()) { Ok(m) => if &m.to_bytes() != b { return "stale-case:metadatum_bytes_differ".to_string(); }, Err(_) => return "stale-case:metadatum_does_not_decode".to_string() } } }
                let nss: Option<&Vec<u8>> = match w { Wire::M(_, n) => Some(n), Wire::A(_, n, _) => n.as_ref(), _ => None };
                if let Some(nb) = nss { match NativeScripts::from_bytes(nb.clone()) { Ok(ns) => if &ns.to_bytes() != nb { return "stale-case:native_scripts_bytes_differ".to_string(); }, Err(_) => return "stale-case:native_scripts_do_not_decode".to_string() } }
                if let Ok(aux) = AuxiliaryData::from_bytes(enc_wire(w)) { tb.set_auxiliary_data(&aux); }
            }
            Op::AddMd(l, b) => {
                let m = match TransactionMetadatum::from_bytes(b.clone()) { Ok(m) => m, Err(_) => return "stale-case:metadatum_does_not_decode".to_string() };
                if &m.to_bytes() != b { return "stale-case:metadatum_bytes_differ".to_string(); }
                tb.add_metadatum(&bn(*l), &m);
            }
        }
    }
    let fl = if flags.is_empty() { "-".to_string() } else { flags };
    // balance (outputs and fee only), then build
    if let Err(e) = tb.add_change_if_needed(&key_addr(9)) { return format!("harness-error:add_change:{}", e.to_string().replace(' ', "_")); }
    match tb.build_tx() {
        Ok(tx) => {
            let body = tx.body();
            format!("ok c={} sdh={} auxh={} ws={} aux={} tx={}", fl,
                body.script_data_hash().map(|h| hex::encode(h.to_bytes())).unwrap_or("~".into()),
                body.auxiliary_data_hash().map(|h| hex::encode(h.to_bytes())).unwrap_or("~".into()),
                hex_or_dash(&tx.witness_set().to_bytes()),
                tx.auxiliary_data().map(|a| hex::encode(a.to_bytes())).unwrap_or("~".into()),
                hex::encode(tx.to_bytes()))
        }
        Err(e) => { if std::env::var("C09_DEBUG").is_ok() { eprintln!("build_tx error: {}", e.to_string()); } format!("err c={}", fl) }
    }
}

fn run_case(t: &[String]) -> String {
    let toks: Vec<String> = t.to_vec();
    guarded(move || if toks[0].starts_with('h') { run_helper(&toks) } else { run_builder(&toks) })
}

// ------------------------------------------------------------------ generators

fn gen_reds(r: &mut Rng, pool: &[PoolItem], k: usize) -> String {
    let mut s = String::new();
    let mut prevs: Vec<String> = Vec::new();
    for _ in 0..k {
        let one = if !prevs.is_empty() && r.chance(1, 8) { prevs[r.below(prevs.len() as u64) as usize].clone() }
                  else { format!(" {} {} {} {} {}", r.below(6), if r.chance(1, 3) { r.u64_edge() } else { r.below(5) }, r.below(pool.len() as u64), r.u64_edge(), r.u64_edge()) };
        prevs.push(one.clone());
        s += &one;
    }
    s
}
fn gen_helper(r: &mut Rng, stream: &str) -> String {
    let npool = r.range(2, 7) as usize;
    let pool = gen_pool(r, npool);
    let o_items: Vec<usize> = (0..pool.len()).filter(|i| pool[*i].flag == 'o').collect();
    let pick_o = |r: &mut Rng| if o_items.is_empty() { 0 } else { o_items[r.below(o_items.len() as u64) as usize] };
    let all = |r: &mut Rng| r.below(pool.len() as u64) as usize;
    let mut fmt = *r.pick(&["n", "n", "m", "a"]);
    let mut k = r.range(1, 4) as usize;
    let sub0 = subset(r);
    let mut cm = gen_cm(r, &sub0);
    let mut list: Option<(char, Vec<usize>)> = match r.below(6) {
        0 => None,
        1 => Some(('n', (0..r.below(5)).map(|_| all(r)).collect())),
        2 => Some(('t', (0..r.below(5)).map(|_| pick_o(r)).collect())),
        3 => Some(('f', (0..r.below(5)).map(|_| pick_o(r)).collect())),
        4 => Some((*r.pick(&['T', 'F']), (0..r.below(5)).map(|_| pick_o(r)).collect())),
        _ => Some(('n', (0..r.range(1, 6)).map(|_| all(r)).collect())),
    };
    match stream {
        "dupdef" => { let a = pick_o(r); let b = pick_o(r); let mut v = vec![a, b, a]; if r.chance(1, 2) { v.push(b); } if r.chance(1, 2) { v.insert(0, pick_o(r)); } list = Some((*r.pick(&['t', 'T']), v)); }
        "eqvalue" => { // value-equal datums written differently, in a list of every kind
            let pairs: Vec<(usize, usize)> = (0..pool.len()).flat_map(|i| (0..i).map(move |j| (j, i))).filter(|(j, i)| pool[*j].obj == pool[*i].obj && pool[*j].bytes != pool[*i].bytes).collect();
            if let Some((a, b)) = pairs.get(0).cloned() {
                let both_o = pool[a].flag == 'o' && pool[b].flag == 'o';
                let f = if both_o { *r.pick(&['n', 't', 'f', 'T']) } else { 'n' };
                let mut v = if r.chance(1, 2) { vec![a, b] } else { vec![b, a] }; if r.chance(1, 2) { v.push(a); }
                list = Some((f, v));
            }
        }
        "dupindef" => { let a = all(r); let b = all(r); list = Some(('n', vec![a, b, a, a])); }
        "dupindefdec" => { let a = pick_o(r); let b = pick_o(r); list = Some((*r.pick(&['f', 'F']), vec![a, b, a])); }
        "emptysome" => { list = Some((*r.pick(&['n', 't', 'f']), vec![])); }
        "noreddatums" => { k = 0; fmt = *r.pick(&["n", "m"]); cm = Cm(vec![]); list = Some(('n', (0..r.range(1, 4)).map(|_| all(r)).collect())); }
        "nored" => { k = 0; fmt = *r.pick(&["n", "m"]); list = None; }
        "noredquirk" => { k = 0; if r.chance(1, 2) { fmt = "a"; } else { let l0 = r.below(3); cm = gen_cm(r, &[l0]); list = Some(('n', vec![all(r)])); } }
        "langs" => { let pick = r.below(8); cm = gen_cm(r, &match pick { 0 => vec![], 1 => vec![0], 2 => vec![1], 3 => vec![2], 4 => vec![0, 1], 5 => vec![0, 2], 6 => vec![1, 2], _ => vec![0, 1, 2] }); }
        _ => {}
    }
    // decoded lists need items that keep their original bytes
    if o_items.is_empty() { if let Some((f, v)) = &list { if *f != 'n' { list = Some(('n', v.clone())); } } }
    let mut s = format!("h:{} {} R {} {}{}", stream, pool_to_string(&pool), fmt, k, gen_reds(r, &pool, k));
    s += &format!(" CM {} L", cm.to_string());
    match &list { None => s += " ~", Some((f, v)) => { s += &format!(" {} {}", f, v.len()); for i in v { s += &format!(" {}", i); } } }
    if r.chance(1, 4) {
        // key and bootstrap witnesses next to the script data (fields 0 and 2 of the emitted witness set)
        let sk = PrivateKey::from_normal_bytes(&[7u8; 32]).unwrap();
        let vkey = Vkey::new(&sk.to_public());
        let sig = Ed25519Signature::from_bytes(r.bytes(64)).unwrap();
        let v = if r.chance(2, 3) { let mut x = Vkeywitnesses::new(); x.add(&Vkeywitness::new(&vkey, &sig)); Some(x.to_bytes()) } else { None };
        let b = if r.chance(1, 2) { let mut x = BootstrapWitnesses::new(); x.add(&BootstrapWitness::new(&vkey, &sig, r.bytes(32), vec![0xa0])); Some(x.to_bytes()) } else { None };
        s += &format!(" V {} B {}", v.map(|x| hex::encode(x)).unwrap_or("~".into()), b.map(|x| hex::encode(x)).unwrap_or("~".into()));
    }
    s
}

fn gen_script(r: &mut Rng) -> (u64, Vec<u8>) { let k = r.range(1, 40) as usize; (r.below(3), r.bytes(k)) }
fn gen_metadatum(r: &mut Rng) -> Vec<u8> {
    match r.below(5) {
        0 => TransactionMetadatum::new_int(&Int::new_i32(r.below(1000) as i32 - 500)).to_bytes(),
        1 => TransactionMetadatum::new_text(format!("m{}", r.below(100000))).unwrap().to_bytes(),
        2 => { let k = r.range(0, 40) as usize; TransactionMetadatum::new_bytes(r.bytes(k)).unwrap().to_bytes() }
        3 => { let mut l = MetadataList::new(); for _ in 0..r.below(3) { l.add(&TransactionMetadatum::new_int(&Int::new(&bn(r.u64_edge())))); } TransactionMetadatum::new_list(&l).to_bytes() }
        _ => { let mut m = MetadataMap::new(); for i in 0..r.below(3) { m.insert(&TransactionMetadatum::new_int(&Int::new_i32(i as i32)), &TransactionMetadatum::new_text("v".to_string()).unwrap()); } TransactionMetadatum::new_map(&m).to_bytes() }
    }
}
fn gen_md(r: &mut Rng, k: usize) -> Vec<(u64, Vec<u8>)> {
    let mut labels: Vec<u64> = Vec::new();
    while labels.len() < k { let l = if r.chance(1, 3) { r.u64_edge() } else { r.below(8) }; if !labels.contains(&l) { labels.push(l); } }
    labels.into_iter().map(|l| (l, gen_metadatum(r))).collect()
}
fn gen_native(r: &mut Rng) -> Vec<u8> {
    let mut ns = NativeScripts::new();
    for i in 0..r.below(3) { ns.add(&NativeScript::new_script_pubkey(&ScriptPubkey::new(&Ed25519KeyHash::from_bytes(h28(0x77, i + r.below(3))).unwrap()))); }
    ns.to_bytes()
}
fn gen_aux(r: &mut Rng, nscripts: usize) -> AuxD {
    let md = if r.chance(3, 4) { let k = r.below(4) as usize; Some(gen_md(r, k)) } else { None };
    let native = if r.chance(1, 3) { Some(gen_native(r)) } else { None };
    let plutus = if nscripts > 0 && r.chance(1, 3) { Some((0..r.below(4)).map(|_| r.below(nscripts as u64) as usize).collect()) } else { None };
    AuxD { md, native, plutus, alonzo: r.chance(1, 3) }
}

fn gen_json(r: &mut Rng) -> (u64, String) {
    match r.below(6) {
        0 => (0, format!("{{\"k{}\":{},\"t\":\"v{}\"}}", r.below(9), r.below(1000), r.below(9))),
        1 => (0, format!("[{},\"x\",{}]", r.below(100), r.below(100))),
        2 => (1, format!("\"0x{}\"", hex::encode(r.bytes(4)))),
        3 => (1, format!("{{\"{}\":\"0x{}\"}}", r.below(50), hex::encode(r.bytes(3)))),
        4 => (2, format!("{{\"int\":{}}}", r.below(100000))),
        _ => (2, format!("{{\"list\":[{{\"int\":{}}},{{\"string\":\"s\"}}]}}", r.below(10))),
    }
}
fn gen_wire(r: &mut Rng, scripts: &[(u64, Vec<u8>)]) -> Wire {
    let k = r.below(4) as usize;
    let mut md = gen_md(r, k);
    if k > 1 && r.chance(1, 10) { md[1].0 = md[0].0; }                 // a repeated label: decoding fails, nothing is set
    let bytes_of = |r: &mut Rng| -> Option<Vec<Vec<u8>>> { match r.below(4) { 0 => None, 1 => Some(vec![]), _ => Some((0..r.range(1, 2)).map(|_| scripts[r.below(scripts.len() as u64) as usize].1.clone()).collect()) } };
    match r.below(5) {
        0 => Wire::S(md),
        1 => Wire::M(md, gen_native(r)),
        _ => Wire::A(if r.chance(3, 4) { Some(md) } else { None }, if r.chance(1, 2) { Some(gen_native(r)) } else { None }, [bytes_of(r), bytes_of(r), bytes_of(r)]),
    }
}
/// One candidate witness list for sub-builder k (before normalisation through the real sub-builder).
fn gen_sub(r: &mut Rng, k: u64, n: usize, npool: usize, scripts: &[(u64, Vec<u8>)], steps0: &mut u64) -> Vec<W> {
    let mut ws: Vec<W> = Vec::new();
    let mut used_inline: Vec<usize> = Vec::new();
    for pos in 0..n {
        let src = if !scripts.is_empty() && r.chance(2, 3) {
            let mut i = r.below(scripts.len() as u64) as usize;
            // the sub-builders keyed by script hash (mint, withdrawals, votes) hold one entry per script
            if k == 2 || k == 4 || k == 5 { let mut tries = 0; while used_inline.contains(&i) && tries < 8 { i = r.below(scripts.len() as u64) as usize; tries += 1; } if used_inline.contains(&i) { continue; } }
            used_inline.push(i);
            Src::Inline(i)
        } else { Src::Ref(r.below(3)) };
        let dat = if k == 2 { Dat::None } else { match r.below(4) { 0 => Dat::None, 1 => Dat::Ref, _ => Dat::Val(r.below(npool as u64) as usize) } };
        *steps0 += 1 + r.below(3);
        ws.push(W { src, dat, index: pos as u64, d: r.below(npool as u64) as usize, mem: r.u64_edge() >> r.range(34, 50), steps: *steps0 });   // fee stays below 2^32 (the 9-byte fee field is property C06)
    }
    if k == 0 || k == 1 { // outpoint indices: a permutation
        let m = ws.len();
        let mut perm: Vec<u64> = (0..m as u64).collect();
        for i in (1..m).rev() { let j = r.below(i as u64 + 1) as usize; perm.swap(i, j); }
        for (w, ix) in ws.iter_mut().zip(perm) { w.index = ix; }
    }
    if k == 3 && r.chance(1, 2) { // certificates without a script in between
        let mut at = 0u64;
        for w in ws.iter_mut() { at += r.below(3); w.index = at; at += 1; }
    }
    ws
}
/// Normalises a candidate list through the real sub-builder: the case holds what the getter returns.
fn normalise(ctx: &Ctx, k: u64, ncol: u64, ws: &[W], stale: &[u64], nat: &[Vec<u8>]) -> Option<(Vec<W>, Vec<Vec<u8>>)> {
    let (_, rb, nb) = build_sub(ctx, k, ncol, ws, stale, nat).ok()?;
    let (_, rb2, nb2) = build_sub(ctx, k, ncol, &rb, stale, &nb).ok()?;
    if rb2 == rb && nb2 == nb { Some((rb, nb)) } else { None }
}
fn gen_native_script(r: &mut Rng) -> Vec<u8> {
    let k = Ed25519KeyHash::from_bytes(h28(0x70, r.below(4))).unwrap();
    match r.below(3) {
        0 => NativeScript::new_script_pubkey(&ScriptPubkey::new(&k)).to_bytes(),
        1 => NativeScript::new_timelock_start(&TimelockStart::new_timelockstart(&bn(r.below(3)))).to_bytes(),
        _ => { let mut l = NativeScripts::new(); l.add(&NativeScript::new_script_pubkey(&ScriptPubkey::new(&k))); NativeScript::new_script_all(&ScriptAll::new(&l)).to_bytes() }
    }
}

fn gen_builder(r: &mut Rng, stream: &str) -> Option<String> {
    let npool = r.range(3, 8) as usize;
    let npairs = r.range(1, 3) as usize;
    let pool = if stream == "eqvalue" { gen_pool_pairs(r, npairs) } else { gen_pool(r, npool) };
    let nscripts = r.range(1, 4) as usize;
    let mut scripts: Vec<(u64, Vec<u8>)> = (0..nscripts).map(|_| gen_script(r)).collect();
    if r.chance(1, 3) { let s = scripts[0].clone(); scripts.push(s); }                       // the same script twice in the pool
    if r.chance(1, 4) { let s = scripts[0].clone(); scripts.push(((s.0 + 1) % 3, s.1)); }    // same bytes, other language
    let ctx = Ctx { pool: pool.clone(), scripts: scripts.iter().map(|(l, b)| PlutusScript::new_with_version(b.clone(), &lang_of(*l))).collect() };
    let np = pool.len();
    let mut steps0 = 1000u64;
    let mut subs: Vec<Op> = Vec::new();
    let which: Vec<u64> = match stream {
        "spend" | "stalelang" => vec![0],
        "eqvalue" => if r.chance(3, 4) { vec![0] } else { vec![] },
        "extra" | "aux" | "auxflip" | "auxwire" => vec![],
        "refonly" => vec![0, 2],
        _ => (0..7u64).filter(|k| *k == 0 || *k == 1 || r.chance(1, 2)).collect(),
    };
    let mut langs: Vec<u64> = Vec::new();
    let native_pool: Vec<Vec<u8>> = (0..3).map(|_| gen_native_script(r)).collect();
    for k in &which {
        if *k == 1 { continue; }
        let n = if *k == 0 { r.range(1, 4) } else { r.range(1, 3) } as usize;
        let mut cand = gen_sub(r, *k, n, np, if stream == "refonly" { &[] } else { &scripts }, &mut steps0);
        if stream == "dupdatum" && *k == 0 { let d = r.below(np as u64) as usize; for w in cand.iter_mut() { w.dat = Dat::Val(d); } }
        if stream == "eqvalue" && *k == 0 {
            // witness datums (and redeemer data) out of the value-equal pairs; sometimes no witness datum at all
            for w in cand.iter_mut() {
                let pi = r.below(npairs as u64) as usize;
                w.dat = if r.chance(1, 4) { Dat::None } else { Dat::Val(2 * pi + r.below(2) as usize) };
                if r.chance(1, 2) { w.d = 2 * (r.below(npairs as u64) as usize) + r.below(2) as usize; }
            }
        }
        // stale witnesses (inputs only here): an input added with a Plutus witness, then again as a key input
        let stale: Vec<u64> = if *k == 0 && (stream == "stalelang" || r.chance(1, 12)) { (0..r.range(1, 2)).map(|_| r.below(3)).collect() } else { vec![] };
        if stream == "stalelang" && *k == 0 && r.chance(1, 2) { cand.clear(); }
        // native scripts next to the Plutus ones (a small shared pool, so that the same script comes from several sub-builders)
        let nat: Vec<Vec<u8>> = if *k != 6 && (stream == "native" || r.chance(1, 6)) { (0..r.range(1, 2)).map(|_| native_pool[r.below(native_pool.len() as u64) as usize].clone()).collect() } else { vec![] };
        let mut nat = nat; nat.dedup();
        if *k != 0 && *k != 1 { let mut seen: Vec<Vec<u8>> = Vec::new(); nat.retain(|x| if seen.contains(x) { false } else { seen.push(x.clone()); true }); }
        let (ws, nat) = normalise(&ctx, *k, 0, &cand, &stale, &nat)?;
        for w in &ws { let l = match &w.src { Src::Inline(i) => scripts[*i].0, Src::Ref(l) => *l }; if !langs.contains(&l) { langs.push(l); } }
        for l in &stale { if !langs.contains(l) { langs.push(*l); } }
        subs.push(Op::Sub(*k, 0, ws, stale, nat));
    }
    // collateral: key inputs, sometimes a Plutus witness that repeats a spend witness (same redeemer after re-tagging)
    let mut ncol = if stream == "nocollateral" { 0 } else { r.range(1, 3) };
    let mut colw: Vec<W> = Vec::new();
    if (stream == "colplutus" || r.chance(1, 12)) && ncol > 0 {
        // Plutus witnesses of their own on collateral inputs (calc_script_data_hash and get_witness_set both visit the collateral builder)
        let n = r.range(1, 2) as usize;
        let cand = gen_sub(r, 1, n, np, &scripts, &mut steps0);
        if let Some((ws, _)) = normalise(&ctx, 1, ncol.max(n as u64), &cand, &[], &[]) { colw = ws; }
        for w in &colw { let l = match &w.src { Src::Inline(i) => scripts[*i].0, Src::Ref(l) => *l }; if !langs.contains(&l) { langs.push(l); } }
    } else if (stream == "dupred" || r.chance(1, 10)) && ncol > 0 {
        if let Some(Op::Sub(0, _, ws, _, _)) = subs.iter().find(|o| matches!(o, Op::Sub(0, _, _, _, _))) {
            if let Some(w) = ws.iter().find(|w| w.index == 0) { colw.push(w.clone()); }
        }
        if let Some((ws, _)) = normalise(&ctx, 1, ncol, &colw, &[], &[]) { colw = ws; } else { colw.clear(); }
        for w in &colw { let l = match &w.src { Src::Inline(i) => scripts[*i].0, Src::Ref(l) => *l }; if !langs.contains(&l) { langs.push(l); } }
    }
    if ncol < colw.len() as u64 { ncol = colw.len() as u64; }
    let colnat: Vec<Vec<u8>> = if stream == "native" && ncol > 0 && r.chance(1, 2) { vec![native_pool[0].clone()] } else { vec![] };
    if ncol < (colw.len() + colnat.len()) as u64 { ncol = (colw.len() + colnat.len()) as u64; }
    if which.contains(&1) || stream == "nocollateral" || !subs.is_empty() { subs.push(Op::Sub(1, ncol, colw, vec![], colnat)); }
    let nextra = match stream { "extra" => r.range(1, 4), "spend" | "dupdatum" => r.below(3), _ => if r.chance(1, 2) { r.below(3) } else { 0 } };
    for _ in 0..nextra { subs.push(Op::Extra(r.below(np as u64) as usize)); }
    if stream == "eqvalue" {
        // extra datums value-equal to (but written differently from) datums already there, in both orders
        for pi in 0..npairs {
            match r.below(4) {
                0 => subs.push(Op::Extra(2 * pi)),
                1 => subs.push(Op::Extra(2 * pi + 1)),
                _ => { let first = r.below(2) as usize; subs.push(Op::Extra(2 * pi + first)); subs.push(Op::Extra(2 * pi + 1 - first)); if r.chance(1, 3) { subs.push(Op::Extra(2 * pi + first)); } }
            }
        }
    }
    // any order of the additions
    for i in (1..subs.len()).rev() { let j = r.below(i as u64 + 1) as usize; subs.swap(i, j); }
    // the cost-model table: the used languages plus, sometimes, unused ones
    let mut table: Vec<u64> = langs.clone();
    for l in 0..3u64 { if !table.contains(&l) && r.chance(1, 3) { table.push(l); } }
    if stream == "missingcm" && !langs.is_empty() { let drop = langs[r.below(langs.len() as u64) as usize]; table.retain(|l| *l != drop); }
    let cm = gen_cm(r, &table);
    let mut ops: Vec<Op> = Vec::new();
    match stream {
        "stale" => { // an item is added after the hash was computed
            let cut = r.below(subs.len() as u64) as usize;
            let tail: Vec<Op> = subs.split_off(cut.min(subs.len().saturating_sub(1)));
            ops.extend(subs); ops.push(Op::Calc(cm.clone())); ops.extend(tail);
        }
        "nohash" => { ops.extend(subs); if r.chance(1, 2) { ops.push(Op::Calc(cm.clone())); ops.push(Op::RmHash); } }
        "sethash" => { ops.extend(subs); if r.chance(1, 2) { ops.push(Op::Calc(cm.clone())); } ops.push(Op::SetHash(r.bytes(32))); if r.chance(1, 3) { ops.push(Op::Calc(cm.clone())); } }
        "recalc" => { // compute early, add more, compute again (possibly with another table first)
            let cut = r.below(subs.len() as u64 + 1) as usize;
            let tail: Vec<Op> = subs.split_off(cut);
            ops.extend(subs); ops.push(Op::Calc(gen_cm(r, &[0, 1, 2]))); ops.extend(tail); ops.push(Op::Calc(cm.clone()));
        }
        "replaced" => { // Plutus items, calc (stores a hash), every Plutus-bearing sub-builder replaced by one without returned
                        // witnesses (stale registrations and native scripts may stay), calc again (a no-op when nothing is left), build
            let mut after: Vec<Op> = Vec::new();
            let keep_extra = r.chance(1, 4);
            for o in &subs {
                match o {
                    Op::Sub(k, n, ws, _st, nat) if !ws.is_empty() => {
                        let stale2: Vec<u64> = if *k == 0 && r.chance(2, 3) { vec![match &ws[0].src { Src::Inline(i) => scripts[*i].0, Src::Ref(l) => *l }] } else { vec![] };
                        let nat2: Vec<Vec<u8>> = if *k != 6 && r.chance(1, 3) { if nat.is_empty() { vec![native_pool[0].clone()] } else { nat.clone() } } else { vec![] };
                        if let Some((ws2, nat3)) = normalise(&ctx, *k, *n, &[], &stale2, &nat2) { after.push(Op::Sub(*k, *n, ws2, stale2, nat3)); } else { return None; }
                    }
                    _ => {}
                }
            }
            let mut first: Vec<Op> = subs.iter().filter(|o| keep_extra || !matches!(o, Op::Extra(_))).cloned().collect();
            if first.iter().all(|o| !matches!(o, Op::Sub(_, _, ws, _, _) if !ws.is_empty())) { return None; }
            ops.append(&mut first); ops.push(Op::Calc(cm.clone()));
            for i in (1..after.len()).rev() { let j = r.below(i as u64 + 1) as usize; after.swap(i, j); }
            ops.extend(after); ops.push(Op::Calc(cm.clone()));
        }
        "noopcalc" => { // a hash set by hand, then calc on a builder without script items: nothing changes
            ops.push(Op::SetHash(r.bytes(32))); ops.push(Op::Calc(cm.clone()));
        }
        _ => { ops.extend(subs); ops.push(Op::Calc(cm.clone())); }
    }
    // auxiliary data operations, in sequence, anywhere between the other operations
    let naux = if stream == "aux" { r.range(1, 5) } else if stream == "auxflip" || stream == "auxwire" { r.range(2, 4) } else if r.chance(1, 2) { r.range(1, 2) } else { 0 };
    let mut auxops: Vec<Op> = Vec::new();
    let mut last_set: Option<AuxD> = None;
    for i in 0..naux {
        let choice = if stream == "auxflip" { if i == 0 { 0 } else { *r.pick(&[6u64, 6, 6, 3, 7]) } }
                     else if stream == "auxwire" { *r.pick(&[8u64, 8, 8, 3, 6, 4]) }
                     else { r.below(10) };
        let o = match choice {
            0 | 1 => { let a = gen_aux(r, scripts.len()); last_set = Some(a.clone()); Op::SetAux(a) }
            2 => { let k = r.below(4) as usize; Op::SetMd(gen_md(r, k)) }
            3 | 4 => Op::AddMd(if r.chance(1, 2) { r.below(8) } else { r.u64_edge() }, gen_metadatum(r)),
            5 => Op::RmAux,
            6 => { // the same content with the other format preference (the emitted wire form changes, the content does not)
                let mut a = match &last_set { Some(a) => a.clone(), None => gen_aux(r, scripts.len()) };
                a.alonzo = !a.alonzo; last_set = Some(a.clone()); Op::SetAux(a) }
            7 => { let (sc, j) = gen_json(r); let b = encode_json_str_to_metadatum(j.clone(), match sc { 0 => MetadataJsonSchema::NoConversions, 1 => MetadataJsonSchema::BasicConversions, _ => MetadataJsonSchema::DetailedSchema }).unwrap().to_bytes();
                   Op::AddJson(r.below(8), sc, j, b) }
            _ => Op::SetAuxW(gen_wire(r, &scripts)),
        };
        auxops.push(o);
    }
    // merge, keeping the order of both lists
    let mut merged: Vec<Op> = Vec::new();
    let (mut i, mut j) = (0usize, 0usize);
    while i < ops.len() || j < auxops.len() {
        let take_aux = j < auxops.len() && (i >= ops.len() || r.chance(1, 2));
        if take_aux { merged.push(auxops[j].clone()); j += 1; } else { merged.push(ops[i].clone()); i += 1; }
    }
    let ops = merged;
    let mut s = format!("b:{} {} S {}", stream, pool_to_string(&pool), scripts.len());
    for (l, b) in &scripts { s += &format!(" {} {}", l, hex_or_dash(b)); }
    s += &format!(" OPS {}", ops.len());
    for o in &ops { s += " "; s += &op_to_string(o); }
    Some(s)
}

fn main() {
    silence_panics();
    let args: Vec<String> = std::env::args().collect();
    if args.len() >= 4 && args[1] == "run" {
        let mut out = String::new();
        for (idx, toks) in read_cases(&args[2]) { out += &format!("{} {}\n", idx, run_case(&toks)); }
        std::fs::write(&args[3], out).unwrap();
        return;
    }
    if args.len() >= 3 && args[1] == "gen" {
        let mut r = Rng::new(seed_from_env() ^ 0xC09C09);
        let mut out = Out::new(&args[2]);
        let scale = if is_thorough() { 10 } else { 1 };
        let hstreams = ["basic", "basic", "eqvalue", "dupdef", "dupindef", "dupindefdec", "emptysome", "noreddatums", "nored", "noredquirk", "langs", "langs"];
        for _ in 0..(40 * scale) { for s in hstreams.iter() {
            let line = gen_helper(&mut r, s);
            let toks: Vec<String> = line.split_whitespace().map(|x| x.to_string()).collect();
            out.emit(&line, &run_case(&toks));
        } }
        let bstreams = ["spend", "mix", "mix", "mix", "refonly", "extra", "dupdatum", "dupred", "colplutus", "eqvalue", "eqvalue", "eqvalue", "stalelang", "stalelang", "native", "native", "stale", "nohash", "nocollateral", "missingcm", "aux", "aux", "auxflip", "auxflip", "auxwire", "sethash", "recalc", "noopcalc", "replaced", "replaced", "replaced"];
        for _ in 0..(30 * scale) { for s in bstreams.iter() {
            if let Some(line) = gen_builder(&mut r, s) {
                let toks: Vec<String> = line.split_whitespace().map(|x| x.to_string()).collect();
                out.emit(&line, &run_case(&toks));
            }
        } }
        out.finish();
        return;
    }
    eprintln!("usage: c09 gen <dir> | c09 run <cases> <out>");
    std::process::exit(2);
}
