//! C08 correspondence harness: TransactionBuilder::add_inputs_from under the scripted RNG of hook H1.
//! `c08 gen <dir>` generates cases from VERIF_SEED / VERIF_TIER and runs the implementation;
//! `c08 run <cases> <out>` runs the implementation on given case lines (replay / corpus) and rewrites the case
//! file in normalised form (output keys and oracle answers recomputed from the code as it is now).
//!
//! Case line:
//!   <label> S <strategy 0..3> E <fee_coefficient> <fee_constant> <coins_per_utxo_byte> [R <n|e> <fee>]
//!                                       (R: fee request of the builder, n = set_min_fee, e = set_fee)
//!   O <n> {<id> <addr> <value>}*        offered UTxOs (TransactionUnspentOutputs, in order)
//!   P <n> {<id> <addr> <value>}*        regular inputs already in the builder
//!   I <coin>                            implicit input (one withdrawal of that amount; 0 = none)
//!   M <value>                           positive part of the mint
//!   T <n> {<key> <addr> <value>}*       builder outputs; <key> = index of the first output that is Ord-equal
//!   D <coin> B <value> N <coin|~>       certificate deposit, burnt assets, donation
//!   C <n> {<u64>}*                      H1 script: the k-th draw gen_range(0..m) returns (k-th element) mod m
//!   Q <n> {m <k> <ids…> <fee|err> | f <k> <ids…> <cand> <fee|err>}*
//!                                       oracle: min_fee() of the builder holding exactly the inputs <ids…>,
//!                                       fee_for_input(<cand>) on that builder (answers of the real code)
//!   <value> = <coin> ~ | <coin> <k> {<policy hex> <asset name hex> <quantity>}*   (~ : multiasset None)
//!   <addr>  = r (a reward address: add_regular_utxo rejects it) | <n> (enterprise key address number n)
//!   <strategy>: 0 LargestFirst, 1 RandomImprove, 2 LargestFirstMultiAsset, 3 RandomImproveMultiAsset
//! <id> stands for an outpoint: transaction hash = id (8 bytes big endian) followed by 24 bytes 0x11, output index
//! OUT_INDEX[id mod 12] (all CBOR width classes).
//!
//! Result line: <ok|err:insufficient|err:other|panic|hang> I <n> <ids of the builder's inputs, ascending>
//!              X <get_explicit_input as value with only non-zero assets | err> F <min_fee() of the builder after success or reported insufficiency | err | ->
//!              G <outpoint added last by LargestFirst> <min_fee() of the builder without it> | -
//!              K <number of evaluations of the builder's fee estimate during the call (hook H5)>
//! The oracle entries a case needs are discovered by asking the extracted model (`c08_driver serve`) which entry it
//! misses and answering with the real builder's fee_for_input / min_fee, until the model runs through.
#![allow(deprecated)]
use cardano_serialization_lib::*;
use csl_verif_harness::util::*;
use std::collections::{BTreeMap, HashMap};
use std::io::{BufRead, BufReader, Write};
use std::process::{Child, ChildStdin, ChildStdout, Command, Stdio};

#[derive(Clone, Debug, PartialEq)]
struct V { coin: u64, ma: Option<Vec<(Vec<u8>, Vec<u8>, u64)>> }
#[derive(Clone, Debug)]
struct U { id: u64, addr: String, val: V }
#[derive(Clone, Debug)]
struct Case {
    label: String, strat: u8, fee_a: u64, fee_b: u64, cpb: u64, req: Option<(bool, u64)>,   // fee request: (exact?, fee)
    offered: Vec<U>, pre: Vec<U>, implicit: u64, mint: V, outs: Vec<U>, deposit: u64, burn: V, donation: Option<u64>,
    choices: Vec<u64>,
}

// ------------------------------------------------------------------------------------------------ syntax
struct P<'a> { t: &'a [String], i: usize }
impl<'a> P<'a> {
    fn next(&mut self) -> &'a str { let s = &self.t[self.i]; self.i += 1; s.as_str() }
    fn expect(&mut self, s: &str) { assert_eq!(self.next(), s, "case syntax"); }
    fn u64(&mut self) -> u64 { self.next().parse().expect("u64 in case") }
    fn value(&mut self) -> V {
        let coin = self.u64();
        let k = self.next();
        if k == "~" { return V { coin, ma: None }; }
        let k: usize = k.parse().unwrap();
        let mut es = vec![];
        for _ in 0..k { let p = unhex_or_dash(self.next()); let n = unhex_or_dash(self.next()); let q = self.u64(); es.push((p, n, q)); }
        V { coin, ma: Some(es) }
    }
    fn utxos(&mut self) -> Vec<U> {
        let n: usize = self.next().parse().unwrap();
        (0..n).map(|_| { let id = self.u64(); let addr = self.next().to_string(); let val = self.value(); U { id, addr, val } }).collect()
    }
}
fn parse_case(t: &[String]) -> Case {
    let mut p = P { t, i: 0 };
    let label = p.next().to_string();
    p.expect("S"); let strat = p.u64() as u8;
    p.expect("E"); let fee_a = p.u64(); let fee_b = p.u64(); let cpb = p.u64();
    let req = if p.t[p.i] == "R" { p.next(); let k = p.next(); let f = p.u64(); Some((k == "e", f)) } else { None };
    p.expect("O"); let offered = p.utxos();
    p.expect("P"); let pre = p.utxos();
    p.expect("I"); let implicit = p.u64();
    p.expect("M"); let mint = p.value();
    p.expect("T"); let outs = p.utxos();
    p.expect("D"); let deposit = p.u64();
    p.expect("B"); let burn = p.value();
    p.expect("N"); let d = p.next(); let donation = if d == "~" { None } else { Some(d.parse().unwrap()) };
    p.expect("C"); let n: usize = p.next().parse().unwrap(); let choices = (0..n).map(|_| p.u64()).collect();
    Case { label, strat, fee_a, fee_b, cpb, req, offered, pre, implicit, mint, outs, deposit, burn, donation, choices }
}
fn show_v(v: &V) -> String {
    match &v.ma {
        None => format!("{} ~", v.coin),
        Some(es) => {
            let mut s = format!("{} {}", v.coin, es.len());
            for (p, n, q) in es { s += &format!(" {} {} {}", hex_or_dash(p), hex_or_dash(n), q); }
            s
        }
    }
}
fn show_us(us: &[U]) -> String {
    let mut s = format!("{}", us.len());
    for u in us { s += &format!(" {} {} {}", u.id, u.addr, show_v(&u.val)); }
    s
}
/// the case line without oracle section; output keys are recomputed from the real outputs
fn show_case(c: &Case) -> String {
    let outs = real_outputs(c);
    let mut keyed = c.outs.clone();
    for i in 0..outs.len() {
        let k = (0..=i).find(|j| outs[*j].cmp(&outs[i]) == std::cmp::Ordering::Equal).unwrap();
        keyed[i].id = k as u64;
    }
    let ch: Vec<String> = c.choices.iter().map(|x| x.to_string()).collect();
    let req = match c.req { None => String::new(), Some((e, f)) => format!(" R {} {}", if e { "e" } else { "n" }, f) };
    format!("{} S {} E {} {} {}{} O {} P {} I {} M {} T {} D {} B {} N {} C {}{}{}",
        c.label, c.strat, c.fee_a, c.fee_b, c.cpb, req, show_us(&c.offered), show_us(&c.pre), c.implicit, show_v(&c.mint),
        show_us(&keyed), c.deposit, show_v(&c.burn), c.donation.map(|d| d.to_string()).unwrap_or("~".into()),
        ch.len(), if ch.is_empty() { "" } else { " " }, ch.join(" "))
}

// ------------------------------------------------------------------------------------------------ real values
fn kh(tag: u8, n: u64) -> Ed25519KeyHash {
    let mut b = vec![tag; 28];
    b[20..28].copy_from_slice(&n.to_be_bytes());
    Ed25519KeyHash::from_bytes(b).unwrap()
}
fn address(a: &str) -> Address {
    if a == "r" { RewardAddress::new(0, &Credential::from_keyhash(&kh(0xEE, 0))).to_address() }
    else { EnterpriseAddress::new(0, &Credential::from_keyhash(&kh(0xA1, a.parse().expect("addr")))).to_address() }
}
const NPOL: u64 = 3;
fn policy_script(k: u64) -> NativeScript { NativeScript::new_script_pubkey(&ScriptPubkey::new(&kh(0xB2, k))) }
fn policy_id(k: u64) -> Vec<u8> { policy_script(k).hash().to_bytes() }
fn value(v: &V) -> Value {
    let mut r = Value::new(&BigNum::from(v.coin));
    if let Some(es) = &v.ma {
        let mut ma = MultiAsset::new();
        for (p, n, q) in es {
            ma.set_asset(&ScriptHash::from_bytes(p.clone()).expect("28-byte policy"), &AssetName::new(n.clone()).expect("asset name"), &BigNum::from(*q));
        }
        r.set_multiasset(&ma);
    }
    r
}
fn outpoint(id: u64) -> TransactionInput {
    let mut h = vec![0x11u8; 32];
    h[0..8].copy_from_slice(&id.to_be_bytes());
    TransactionInput::new(&TransactionHash::from_bytes(h).unwrap(), OUT_INDEX[(id % 12) as usize])
}
/// output indices of every CBOR width class (1, 2, 3 and 5 bytes): the marginal fee of an input depends on it
const OUT_INDEX: [u32; 12] = [0, 1, 2, 3, 23, 24, 255, 256, 65535, 65536, 70000, 300];
fn id_of(i: &TransactionInput) -> u64 {
    let b = i.transaction_id().to_bytes();
    let mut x = [0u8; 8]; x.copy_from_slice(&b[0..8]); u64::from_be_bytes(x)
}
fn utxo(u: &U) -> TransactionUnspentOutput {
    TransactionUnspentOutput::new(&outpoint(u.id), &TransactionOutput::new(&address(&u.addr), &value(&u.val)))
}
fn real_outputs(c: &Case) -> Vec<TransactionOutput> {
    c.outs.iter().map(|o| TransactionOutput::new(&address(&o.addr), &value(&o.val))).collect()
}

/// The builder of the case with the given regular inputs (everything else as the case says).
fn builder(c: &Case, inputs: &[&U]) -> Result<TransactionBuilder, String> {
    let cfg = TransactionBuilderConfigBuilder::new()
        .fee_algo(&LinearFee::new(&BigNum::from(c.fee_a), &BigNum::from(c.fee_b)))
        .pool_deposit(&BigNum::from(500_000_000u64)).key_deposit(&BigNum::from(2_000_000u64))
        .max_value_size(5000).max_tx_size(4_000_000)
        .coins_per_utxo_byte(&BigNum::from(c.cpb))
        .build().map_err(|e| e.to_string())?;
    let mut tb = TransactionBuilder::new(&cfg);
    let mut ib = TxInputsBuilder::new();
    for u in inputs { ib.add_regular_utxo(&utxo(u)).map_err(|e| format!("pre input: {}", e.to_string()))?; }
    tb.set_inputs(&ib);
    for o in real_outputs(c) { tb.add_output(&o).map_err(|e| format!("add_output: {}", e.to_string()))?; }
    if c.implicit > 0 {
        let mut wb = WithdrawalsBuilder::new();
        wb.add(&RewardAddress::new(0, &Credential::from_keyhash(&kh(0xC3, 1))), &BigNum::from(c.implicit)).map_err(|e| e.to_string())?;
        tb.set_withdrawals_builder(&wb);
    }
    if c.deposit > 0 {
        let mut cb = CertificatesBuilder::new();
        let reg = StakeRegistration::new_with_explicit_deposit(&Credential::from_keyhash(&kh(0xD4, 1)), &BigNum::from(c.deposit));
        cb.add(&Certificate::new_reg_cert(&reg).map_err(|e| e.to_string())?).map_err(|e| e.to_string())?;
        tb.set_certs_builder(&cb);
    }
    let pos = c.mint.ma.clone().unwrap_or_default();
    let neg = c.burn.ma.clone().unwrap_or_default();
    if !pos.is_empty() || !neg.is_empty() {
        let mut mb = MintBuilder::new();
        for (sign, es) in [(1, &pos), (-1, &neg)] {
            for (p, n, q) in es {
                let k = (0..NPOL).find(|k| &policy_id(*k) == p).ok_or("mint policy is not one of the harness scripts")?;
                let w = MintWitness::new_native_script(&NativeScriptSource::new(&policy_script(k)));
                let amt = if sign > 0 { Int::new(&BigNum::from(*q)) } else { Int::new_negative(&BigNum::from(*q)) };
                mb.add_asset(&w, &AssetName::new(n.clone()).map_err(|e| e.to_string())?, &amt).map_err(|e| format!("mint: {}", e.to_string()))?;
            }
        }
        tb.set_mint_builder(&mb);
    }
    if let Some(d) = c.donation { tb.set_donation(&BigNum::from(d)); }
    match c.req { Some((true, f)) => tb.set_fee(&BigNum::from(f)), Some((false, f)) => tb.set_min_fee(&BigNum::from(f)), None => {} }
    Ok(tb)
}

fn show_value(v: &Value) -> String {
    let mut es = vec![];
    if let Some(ma) = v.multiasset() {
        let pols = ma.keys();
        for i in 0..pols.len() {
            let p = pols.get(i);
            let assets = ma.get(&p).unwrap();
            let names = assets.keys();
            for j in 0..names.len() {
                let n = names.get(j);
                let q: u64 = assets.get(&n).unwrap().into();
                if q > 0 { es.push(format!(" {} {} {}", hex_or_dash(&p.to_bytes()), hex_or_dash(&n.name()), q)); }
            }
        }
    }
    let c: u64 = v.coin().into();
    format!("{} {}{}", c, es.len(), es.concat())
}

fn strategy(k: u8) -> CoinSelectionStrategyCIP2 {
    match k { 0 => CoinSelectionStrategyCIP2::LargestFirst, 1 => CoinSelectionStrategyCIP2::RandomImprove,
              2 => CoinSelectionStrategyCIP2::LargestFirstMultiAsset, _ => CoinSelectionStrategyCIP2::RandomImproveMultiAsset }
}

fn input_ids(tb: &TransactionBuilder) -> Option<Vec<u64>> {
    let mut c = tb.clone();
    c.set_fee(&BigNum::from(0u64));
    let body = c.build().ok()?;
    let ins = body.inputs();
    let mut v: Vec<u64> = (0..ins.len()).map(|i| id_of(&ins.get(i))).collect();
    v.sort();
    Some(v)
}

/// present inputs win over offered ones with the same outpoint, the first offered occurrence over later ones
fn utxo_index(c: &Case) -> HashMap<u64, &U> {
    let mut by_id: HashMap<u64, &U> = HashMap::new();
    for u in c.offered.iter().rev() { by_id.insert(u.id, u); }
    for u in c.pre.iter().rev() { by_id.insert(u.id, u); }
    by_id
}

/// The outpoint LargestFirst added last, when the clause of the judge applies (CoinSelSpec.lf_prefix_outpoint).
fn lf_last_added(c: &Case, final_ids: &[u64]) -> Option<u64> {
    if c.strat != 0 { return None; }
    let need: u128 = c.outs.iter().map(|o| o.val.coin as u128).sum::<u128>() + c.deposit as u128 + c.donation.unwrap_or(0) as u128;
    if c.pre.is_empty() && !((c.implicit as u128 + c.mint.coin as u128) < need) { return None; }
    let mut seen: Vec<u64> = c.pre.iter().map(|u| u.id).collect();
    let mut best: Option<(u64, u64)> = None;       // (coin, id): smallest coin, first in offered order
    for u in &c.offered {
        if seen.contains(&u.id) { continue; }
        seen.push(u.id);
        if !final_ids.contains(&u.id) { continue; }
        if best.map_or(true, |(coin, _)| u.val.coin < coin) { best = Some((u.val.coin, u.id)); }
    }
    best.map(|b| b.1)
}

/// Runs add_inputs_from under the script; returns the result line and the draws (range, value) made.
fn run_impl(c: &Case) -> (String, Vec<(u64, u64)>) {
    let pre: Vec<&U> = c.pre.iter().collect();
    // (add_output refuses amounts with a zero quantity or an asset-less policy since /repo bb8d7fa: no builder, no selection)
    let mut tb = match builder(c, &pre) { Ok(t) => t, Err(_) => return ("unbuildable".to_string(), vec![]) };
    let mut offered = TransactionUnspentOutputs::new();
    for u in &c.offered { offered.add(&utxo(u)); }
    verif_hooks::verif_set_rng_script(Some(c.choices.clone()));
    verif_oracle::verif_oracle_start();
    let r = std::panic::catch_unwind(std::panic::AssertUnwindSafe(|| tb.add_inputs_from(&offered, strategy(c.strat))));
    // hook H5: how often the selection evaluated the builder's fee estimate (once for the target, twice per fee_for_input)
    let fee_evaluations = verif_oracle::verif_oracle_take().iter().filter(|e| e.0 == b'F').count();
    let draws = verif_hooks::verif_rng_draws();
    verif_hooks::verif_set_rng_script(None);
    let status = match &r {
        Ok(Ok(())) => "ok".to_string(),
        Ok(Err(e)) => if e.to_string().starts_with("UTxO Balance Insufficient") { "err:insufficient".into() } else { "err:other".into() },
        Err(_) => "panic".to_string(),
    };
    let ids = match input_ids(&tb) { Some(v) => v, None => return (format!("{} inputs-unobservable", status), draws) };
    let x = match tb.get_explicit_input() { Ok(v) => show_value(&v), Err(_) => "err".into() };
    let f = if status == "ok" || status == "err:insufficient" { match tb.min_fee() { Ok(f) => { let f: u64 = f.into(); f.to_string() } Err(_) => "err".into() } } else { "-".into() };
    // largest-first: min_fee() of the builder without the input that was added last (the smallest added one, the first
    // in offered order among equal ones), so that "stops as soon as covered" can be judged on this result
    let g = if status == "ok" { match lf_last_added(c, &ids) {
        Some(x) => {
            let by_id = utxo_index(c);
            let rest: Vec<&U> = ids.iter().filter(|i| **i != x).map(|i| *by_id.get(i).unwrap()).collect();
            let fee = guarded(|| match builder(c, &rest).and_then(|tb| tb.min_fee().map_err(|e| e.to_string())) {
                Ok(f) => { let f: u64 = f.into(); f.to_string() } Err(_) => "err".to_string() });
            format!("{} {}", x, if fee == "panic" { "err".to_string() } else { fee })
        }
        None => "-".to_string(),
    } } else { "-".to_string() };
    let idl: Vec<String> = ids.iter().map(|i| format!(" {}", i)).collect();
    (format!("{} I {}{} X {} F {} G {} K {}", status, ids.len(), idl.concat(), x, f, g, fee_evaluations), draws)
}

// ------------------------------------------------------------------------------------------------ watchdog
// A selection that does not return (e.g. a top-up loop that keeps drawing the same worthless UTxO) must not hang the
// check: the case being run is published here; when it makes no progress for HANG_SECS the watchdog records the
// observation `hang` for it and ends the run (the files written so far stay valid).
const HANG_SECS: u64 = 20;
static TICK: std::sync::atomic::AtomicU64 = std::sync::atomic::AtomicU64::new(0);
static CURRENT: std::sync::Mutex<Option<(String, String, String, String)>> = std::sync::Mutex::new(None); // cases path, impl path, index, case line
fn publish(cases: &str, impl_: &str, idx: &str, line: &str) {
    *CURRENT.lock().unwrap() = Some((cases.to_string(), impl_.to_string(), idx.to_string(), line.to_string()));
    TICK.fetch_add(1, std::sync::atomic::Ordering::SeqCst);
}
fn start_watchdog() {
    std::thread::spawn(|| {
        let mut last = TICK.load(std::sync::atomic::Ordering::SeqCst);
        let mut since = std::time::Instant::now();
        loop {
            std::thread::sleep(std::time::Duration::from_millis(500));
            let now = TICK.load(std::sync::atomic::Ordering::SeqCst);
            if now != last { last = now; since = std::time::Instant::now(); continue; }
            if since.elapsed().as_secs() >= HANG_SECS {
                if let Some((cases, impl_, idx, line)) = CURRENT.lock().unwrap().clone() {
                    use std::fs::OpenOptions;
                    if !cases.is_empty() {
                        if let Ok(mut f) = OpenOptions::new().append(true).create(true).open(&cases) { let _ = writeln!(f, "{} {} Q 0", idx, line); }
                    }
                    if let Ok(mut f) = OpenOptions::new().append(true).create(true).open(&impl_) { let _ = writeln!(f, "{} hang", idx); }
                    println!("watchdog: case {} did not return within {} s: {}", idx, HANG_SECS, line);
                }
                std::process::exit(0);
            }
        }
    });
}

// ------------------------------------------------------------------------------------------------ oracle
struct Oracle { child: Child, to: ChildStdin, from: BufReader<ChildStdout> }
impl Oracle {
    fn start() -> Oracle {
        let exe = std::env::var("C08_DRIVER").unwrap_or_else(|_| "ocaml/build/c08_driver".to_string());
        let mut child = Command::new(&exe).arg("serve").stdin(Stdio::piped()).stdout(Stdio::piped()).spawn()
            .unwrap_or_else(|e| panic!("cannot start the model driver {}: {}", exe, e));
        let to = child.stdin.take().unwrap();
        let from = BufReader::new(child.stdout.take().unwrap());
        Oracle { child, to, from }
    }
    fn ask(&mut self, line: &str) -> String {
        writeln!(self.to, "{}", line).unwrap(); self.to.flush().unwrap();
        let mut s = String::new(); self.from.read_line(&mut s).unwrap(); s.trim().to_string()
    }
    fn stop(mut self) { drop(self.to); let _ = self.child.wait(); }
}

/// Answers of the real code, cached per scenario (the key does not contain the choices).
fn answer(c: &Case, by_id: &HashMap<u64, &U>, need: &[&str], cache: &mut HashMap<String, String>) -> String {
    let key = need.join(" ");
    if let Some(a) = cache.get(&key) { return a.clone(); }
    let kind = need[0];
    let k: usize = need[1].parse().unwrap();
    let ids: Vec<u64> = need[2..2 + k].iter().map(|s| s.parse().unwrap()).collect();
    let ins: Vec<&U> = ids.iter().map(|i| *by_id.get(i).expect("oracle asks for an unknown outpoint")).collect();
    let a = guarded(|| {
        let tb = match builder(c, &ins) { Ok(t) => t, Err(_) => return "err".to_string() };
        if kind == "m" {
            match tb.min_fee() { Ok(f) => { let f: u64 = f.into(); f.to_string() } Err(_) => "err".into() }
        } else {
            let cand: u64 = need[2 + k].parse().unwrap();
            let u = utxo(by_id.get(&cand).expect("oracle asks for an unknown candidate"));
            match tb.fee_for_input(&u.output().address(), &u.input(), &u.output().amount()) {
                Ok(f) => { let f: u64 = f.into(); f.to_string() } Err(_) => "err".into()
            }
        }
    });
    let a = if a == "panic" { "err".to_string() } else { a };
    cache.insert(key, a.clone());
    a
}

/// The full case line (with oracle section) for which the model runs through.
fn complete(c: &Case, orc: &mut Oracle, cache: &mut HashMap<String, String>) -> String {
    let base = show_case(c);
    { let pre: Vec<&U> = c.pre.iter().collect(); if builder(c, &pre).is_err() { return format!("{} Q 0", base); } }
    let by_id = utxo_index(c);
    let mut entries: Vec<String> = vec![];
    for _round in 0..400 {
        let line = if entries.is_empty() { format!("{} Q 0", base) } else { format!("{} Q {} {}", base, entries.len(), entries.join(" ")) };
        let ans = orc.ask(&line);
        if ans == "done" { return line; }
        let toks: Vec<&str> = ans.split_whitespace().collect();
        if toks.first() != Some(&"need") { return format!("{} # driver: {}", line, ans.replace(' ', "_")); }
        let a = answer(c, &by_id, &toks[1..], cache);
        entries.push(format!("{} {}", toks[1..].join(" "), a));
    }
    format!("{} Q 0", base)
}

// ------------------------------------------------------------------------------------------------ generators
fn coin_for(r: &mut Rng, style: u64) -> u64 {
    match style {
        0 => r.range(1_000_000, 50_000_000),                  // realistic
        1 => *r.pick(&[520_000u64, 1_000_000, 1_500_000, 2_000_000, 3_000_000]),   // few distinct amounts (ties)
        2 => r.range(0, 400_000),                              // dust
        3 => r.range(500_000, 4_000_000),
        _ => r.u64_edge(),
    }
}
fn asset_pool() -> Vec<(Vec<u8>, Vec<u8>)> {
    vec![(policy_id(0), b"tokA".to_vec()), (policy_id(0), b"tB".to_vec()), (policy_id(1), vec![]), (policy_id(2), b"tokenC".to_vec())]
}
fn gen_assets(r: &mut Rng, pool: &[(Vec<u8>, Vec<u8>)], amount_style: u64, p_each: u64) -> Option<Vec<(Vec<u8>, Vec<u8>, u64)>> {
    let mut es = vec![];
    for (p, n) in pool {
        if r.chance(p_each, 100) {
            let q = match amount_style { 0 => r.range(1, 100), 1 => *r.pick(&[5u64, 10, 10, 20]), 2 => r.range(0, 3),
                                         10 => r.range(1, 25), 11 => *r.pick(&[5u64, 10]), 12 => r.range(0, 1), _ => r.u64_edge() };
            es.push((p.clone(), n.clone(), q));
        }
    }
    if es.is_empty() { if r.chance(1, 10) { Some(es) } else { None } } else { Some(es) }
}

fn gen_scenario(r: &mut Rng, max_utxos: u64) -> Case {
    let family = r.below(100);
    let strat = r.below(4) as u8;
    let (fee_a, fee_b) = *r.pick(&[(44u64, 155_381u64), (44, 155_381), (44, 155_381), (0, 0), (1, 0), (500, 1_000_000)]);
    let multi = family >= 45 && family < 85;
    let strat = if multi && strat < 2 && !r.chance(1, 6) { strat + 2 } else { strat };
    let edge = family >= 92;
    let style = if edge { 4 } else { r.below(4) };
    let lo = if r.chance(1, 12) { 0 } else { 3 };
    let n = r.range(lo, max_utxos);
    let pool_all = asset_pool();
    let pool: Vec<(Vec<u8>, Vec<u8>)> = pool_all[0..(r.range(1, pool_all.len() as u64) as usize)].to_vec();
    let astyle = if edge { 3 } else { r.below(3) };
    let mut next_id = r.range(1, 50);
    let mut mk_id = |r: &mut Rng| { next_id += r.range(1, 7); next_id };
    let n_addr = r.range(1, 4);
    let mut offered = vec![];
    for _ in 0..n {
        let ma = if multi { gen_assets(r, &pool, astyle, 55) } else if r.chance(1, 30) { gen_assets(r, &pool, astyle, 50) } else { None };
        let addr = if r.chance(1, 60) { "r".to_string() } else { r.below(n_addr).to_string() };
        offered.push(U { id: mk_id(r), addr, val: V { coin: coin_for(r, style), ma } });
    }
    let mut pre = vec![];
    if r.chance(1, 3) {
        for _ in 0..r.range(1, 2) {
            let ma = if multi && r.chance(1, 2) { gen_assets(r, &pool, astyle, 50) } else { None };
            pre.push(U { id: mk_id(r), addr: r.below(n_addr).to_string(), val: V { coin: coin_for(r, style), ma } });
        }
    }
    // outputs: 1..3, with a chance of exact duplicates
    let cpb = if edge || style == 2 { 0 } else { *r.pick(&[0u64, 1, 4310]) };
    let n_out = if r.chance(1, 15) { 0 } else { r.range(1, 3) };
    let mut outs: Vec<U> = vec![];
    for _ in 0..n_out {
        if !outs.is_empty() && r.chance(1, 3) { let o = r.pick(&outs).clone(); outs.push(o); continue; }
        let ma = if multi { gen_assets(r, &pool, if astyle < 3 { astyle + 10 } else { astyle }, 40) } else if r.chance(1, 40) { Some(vec![]) } else { None };
        let total_offered: u128 = offered.iter().map(|u| u.val.coin as u128).sum();
        let budget = ((total_offered / (n_out as u128 + 1)).min(1u128 << 60)) as u64;
        let coin = if edge { r.u64_edge() } else if r.chance(1, 10) { r.range(1_000_000, 30_000_000) }
                   else { r.range(budget / 5, budget.max(budget / 5)) };
        outs.push(U { id: 0, addr: (10 + r.below(2)).to_string(), val: V { coin, ma } });
    }
    // the library refuses output amounts with a zero quantity (kept in 1 scenario of 40: the builder cannot be made)
    if !r.chance(1, 40) { for o in outs.iter_mut() { if let Some(es) = o.val.ma.as_mut() { for e in es.iter_mut() { if e.2 == 0 { e.2 = 1; } } } } }
    // the library refuses outputs below the minimum ada: raise them
    for o in outs.iter_mut() {
        let out = TransactionOutput::new(&address(&o.addr), &value(&o.val));
        if let Ok(m) = min_ada_for_output(&out, &DataCost::new_coins_per_byte(&BigNum::from(cpb))) {
            let m: u64 = m.into();
            if o.val.coin < m { o.val.coin = m + r.below(3) * 100_000; }
        }
    }
    let total_out: u128 = outs.iter().map(|o| o.val.coin as u128).sum();
    // implicit input: sometimes large enough to make the pre-step fire
    let implicit = match r.below(12) {
        0 => (total_out.min(u64::MAX as u128 / 2) as u64) + r.range(0, 3_000_000),
        1 => r.range(1, 2_000_000),
        2 if edge => r.u64_edge(),
        _ => 0,
    };
    let deposit = if r.chance(1, 8) { if edge { r.u64_edge() } else { r.range(1, 5_000_000) } } else { 0 };
    let donation = if r.chance(1, 12) { Some(if edge { r.u64_edge() } else { r.range(0, 3_000_000) }) } else { None };
    // mint / burn over the harness policies, disjoint assets
    let mut mint = V { coin: 0, ma: None };
    let mut burn = V { coin: 0, ma: None };
    if multi && r.chance(1, 4) {
        let mut pos = vec![]; let mut neg = vec![];
        for (p, n) in &pool {
            match r.below(5) {
                0 => pos.push((p.clone(), n.clone(), if edge { r.u64_edge().max(1) } else { r.range(1, 50) })),
                1 => neg.push((p.clone(), n.clone(), if edge { r.u64_edge().max(1) } else { r.range(1, 30) })),
                _ => {}
            }
        }
        if !pos.is_empty() { mint.ma = Some(pos); }
        if !neg.is_empty() { burn.ma = Some(neg); }
    }
    // sometimes shrink the offered amounts so that selection is insufficient
    if r.chance(1, 8) { for u in offered.iter_mut() { u.val.coin /= 16; } }
    // rarely: an offered UTxO repeats an outpoint (of the offered list or of a present input): outside the premises
    if !offered.is_empty() && r.chance(1, 40) {
        let j = r.below(offered.len() as u64) as usize;
        if !pre.is_empty() && r.chance(1, 2) { offered[j].id = pre[0].id; offered[j].addr = pre[0].addr.clone(); offered[j].val = pre[0].val.clone(); }
        else { let k = r.below(offered.len() as u64) as usize; let src = offered[k].clone(); offered[j] = src; }
    }
    let mut c = Case { label: format!("f{}", family / 10), strat, fee_a, fee_b, cpb, req: None, offered, pre, implicit, mint, outs, deposit, burn, donation, choices: vec![] };
    // improvement followed by a fee top-up: ADA-only random-improve with a deposit of the order of the outputs
    if family % 15 == 3 && !multi {
        c.label = "sw".to_string();
        c.strat = 1;
        for o in c.outs.iter_mut() { o.val.ma = None; }
        c.deposit = ((c.outs.iter().map(|o| (o.val.coin / 2) as u128).sum::<u128>() / 2).min(1u128 << 62)) as u64 + r.range(0, 2_000_000);
    }
    // pre-step boundary: no input yet, the implicit input covers outputs + fee exactly (plus a small delta), and the
    // UTxO the pre-step takes (the last offered one) is worth about as much as its own fee
    if family % 15 == 7 && !c.offered.is_empty() {
        c.label = "ps".to_string();
        c.pre.clear();
        let need: u128 = c.outs.iter().map(|o| o.val.coin as u128).sum::<u128>() + c.deposit as u128 + c.donation.unwrap_or(0) as u128;
        if need < (1u128 << 62) {
            c.implicit = need as u64 + 200_000;
            for _ in 0..3 {
                if let Ok(tb) = builder(&c, &[]) {
                    if let Ok(f) = tb.min_fee() { let f: u64 = f.into(); c.implicit = need as u64 + f; }
                }
            }
            c.implicit += *r.pick(&[0u64, 0, 1, 1000, 5000, 10_000]);
            let last = c.offered.len() - 1;
            c.offered[last].val.coin = *r.pick(&[0u64, 1, 1000, 3000, 6000, 7000, 10_000, 1_000_000]);
        }
    }
    // exactly covered largest-first selections: the single output is worth the k largest offered UTxOs minus min_fee() of
    // the builder holding them, plus delta (0: k inputs cover exactly; a few lovelace: one more input is needed), with and
    // without a set_min_fee request just below the initial minimum fee
    if family % 15 == 11 && !multi && c.offered.len() >= 2 {
        c.label = "eq".to_string();
        c.strat = 0; c.cpb = 0; c.pre.clear(); c.implicit = 0; c.deposit = 0; c.donation = None;
        c.mint = V { coin: 0, ma: None }; c.burn = V { coin: 0, ma: None };
        // sometimes 24..32 UTxOs (the 24th input widens the array headers), often all at one address (the marginal fee of
        // a further input of an address is not a constant: output index width, header growth)
        if r.chance(1, 4) {
            let want = r.range(25, 32) as usize;
            while c.offered.len() < want { let mut u = c.offered[r.below(c.offered.len() as u64) as usize].clone(); u.id = c.offered.iter().map(|x| x.id).max().unwrap() + r.range(1, 7); u.val.coin = coin_for(r, 1) + r.below(1000); c.offered.push(u); }
        }
        let one_address = r.chance(2, 3);
        for (i, u) in c.offered.iter_mut().enumerate() { u.val.ma = None; if u.addr == "r" || one_address { u.addr = "0".to_string(); } if u.val.coin < 10_000 { u.val.coin += 700_000 + i as u64; } }
        c.outs = vec![U { id: 0, addr: "10".to_string(), val: V { coin: 1_000_000, ma: None } }];
        if r.chance(1, 2) {
            let f0: u64 = builder(&c, &[]).ok().and_then(|tb| tb.min_fee().ok()).map(|f| f.into()).unwrap_or(170_000);
            c.req = Some((false, f0.saturating_sub(r.range(0, 300))));
        }
        let mut order: Vec<usize> = (0..c.offered.len()).collect();
        order.sort_by(|a, b| c.offered[*b].val.coin.cmp(&c.offered[*a].val.coin).then(b.cmp(a)));   // as largest-first takes them
        let k = if c.offered.len() > 24 && r.chance(2, 3) { r.range(24, (c.offered.len() - 1) as u64) as usize }
                else { r.range(1.max((c.offered.len() - 1).min(3)) as u64, (c.offered.len() - 1) as u64) as usize };
        let sum: u128 = order[0..k].iter().map(|i| c.offered[*i].val.coin as u128).sum();
        if sum < (1u128 << 62) {
            let mut out = sum as u64;
            for _ in 0..3 {
                c.outs[0].val.coin = out;
                let top: Vec<&U> = order[0..k].iter().map(|i| &c.offered[*i]).collect();
                if let Ok(tb) = builder(&c, &top) { if let Ok(f) = tb.min_fee() { let f: u64 = f.into(); if (sum as u64) > f { out = sum as u64 - f; } } }
            }
            c.outs[0].val.coin = out + *r.pick(&[0u64, 0, 0, 1, 1, 30, 44, 50, 88, 100, 170, 200, 400]);
        }
        return c;
    }
    // fee request of the builder: set_min_fee around the minimum fee of the initial builder (the increments of
    // fee_for_input are differences of estimates raised to it), far below / above it, or a fixed fee
    if family % 6 == 1 || c.label == "ps" && r.chance(1, 3) {
        let pre: Vec<&U> = c.pre.iter().collect();
        let f0: u64 = builder(&c, &pre).ok().and_then(|tb| tb.min_fee().ok()).map(|f| f.into()).unwrap_or(170_000);
        c.req = Some(match r.below(8) {
            0 => (false, f0.saturating_sub(r.range(0, 400))),
            1 => (false, f0 + r.range(0, 400)),
            2 => (false, f0 + r.range(400, 20_000)),
            3 => (false, f0 / 2),
            4 => (false, r.u64_edge() >> 20),
            5 => (true, f0 + r.range(0, 10_000)),
            6 => (true, r.range(0, 300_000)),
            _ => (false, f0.saturating_sub(r.range(0, 9) * 44)),
        });
        if c.label == "ps" {
            // keep the implicit input on the boundary of the pre-step for the fee the request leads to
            let need: u128 = c.outs.iter().map(|o| o.val.coin as u128).sum::<u128>() + c.deposit as u128 + c.donation.unwrap_or(0) as u128;
            if need < (1u128 << 62) {
                if let Ok(tb) = builder(&c, &[]) { if let Ok(f) = tb.min_fee() { let f: u64 = f.into(); c.implicit = need as u64 + f + r.range(0, 2); } }
            }
        }
    }
    c
}

fn gen_choices(r: &mut Rng) -> Vec<u64> {
    let n = match r.below(6) { 0 => 0, 1 => r.range(1, 4), _ => r.range(5, 40) };
    (0..n).map(|_| if r.chance(1, 10) { r.u64_edge() } else { r.below(1000) }).collect()
}

/// all leaves of the draw tree of one scenario (depth-first, odometer over the recorded draws)
fn enumerate(c: &Case, cap: usize, mut f: impl FnMut(&Case, &str)) -> (usize, bool) {
    let mut script: Vec<u64> = vec![];
    let mut count = 0usize;
    loop {
        let mut cc = c.clone();
        cc.choices = script.clone();
        let (res, draws) = run_impl(&cc);
        cc.choices = draws.iter().map(|d| d.1).collect();
        f(&cc, &res);
        count += 1;
        if count >= cap { return (count, false); }
        // next leaf: increment the last draw that has a larger value left
        let mut k = draws.len();
        loop {
            if k == 0 { return (count, true); }
            k -= 1;
            if draws[k].1 + 1 < draws[k].0 { break; }
        }
        script = draws[0..k].iter().map(|d| d.1).collect();
        script.push(draws[k].1 + 1);
    }
}

fn main() {
    if std::env::var("C08_SHOW_PANICS").is_err() { silence_panics(); }
    let args: Vec<String> = std::env::args().collect();
    let mut orc = Oracle::start();
    if args.len() >= 3 && args[1] == "gen" {
        let seed = seed_from_env();
        let thorough = is_thorough();
        let mut r = Rng::new(seed ^ 0xC08C08);
        let mut out = Out::new(&args[2]);
        let cases_path = format!("{}/cases.txt", args[2]);
        let impl_path = format!("{}/impl.txt", args[2]);
        start_watchdog();
        // (a) random scenarios x random scripts
        let n_scen = if thorough { 30000 } else { 2500 };
        let mut extra_deterministic = 0;
        for _ in 0..n_scen {
            let mut sc = gen_scenario(&mut r, 12);
            // the largest-first strategies run one script per scenario: give them three scenarios for every one drawn
            if extra_deterministic > 0 { extra_deterministic -= 1; if sc.strat % 2 == 1 && sc.label.starts_with('f') { sc.strat -= 1; } }
            else if sc.strat % 2 == 0 { extra_deterministic = 2; }
            let mut cache = HashMap::new();
            let scripts = if sc.strat % 2 == 1 { if thorough { 8 } else { 6 } } else { 1 };
            for _ in 0..scripts {
                let mut c = sc.clone();
                c.choices = gen_choices(&mut r);
                out.cases.flush().unwrap(); out.impl_.flush().unwrap();
                publish(&cases_path, &impl_path, &out.n.to_string(), &show_case(&c));
                let (res, _) = run_impl(&c);
                let line = complete(&c, &mut orc, &mut cache);
                out.emit(&line, &res);
            }
        }
        // (b) every outcome of the random strategies on small scenarios
        let n_small = if thorough { 400 } else { 6 };
        let cap = if thorough { 20000 } else { 150 };
        let (mut n_complete, mut n_capped, mut n_leaves) = (0usize, 0usize, 0usize);
        for _ in 0..n_small {
            let mut sc = gen_scenario(&mut r, if thorough { 6 } else { 5 });
            sc.strat = if r.chance(2, 3) { 1 } else { 3 };
            sc.label = format!("x{}", sc.label);
            let mut cache = HashMap::new();
            let mut lines: Vec<(String, String)> = vec![];
            out.cases.flush().unwrap(); out.impl_.flush().unwrap();
            publish(&cases_path, &impl_path, &out.n.to_string(), &show_case(&sc));
            let (n, done) = enumerate(&sc, cap, |c, res| {
                TICK.fetch_add(1, std::sync::atomic::Ordering::SeqCst);
                lines.push((complete(c, &mut orc, &mut cache), res.to_string()));
            });
            n_leaves += n; if done { n_complete += 1 } else { n_capped += 1 }
            for (l, res) in lines { out.emit(&l, &res); }
        }
        println!("exhaustive: {} scenarios enumerated completely, {} capped at {} outcomes, {} outcomes in total", n_complete, n_capped, cap, n_leaves);
        let _ = std::fs::write(format!("{}/stats.txt", args[2]), format!("exhaustive_complete {}\nexhaustive_capped {}\noutcomes {}\n", n_complete, n_capped, n_leaves));
        out.finish();
    } else if args.len() >= 4 && args[1] == "run" {
        let cases = read_cases(&args[2]);
        let mut norm = String::new();
        let mut o = std::io::BufWriter::new(std::fs::File::create(&args[3]).unwrap());
        start_watchdog();
        for (idx, toks) in cases {
            let toks: Vec<String> = toks.into_iter().take_while(|t| t != "Q" && t != "#").collect();
            let c = parse_case(&toks);
            o.flush().unwrap();
            publish("", &args[3], &idx, &show_case(&c));
            let (res, _) = run_impl(&c);
            let mut cache = HashMap::new();
            let line = complete(&c, &mut orc, &mut cache);
            norm += &format!("{} {}\n", idx, line);
            writeln!(o, "{} {}", idx, res).unwrap();
        }
        o.flush().unwrap();
        std::fs::write(&args[2], norm).unwrap();
    } else {
        eprintln!("usage: c08 gen <dir> | c08 run <cases> <out>");
        std::process::exit(2);
    }
    orc.stop();
    let _ = BTreeMap::<u8, u8>::new();
}
