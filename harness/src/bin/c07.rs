//! C07 correspondence harness: minimum ADA and size limits.
//! `c07 gen <dir>` generates cases from VERIF_SEED / VERIF_TIER and runs the implementation;
//! `c07 run <cases> <out>` runs the implementation on given case lines (replay / corpus).
//!
//! Building blocks of a case line
//!   ADDR := <akind> <alen>        akind: b base | e enterprise | r reward | p:<slot>:<tx>:<cert> pointer |
//!                                 y:<n> Byron with an n-byte derivation-path attribute (0 = none) | m:<salt> malformed
//!                                 (arbitrary bytes, reached through TransactionOutput::from_bytes); alen = byte length
//!                                 of Address::to_bytes() (what the model uses; the harness checks it)
//!   MA   := <npolicies> { <nassets> { <namelen> <qty> }* }*
//!   DAT  := n 0 0 | h 0 0 | i <n> <len>     inline datum = PlutusData::new_bytes(n bytes); len = its to_bytes().len()
//!   SREF := - 0 0 | n <k> <len> | p1|p2|p3 <n> <len>   native = ScriptAll of k pubkey scripts, len = NativeScript bytes;
//!                                 plutus = n script bytes (len = n)
//!   OUT  := ADDR <coin> MA DAT SREF
//! Case kinds
//!   minada <cpb> OUT                                   -> ok <c> <size> <vsize> <size at max(c,coin)> <size at u64::MAX> | err <size> <vsize> <size at u64::MAX>
//!   addout <cpb> <mvs> OUT                             -> ok <coin> <size> <vsize> | err
//!   helper <cpb> ADDR MA DAT SREF                      -> ok <coin> <size> <vsize> | err
//!   collret <variant 0|1|2> <cpb> <mvs> OUT            -> ok <coin> <size> <vsize> | err
//!        0 set_collateral_return_and_total, 1 set_total_collateral_and_return (OUT without datum / script), 2 raw set_collateral_return
//!   build <cpb> <mvs> <mts> <prefer_pure> I <n> { <coin> MA }* O <n> { OUT }* C ADDR DAT
//!        -> ok <l0> <fee> <full_size> <nreq> <nout> { <coin> <size> <vsize> }* | { MA of every change output }*
//!           | err:change A=.. | toobig <full_size> A=.. | err:build A=..      (A=<o|x per requested output>: accepted / refused by add_output;
//!             a refused add does NOT end the scenario, <nreq> counts the accepted ones)
//!   entry <cpb> <mvs> <mts> <prefer_pure> I <n> { <coin> MA }* O <n> { OUT }* C ADDR DAT SREF V <via> K <n> { <coin> MA }* P <pct> M <items> <auxlen> <late>
//!        via 0 add_change_if_needed[_with_datum] | 1 add_inputs_from_and_change (nothing offered: the inputs are set) |
//!            2 add_inputs_from_and_change_with_collateral_return (collateral inputs K, percentage P)
//!        M: (late = 1: attached AFTER the balancing step) auxiliary data = metadata label 1 -> list of <items> 64-byte strings (0 0 = none); auxlen = its to_bytes().len()
//!        then EVERY build entry point is called on the builder: full_size(), build(), build_tx(), build_tx_unsafe()
//!        -> ok <fee> F=<n|err> B=<ok|err> T=<ok|err> U=<ok|err> L=<bytes of the returned transaction> <nreq> <nout> { <coin> <size> <vsize> }*
//!              R <- | coin size vsize> TC <- | n> | { MA of every change output }*      (outputs: `none` when no entry point returned anything)
//!           | err:addout | err:change | panic
//!   mintout <variant 0|1> <cpb> <mvs> ADDR <namelen> <qty> DAT SREF <coin>     add_mint_asset_and_output (0, explicit coin) /
//!        add_mint_asset_and_output_min_required_coin (1); then set_fee + build_tx_unsafe on the same builder
//!        -> ok|err <nout> { <coin> <size> <vsize> }*  (outputs of the released body, whatever the call answered) | ok|err none
//!   plutus <mts> <n> <kind>      Plutus input with witness datum D + extra witness datum D' = the same value spelled differently
//!        (0 indefinite / definite list of n items, 1 wide / minimal head, 2 identical, 3 indefinite / definite map); hand-set fee
//!        -> ok|toobig F=<full_size> L=<bytes of the transaction handed out, 0 if none> B= T= U=
//!   txsize <mts> I <n> { <coin> MA }* O <n> { OUT }* F <fee>     (fee set by hand, no change; mainnet price)
//!        -> ok|toobig <full_size> <bytes of the transaction build_tx / build_tx_unsafe returned, 0 if none> B=<ok|err> T=<ok|err> U=<ok|err> | err:addout | err:size
//! Everything the size code does not look at (hash bytes, key bytes, asset-name bytes) is derived from the
//! position of the item, so a case replays exactly.
#![allow(deprecated)]
use cardano_serialization_lib::*;
use csl_verif_harness::util::*;

fn bn(x: u64) -> BigNum { BigNum::from(x) }
fn pbn(s: &str) -> BigNum { BigNum::from_str(s).expect("u64 in case") }
fn pu64(s: &str) -> u64 { s.parse::<u64>().expect("u64 in case") }

const BAD: &str = "badcase";

// ---------------------------------------------------------------- addresses
fn kh(tag: u8, i: u8) -> Ed25519KeyHash { let mut v = vec![tag; 28]; v[1] = i; Ed25519KeyHash::from_bytes(v).unwrap() }

fn crc32(data: &[u8]) -> u32 {
    let mut crc: u32 = 0xFFFF_FFFF;
    for &b in data {
        crc ^= b as u32;
        for _ in 0..8 { crc = if crc & 1 != 0 { (crc >> 1) ^ 0xEDB8_8320 } else { crc >> 1 }; }
    }
    !crc
}
fn cbor_head(major: u8, n: u64) -> Vec<u8> {
    let m = major << 5;
    if n < 24 { vec![m | n as u8] }
    else if n < 256 { vec![m | 24, n as u8] }
    else if n < 65536 { let mut v = vec![m | 25]; v.extend(&(n as u16).to_be_bytes()); v }
    else if n < (1u64 << 32) { let mut v = vec![m | 26]; v.extend(&(n as u32).to_be_bytes()); v }
    else { let mut v = vec![m | 27]; v.extend(&n.to_be_bytes()); v }
}
fn byron_bytes(path_len: usize) -> Vec<u8> {
    let mut inner = vec![0x83];
    inner.extend(cbor_head(2, 28)); inner.extend(vec![0xB7u8; 28]);
    if path_len == 0 { inner.push(0xA0); } else {
        inner.push(0xA1); inner.push(0x01);
        inner.extend(cbor_head(2, path_len as u64)); inner.extend(vec![0x5Au8; path_len]);
    }
    inner.push(0x00);
    let mut out = vec![0x82, 0xD8, 0x18];
    out.extend(cbor_head(2, inner.len() as u64)); out.extend(&inner);
    out.extend(cbor_head(0, crc32(&inner) as u64));
    out
}
/// an Address holding arbitrary bytes: only reachable through the (lenient) output deserializer
fn malformed_addr(len: usize, salt: u64) -> Option<Address> {
    if len == 0 { return None; }
    let mut r = Rng::new(salt ^ 0xC07);
    let mut a = r.bytes(len);
    a[0] = 0x90 | (a[0] & 0x0f);                      // header type 9: not a known address kind
    let mut b = vec![0x82]; b.extend(cbor_head(2, len as u64)); b.extend(&a); b.push(0x00);
    TransactionOutput::from_bytes(b).ok().map(|o| o.address())
}
fn mk_addr(kind: &str, alen: usize, slot: u8) -> Option<Address> {
    let parts: Vec<&str> = kind.split(':').collect();
    let a = match parts[0] {
        "b" => BaseAddress::new(1, &Credential::from_keyhash(&kh(1, slot)), &Credential::from_scripthash(&ScriptHash::from_bytes(vec![2u8; 28]).unwrap())).to_address(),
        "e" => EnterpriseAddress::new(0, &Credential::from_keyhash(&kh(3, slot))).to_address(),
        "r" => RewardAddress::new(1, &Credential::from_keyhash(&kh(4, slot))).to_address(),
        "p" => PointerAddress::new(0, &Credential::from_keyhash(&kh(5, slot)),
                   &Pointer::new_pointer(&pbn(parts[1]), &pbn(parts[2]), &pbn(parts[3]))).to_address(),
        "y" => ByronAddress::from_bytes(byron_bytes(parts[1].parse().ok()?)).ok()?.to_address(),
        "m" => malformed_addr(alen, pu64(parts[1]))?,
        _ => return None,
    };
    if a.to_bytes().len() != alen { return None; }
    Some(a)
}

// ---------------------------------------------------------------- bundles, datums, scripts
type MaShape = Vec<Vec<(usize, u64)>>;
fn asset_name(j: usize, len: usize) -> Vec<u8> {
    let mut v = vec![0xA5u8; len];
    if len >= 1 { v[0] = j as u8; }
    if len >= 2 { v[1] = (j >> 8) as u8; }
    v
}
fn mk_ma(shape: &MaShape) -> Option<MultiAsset> {
    let mut ma = MultiAsset::new();
    for (i, pol) in shape.iter().enumerate() {
        let mut a = Assets::new();
        for (j, (nl, q)) in pol.iter().enumerate() {
            if a.insert(&AssetName::new(asset_name(j, *nl)).ok()?, &bn(*q)).is_some() { return None; }
        }
        let mut id = vec![0x11u8; 28]; id[0] = i as u8; id[1] = (i >> 8) as u8;
        if ma.insert(&ScriptHash::from_bytes(id).unwrap(), &a).is_some() { return None; }
    }
    Some(ma)
}
fn show_ma_shape(shape: &MaShape) -> String {
    let mut s = format!("{}", shape.len());
    for p in shape { s.push_str(&format!(" {}", p.len())); for (nl, q) in p { s.push_str(&format!(" {} {}", nl, q)); } }
    s
}
fn shape_of(ma: &Option<MultiAsset>) -> MaShape {
    let mut out = vec![];
    if let Some(ma) = ma {
        let pols = ma.keys();
        for i in 0..pols.len() {
            let assets = ma.get(&pols.get(i)).unwrap();
            let names = assets.keys();
            let mut p = vec![];
            for j in 0..names.len() { let n = names.get(j); p.push((n.name().len(), u64::from(assets.get(&n).unwrap()))); }
            out.push(p);
        }
    }
    out
}
#[derive(Clone)]
struct Dat { kind: String, param: usize, len: usize }
#[derive(Clone)]
struct Sref { kind: String, param: usize, len: usize }
fn mk_datum(d: &Dat) -> Option<Option<OutputDatum>> {
    match d.kind.as_str() {
        "n" => Some(None),
        "h" => Some(Some(OutputDatum::new_data_hash(&DataHash::from_bytes(vec![0xD7u8; 32]).unwrap()))),
        "i" => { let pd = PlutusData::new_bytes(vec![0x42u8; d.param]);
                 if pd.to_bytes().len() != d.len { return None; }
                 Some(Some(OutputDatum::new_data(&pd))) }
        _ => None,
    }
}
fn mk_native(k: usize) -> NativeScript {
    let mut ns = NativeScripts::new();
    for i in 0..k { ns.add(&NativeScript::new_script_pubkey(&ScriptPubkey::new(&kh(9, i as u8)))); }
    NativeScript::new_script_all(&ScriptAll::new(&ns))
}
fn mk_sref(s: &Sref) -> Option<Option<ScriptRef>> {
    match s.kind.as_str() {
        "-" => Some(None),
        "n" => { let ns = mk_native(s.param); if ns.to_bytes().len() != s.len { return None; } Some(Some(ScriptRef::new_native_script(&ns))) }
        "p1" | "p2" | "p3" => {
            if s.param != s.len { return None; }
            let b = vec![0x77u8; s.param];
            let ps = match s.kind.as_str() { "p1" => PlutusScript::new(b), "p2" => PlutusScript::new_v2(b), _ => PlutusScript::new_v3(b) };
            Some(Some(ScriptRef::new_plutus_script(&ps))) }
        _ => None,
    }
}

#[derive(Clone)]
struct OutD { akind: String, alen: usize, coin: u64, ma: MaShape, dat: Dat, sref: Sref }
fn mk_value(coin: u64, ma: &MaShape) -> Option<Value> {
    let mut v = Value::new(&bn(coin));
    if !ma.is_empty() { v.set_multiasset(&mk_ma(ma)?); }
    Some(v)
}
fn mk_output(o: &OutD, slot: u8) -> Option<TransactionOutput> {
    let addr = mk_addr(&o.akind, o.alen, slot)?;
    let mut out = TransactionOutput::new(&addr, &mk_value(o.coin, &o.ma)?);
    match mk_datum(&o.dat)? {
        None => {}
        Some(d) => { if let Some(h) = d.data_hash() { out.set_data_hash(&h); } else { out.set_plutus_data(&d.data().unwrap()); } }
    }
    if let Some(s) = mk_sref(&o.sref)? { out.set_script_ref(&s); }
    Some(out)
}
fn show_out(o: &OutD) -> String {
    format!("{} {} {} {} {} {} {} {} {} {}", o.akind, o.alen, o.coin, show_ma_shape(&o.ma),
        o.dat.kind, o.dat.param, o.dat.len, o.sref.kind, o.sref.param, o.sref.len)
}

// ---------------------------------------------------------------- case parsing
struct P<'a> { t: &'a [String], i: usize }
impl<'a> P<'a> {
    fn next(&mut self) -> &'a str { let s = &self.t[self.i]; self.i += 1; s.as_str() }
    fn num(&mut self) -> u64 { pu64(self.next()) }
    fn us(&mut self) -> usize { self.next().parse().expect("usize in case") }
    fn expect(&mut self, s: &str) { assert_eq!(self.next(), s, "case syntax"); }
    fn ma(&mut self) -> MaShape {
        let np = self.us();
        (0..np).map(|_| { let na = self.us(); (0..na).map(|_| { let nl = self.us(); let q = self.num(); (nl, q) }).collect() }).collect()
    }
    fn dat(&mut self) -> Dat { Dat { kind: self.next().to_string(), param: self.us(), len: self.us() } }
    fn sref(&mut self) -> Sref { Sref { kind: self.next().to_string(), param: self.us(), len: self.us() } }
    fn out(&mut self) -> OutD {
        let akind = self.next().to_string(); let alen = self.us(); let coin = self.num();
        let ma = self.ma(); let dat = self.dat(); let sref = self.sref();
        OutD { akind, alen, coin, ma, dat, sref }
    }
}

fn cfg(cpb: u64, mvs: u32, mts: u32, pure_: bool) -> TransactionBuilderConfig {
    TransactionBuilderConfigBuilder::new().fee_algo(&LinearFee::new(&bn(44), &bn(155381)))
        .pool_deposit(&bn(500_000_000)).key_deposit(&bn(2_000_000)).max_value_size(mvs).max_tx_size(mts)
        .coins_per_utxo_byte(&bn(cpb)).prefer_pure_change(pure_).build().unwrap()
}
fn sizes(o: &TransactionOutput) -> (u64, usize, usize) {
    (u64::from(o.amount().coin()), o.to_bytes().len(), o.amount().to_bytes().len())
}
fn with_coin(o: &TransactionOutput, c: u64) -> TransactionOutput {
    let mut v = o.amount(); v.set_coin(&bn(c));
    let mut n = TransactionOutput::new(&o.address(), &v);
    if let Some(h) = o.data_hash() { n.set_data_hash(&h); }
    if let Some(d) = o.plutus_data() { n.set_plutus_data(&d); }
    if let Some(s) = o.script_ref() { n.set_script_ref(&s); }
    n
}

fn exec(toks: &[String]) -> String {
    let mut p = P { t: toks, i: 0 };
    match p.next() {
        "minada" => {
            let cpb = p.num(); let od = p.out();
            let o = match mk_output(&od, 0) { Some(o) => o, None => return BAD.into() };
            let (coin, size, vsize) = sizes(&o);
            let widest = with_coin(&o, u64::MAX).to_bytes().len();
            match min_ada_for_output(&o, &DataCost::new_coins_per_byte(&bn(cpb))) {
                Ok(c) => { let c = u64::from(c);
                    let at_max = with_coin(&o, c.max(coin)).to_bytes().len();
                    format!("ok {} {} {} {} {}", c, size, vsize, at_max, widest) }
                Err(_) => format!("err {} {} {}", size, vsize, widest),
            }
        }
        "addout" => {
            let cpb = p.num(); let mvs = p.num() as u32; let od = p.out();
            let o = match mk_output(&od, 0) { Some(o) => o, None => return BAD.into() };
            let mut tb = TransactionBuilder::new(&cfg(cpb, mvs, 16384, false));
            match tb.add_output(&o) {
                Ok(()) => { let outs = tb.get_explicit_output(); let _ = outs;
                    let (c, s, v) = sizes(&o); format!("ok {} {} {}", c, s, v) }
                Err(_) => "err".into(),
            }
        }
        "helper" => {
            let cpb = p.num(); let akind = p.next().to_string(); let alen = p.us();
            let ma = p.ma(); let dat = p.dat(); let sref = p.sref();
            let addr = match mk_addr(&akind, alen, 0) { Some(a) => a, None => return BAD.into() };
            let mas = match mk_ma(&ma) { Some(m) => m, None => return BAD.into() };
            let mut b = TransactionOutputBuilder::new().with_address(&addr);
            match mk_datum(&dat) { None => return BAD.into(), Some(None) => {}, Some(Some(d)) => {
                if let Some(h) = d.data_hash() { b = b.with_data_hash(&h); } else { b = b.with_plutus_data(&d.data().unwrap()); } } }
            match mk_sref(&sref) { None => return BAD.into(), Some(None) => {}, Some(Some(s)) => { b = b.with_script_ref(&s); } }
            let nb = match b.next() { Ok(x) => x, Err(_) => return "err".into() };
            match nb.with_asset_and_min_required_coin_by_utxo_cost(&mas, &DataCost::new_coins_per_byte(&bn(cpb))).and_then(|x| x.build()) {
                Ok(o) => { let (c, s, v) = sizes(&o); format!("ok {} {} {}", c, s, v) }
                Err(_) => "err".into(),
            }
        }
        "collret" => {
            let variant = p.num(); let cpb = p.num(); let mvs = p.num() as u32; let od = p.out();
            let o = match mk_output(&od, 0) { Some(o) => o, None => return BAD.into() };
            let total: u64 = 5_000_000;
            let in_coin = match od.coin.checked_add(total) { Some(x) => x, None => return BAD.into() };
            let mut tb = TransactionBuilder::new(&cfg(cpb, mvs, 16384, false));
            let mut col = TxInputsBuilder::new();
            let mut v = o.amount(); v.set_coin(&bn(in_coin));
            let src = mk_addr("b", 57, 7).unwrap();
            if col.add_regular_input(&src, &TransactionInput::new(&TransactionHash::from_bytes(vec![0xC0; 32]).unwrap(), 0), &v).is_err() { return BAD.into(); }
            tb.set_collateral(&col);
            let r = match variant {
                0 => tb.set_collateral_return_and_total(&o),
                1 => tb.set_total_collateral_and_return(&bn(total), &o.address()),
                _ => { tb.set_collateral_return(&o); Ok(()) }
            };
            match r {
                Err(_) => "err".into(),
                Ok(()) => {
                    // read the stored return output back from a body
                    tb.set_fee(&bn(2_000_000));
                    match tb.build_tx_unsafe() {
                        Ok(tx) => match tx.body().collateral_return() {
                            Some(ret) => { let (c, s, v) = sizes(&ret); format!("ok {} {} {}", c, s, v) }
                            None => "ok-none".into(),
                        },
                        Err(_) => { let (c, s, v) = sizes(&o); format!("ok {} {} {}", c, s, v) }
                    }
                }
            }
        }
        "build" => {
            let cpb = p.num(); let mvs = p.num() as u32; let mts = p.num() as u32; let pure_ = p.num() == 1;
            p.expect("I");
            let nin = p.us();
            let ins: Vec<(u64, MaShape)> = (0..nin).map(|_| { let c = p.num(); let m = p.ma(); (c, m) }).collect();
            p.expect("O");
            let nout = p.us();
            let outs: Vec<OutD> = (0..nout).map(|_| p.out()).collect();
            p.expect("C");
            let akind = p.next().to_string(); let alen = p.us(); let dat = p.dat();
            let mut tb = TransactionBuilder::new(&cfg(cpb, mvs, mts, pure_));
            let src = mk_addr("b", 57, 8).unwrap();
            let mut in_total: u128 = 0;
            for (i, (c, m)) in ins.iter().enumerate() {
                let v = match mk_value(*c, m) { Some(v) => v, None => return BAD.into() };
                let mut h = vec![0x1Du8; 32]; h[0] = i as u8;
                if tb.add_regular_input(&src, &TransactionInput::new(&TransactionHash::from_bytes(h).unwrap(), i as u32), &v).is_err() { return BAD.into(); }
                in_total += *c as u128;
            }
            // a refused output does not end the scenario: the caller goes on with the same builder (A= records which adds were accepted)
            let mut out_total: u128 = 0; let mut mask = String::from("A="); let mut acc = 0usize;
            for (i, od) in outs.iter().enumerate() {
                let o = match mk_output(od, 20 + i as u8) { Some(o) => o, None => return BAD.into() };
                if tb.add_output(&o).is_err() { mask.push('x'); } else { mask.push('o'); acc += 1; out_total += od.coin as u128; }
            }
            let caddr = match mk_addr(&akind, alen, 40) { Some(a) => a, None => return BAD.into() };
            let r = match mk_datum(&dat) {
                None => return BAD.into(),
                Some(None) => tb.add_change_if_needed(&caddr),
                Some(Some(d)) => tb.add_change_if_needed_with_datum(&caddr, &d),
            };
            if let Err(e) = &r { if std::env::var("VERIF_DEBUG").is_ok() { eprintln!("change: {}", e.to_string()); } return format!("err:change {}", mask); }
            let full = tb.full_size().map(|x| x as i128).unwrap_or(-1);
            match tb.build_tx() {
                Err(e) => { if std::env::var("VERIF_DEBUG").is_ok() { eprintln!("build_tx: {}", e.to_string()); }
                            if full > mts as i128 { format!("toobig {} {}", full, mask) } else { format!("err:build {}", mask) } }
                Ok(tx) => {
                    let body = tx.body(); let os = body.outputs();
                    let l0 = in_total.saturating_sub(out_total);
                    let mut s = format!("ok {} {} {} {} {} {}", mask, l0, u64::from(body.fee()), full, acc, os.len());
                    for i in 0..os.len() { let (c, sz, v) = sizes(&os.get(i)); s.push_str(&format!(" {} {} {}", c, sz, v)); }
                    s.push_str(" |");
                    for i in acc.min(os.len())..os.len() { s.push_str(&format!(" {}", show_ma_shape(&shape_of(&os.get(i).amount().multiasset())))); }
                    s
                }
            }
        }
        "entry" => {
            let cpb = p.num(); let mvs = p.num() as u32; let mts = p.num() as u32; let pure_ = p.num() == 1;
            p.expect("I");
            let nin = p.us();
            let ins: Vec<(u64, MaShape)> = (0..nin).map(|_| { let c = p.num(); let m = p.ma(); (c, m) }).collect();
            p.expect("O");
            let nout = p.us();
            let outs: Vec<OutD> = (0..nout).map(|_| p.out()).collect();
            p.expect("C");
            let akind = p.next().to_string(); let alen = p.us(); let dat = p.dat(); let sref = p.sref();
            p.expect("V"); let via = p.num();
            p.expect("K"); let ncol = p.us();
            let cols: Vec<(u64, MaShape)> = (0..ncol).map(|_| { let c = p.num(); let m = p.ma(); (c, m) }).collect();
            p.expect("P"); let pct = p.num();
            p.expect("M"); let items = p.us(); let auxlen = p.us(); let late = p.num() == 1;
            let mut tb = TransactionBuilder::new(&cfg(cpb, mvs, mts, pure_));
            let src = mk_addr("b", 57, 8).unwrap();
            for (i, (c, m)) in ins.iter().enumerate() {
                let v = match mk_value(*c, m) { Some(v) => v, None => return BAD.into() };
                let mut h = vec![0x1Du8; 32]; h[0] = i as u8;
                if tb.add_regular_input(&src, &TransactionInput::new(&TransactionHash::from_bytes(h).unwrap(), i as u32), &v).is_err() { return BAD.into(); }
            }
            if ncol > 0 {
                let mut col = TxInputsBuilder::new();
                for (i, (c, m)) in cols.iter().enumerate() {
                    let v = match mk_value(*c, m) { Some(v) => v, None => return BAD.into() };
                    if col.add_regular_input(&src, &TransactionInput::new(&TransactionHash::from_bytes(vec![0xC0; 32]).unwrap(), i as u32), &v).is_err() { return BAD.into(); }
                }
                tb.set_collateral(&col);
            }
            let set_meta = |tb: &mut TransactionBuilder| -> bool {
                let mut l = MetadataList::new();
                for _ in 0..items { l.add(&TransactionMetadatum::new_bytes(vec![0x33u8; 64]).unwrap()); }
                let mut g = GeneralTransactionMetadata::new();
                g.insert(&bn(1), &TransactionMetadatum::new_list(&l));
                tb.set_metadata(&g);
                match tb.get_auxiliary_data() { Some(a) => a.to_bytes().len() == auxlen, None => false }
            };
            if items > 0 && !late && !set_meta(&mut tb) { return BAD.into(); }
            let mut mask = String::from("A="); let mut acc = 0usize;
            for (i, od) in outs.iter().enumerate() {
                let o = match mk_output(od, 20 + i as u8) { Some(o) => o, None => return BAD.into() };
                if tb.add_output(&o).is_err() { mask.push('x'); } else { mask.push('o'); acc += 1; }
            }
            let caddr = match mk_addr(&akind, alen, 40) { Some(a) => a, None => return BAD.into() };
            let d = match mk_datum(&dat) { Some(d) => d, None => return BAD.into() };
            let sr = match mk_sref(&sref) { Some(s) => s, None => return BAD.into() };
            let mut cc = ChangeConfig::new(&caddr);
            if let Some(d) = &d { cc = cc.change_plutus_data(d); }
            if let Some(s) = &sr { cc = cc.change_script_ref(s); }
            let r = match via {
                0 => { if sr.is_some() { return BAD.into(); }
                       match &d { None => tb.add_change_if_needed(&caddr).map(|_| ()), Some(d) => tb.add_change_if_needed_with_datum(&caddr, d).map(|_| ()) } }
                1 => tb.add_inputs_from_and_change(&TransactionUnspentOutputs::new(), CoinSelectionStrategyCIP2::LargestFirstMultiAsset, &cc).map(|_| ()),
                _ => tb.add_inputs_from_and_change_with_collateral_return(&TransactionUnspentOutputs::new(), CoinSelectionStrategyCIP2::LargestFirstMultiAsset, &cc, &bn(pct)),
            };
            if let Err(e) = &r { if std::env::var("VERIF_DEBUG").is_ok() { eprintln!("entry: {}", e.to_string()); } return format!("err:change {}", mask); }
            // metadata attached after the balancing: the transaction grows past what the fee and the size guard have seen
            if items > 0 && late && !set_meta(&mut tb) { return BAD.into(); }
            // every build entry point
            let f = tb.full_size();
            let b = tb.build();
            let t = tb.build_tx();
            let u = tb.build_tx_unsafe();
            let fee = tb.get_fee_if_set().map(u64::from).unwrap_or(0);
            let body: Option<TransactionBody> = match (&t, &u, &b) { (Ok(tx), _, _) => Some(tx.body()), (_, Ok(tx), _) => Some(tx.body()), (_, _, Ok(bd)) => Some(bd.clone()), _ => None };
            let txlen = match (&t, &u) { (Ok(tx), _) => tx.to_bytes().len(), (_, Ok(tx)) => tx.to_bytes().len(), _ => 0 };
            let okerr = |x: bool| if x { "ok" } else { "err" };
            let mut s = format!("ok {} {} F={} B={} T={} U={} L={} {}", mask, fee, f.as_ref().map(|x| x.to_string()).unwrap_or("err".into()),
                                okerr(b.is_ok()), okerr(t.is_ok()), okerr(u.is_ok()), txlen, acc);
            match body {
                None => s.push_str(" none"),
                Some(body) => {
                    let os = body.outputs();
                    s.push_str(&format!(" {}", os.len()));
                    for i in 0..os.len() { let (c, sz, v) = sizes(&os.get(i)); s.push_str(&format!(" {} {} {}", c, sz, v)); }
                    match body.collateral_return() { Some(r) => { let (c, sz, v) = sizes(&r); s.push_str(&format!(" R {} {} {}", c, sz, v)); } None => s.push_str(" R -") }
                    match body.total_collateral() { Some(c) => s.push_str(&format!(" TC {}", u64::from(c))), None => s.push_str(" TC -") }
                    s.push_str(" |");
                    for i in acc.min(os.len())..os.len() { s.push_str(&format!(" {}", show_ma_shape(&shape_of(&os.get(i).amount().multiasset())))); }
                }
            }
            s
        }
        "mintout" => {
            // add_mint_asset_and_output (variant 0, explicit coin) / add_mint_asset_and_output_min_required_coin (variant 1)
            let variant = p.num(); let cpb = p.num(); let mvs = p.num() as u32;
            let akind = p.next().to_string(); let alen = p.us();
            let namelen = p.us(); let qty = p.num(); let dat = p.dat(); let sref = p.sref(); let coin = p.num();
            let addr = match mk_addr(&akind, alen, 0) { Some(a) => a, None => return BAD.into() };
            let mut b = TransactionOutputBuilder::new().with_address(&addr);
            match mk_datum(&dat) { None => return BAD.into(), Some(None) => {}, Some(Some(d)) => {
                if let Some(h) = d.data_hash() { b = b.with_data_hash(&h); } else { b = b.with_plutus_data(&d.data().unwrap()); } } }
            match mk_sref(&sref) { None => return BAD.into(), Some(None) => {}, Some(Some(s)) => { b = b.with_script_ref(&s); } }
            let ob = match b.next() { Ok(x) => x, Err(_) => return BAD.into() };
            let mut tb = TransactionBuilder::new(&cfg(cpb, mvs, 1_000_000, false));
            let src = mk_addr("b", 57, 8).unwrap();
            if tb.add_regular_input(&src, &TransactionInput::new(&TransactionHash::from_bytes(vec![0x3D; 32]).unwrap(), 0), &Value::new(&bn(50_000_000))).is_err() { return BAD.into(); }
            let script = NativeScript::new_script_pubkey(&ScriptPubkey::new(&kh(9, 1)));
            let name = match AssetName::new(asset_name(0, namelen)) { Ok(n) => n, Err(_) => return BAD.into() };
            let amount = Int::new(&bn(qty));
            let r = if variant == 0 { tb.add_mint_asset_and_output(&script, &name, &amount, &ob, &bn(coin)) }
                    else { tb.add_mint_asset_and_output_min_required_coin(&script, &name, &amount, &ob) };
            // whatever the call answered, look at the body the builder releases afterwards
            tb.set_fee(&bn(2_000_000));
            let mut s = String::from(if r.is_ok() { "ok" } else { "err" });
            match tb.build_tx_unsafe() {
                Err(_) => s.push_str(" none"),
                Ok(tx) => { let os = tx.body().outputs(); s.push_str(&format!(" {}", os.len()));
                    for i in 0..os.len() { let (c, sz, v) = sizes(&os.get(i)); s.push_str(&format!(" {} {} {}", c, sz, v)); } }
            }
            s
        }
        "plutus" => {
            // a Plutus script input with witness datum D, plus an extra witness datum D' (add_extra_witness_datum) that is the
            // SAME value read from different CBOR bytes; hand-set fee; every build entry point; size of what is handed out
            let mts = p.num() as u32; let n = p.us(); let kind = p.num();
            let list_def = |n: usize, wide: bool| -> Vec<u8> {
                let mut b = if wide { let mut h = vec![0x9bu8]; h.extend(&(n as u64).to_be_bytes()); h } else { let mut h = cbor_head(4, n as u64); h.truncate(9); h };
                b.extend(std::iter::repeat(0x01u8).take(n)); b };
            let list_indef = |n: usize| -> Vec<u8> { let mut b = vec![0x9fu8]; b.extend(std::iter::repeat(0x01u8).take(n)); b.push(0xff); b };
            let map_def = |n: usize| -> Vec<u8> { let mut b = cbor_head(5, n as u64); for i in 0..n { b.extend(cbor_head(0, i as u64)); b.push(0x01); } b };
            let map_indef = |n: usize| -> Vec<u8> { let mut b = vec![0xbfu8]; for i in 0..n { b.extend(cbor_head(0, i as u64)); b.push(0x01); } b.push(0xff); b };
            let (b1, b2) = match kind { 0 => (list_indef(n), list_def(n, false)), 1 => (list_def(n, true), list_def(n, false)),
                                        2 => (list_def(n, false), list_def(n, false)), _ => (map_indef(n), map_def(n)) };
            let d1 = match PlutusData::from_bytes(b1) { Ok(d) => d, Err(_) => return BAD.into() };
            let d2 = match PlutusData::from_bytes(b2) { Ok(d) => d, Err(_) => return BAD.into() };
            let mut tb = TransactionBuilder::new(&cfg(4310, 5000, mts, false));
            let script = PlutusScript::new(vec![0x4e, 0x4d, 0x01, 0x00, 0x00, 0x33, 0x22, 0x22, 0x00, 0x51, 0x20, 0x01, 0x20, 0x01, 0x11]);
            let redeemer = Redeemer::new(&RedeemerTag::new_spend(), &bn(0), &PlutusData::new_integer(&BigInt::from(0u64)), &ExUnits::new(&bn(1000), &bn(1_000_000)));
            let witness = PlutusWitness::new(&script, &d1, &redeemer);
            let mut inputs = TxInputsBuilder::new();
            inputs.add_plutus_script_input(&witness, &TransactionInput::new(&TransactionHash::from_bytes(vec![7u8; 32]).unwrap(), 0), &Value::new(&bn(10_000_000)));
            tb.set_inputs(&inputs);
            tb.add_extra_witness_datum(&d2);
            let addr = mk_addr("b", 57, 3).unwrap();
            if tb.add_output(&TransactionOutput::new(&addr, &Value::new(&bn(9_000_000)))).is_err() { return BAD.into(); }
            tb.set_fee(&bn(1_000_000));
            let f = tb.full_size();
            let b = tb.build().is_ok();
            let t = tb.build_tx();
            let u = tb.build_tx_unsafe();
            let txlen = match (&t, &u) { (Ok(tx), _) => tx.to_bytes().len(), (_, Ok(tx)) => tx.to_bytes().len(), _ => 0 };
            let okerr = |x: bool| if x { "ok" } else { "err" };
            format!("{} F={} L={} B={} T={} U={}", if b { "ok" } else { "toobig" }, f.map(|x| x.to_string()).unwrap_or("err".into()), txlen, okerr(b), okerr(t.is_ok()), okerr(u.is_ok()))
        }
        "txsize" => {
            let mts = p.num() as u32;
            p.expect("I");
            let nin = p.us();
            let ins: Vec<(u64, MaShape)> = (0..nin).map(|_| { let c = p.num(); let m = p.ma(); (c, m) }).collect();
            p.expect("O");
            let nout = p.us();
            let outs: Vec<OutD> = (0..nout).map(|_| p.out()).collect();
            p.expect("F");
            let fee = p.num();
            let mut tb = TransactionBuilder::new(&cfg(4310, 5000, mts, false));
            let src = mk_addr("b", 57, 8).unwrap();
            for (i, (c, m)) in ins.iter().enumerate() {
                let v = match mk_value(*c, m) { Some(v) => v, None => return BAD.into() };
                let mut h = vec![0x2Du8; 32]; h[0] = i as u8;
                if tb.add_regular_input(&src, &TransactionInput::new(&TransactionHash::from_bytes(h).unwrap(), i as u32), &v).is_err() { return BAD.into(); }
            }
            let mut mask = String::from("A=");
            for (i, od) in outs.iter().enumerate() {
                let o = match mk_output(od, 20 + i as u8) { Some(o) => o, None => return BAD.into() };
                if tb.add_output(&o).is_err() { mask.push('x'); } else { mask.push('o'); }
            }
            tb.set_fee(&bn(fee));
            let full = match tb.full_size() { Ok(x) => x, Err(_) => return "err:size".into() };
            // every build entry point on its own (build_tx also validates fee and balance, which a hand-set fee rarely meets)
            let b = tb.build().is_ok();
            let t = tb.build_tx();
            let u = tb.build_tx_unsafe();
            let txlen = match (&t, &u) { (Ok(tx), _) => tx.to_bytes().len(), (_, Ok(tx)) => tx.to_bytes().len(), _ => 0 };
            let okerr = |x: bool| if x { "ok" } else { "err" };
            // the outputs of whatever body was handed out (a refused add must not have left anything behind)
            let body: Option<TransactionBody> = match (&t, &u) { (Ok(tx), _) => Some(tx.body()), (_, Ok(tx)) => Some(tx.body()), _ => tb.build().ok() };
            let mut s = format!("{} {} {} {} B={} T={} U={}", if b { "ok" } else { "toobig" }, mask, full, txlen, okerr(b), okerr(t.is_ok()), okerr(u.is_ok()));
            match body { None => s.push_str(" none"), Some(body) => { let os = body.outputs(); s.push_str(&format!(" {}", os.len()));
                for i in 0..os.len() { let (c, sz, v) = sizes(&os.get(i)); s.push_str(&format!(" {} {} {}", c, sz, v)); } } }
            s
        }
        _ => BAD.into(),
    }
}

// ---------------------------------------------------------------- generators
const CPBS: [u64; 16] = [0, 1, 2, 255, 256, 257, 4310, 34482, 1 << 20, 16_250_000, 1 << 32, 1 << 40, 1 << 56, 1 << 57, 1 << 63, u64::MAX];

fn gen_addr(r: &mut Rng) -> (String, usize) {
    match r.below(12) {
        0 | 1 | 2 => ("b".into(), 57),
        3 => ("e".into(), 29),
        4 => ("r".into(), 29),
        5 | 6 => { // pointer: 1 + 28 + three var-length naturals (1..10 bytes each)
            let vals: Vec<u64> = (0..3).map(|_| match r.below(4) { 0 => r.below(128), 1 => r.u64_edge(), 2 => u64::MAX, _ => r.below(1 << 20) }).collect();
            let vl = |x: u64| -> usize { let mut n = 1; let mut y = x >> 7; while y > 0 { n += 1; y >>= 7; } n };
            (format!("p:{}:{}:{}", vals[0], vals[1], vals[2]), 29 + vl(vals[0]) + vl(vals[1]) + vl(vals[2])) }
        7 | 8 => { let n = match r.below(4) { 0 => 0, 1 => r.range(1, 40) as usize, 2 => r.range(20, 300) as usize, _ => r.range(1, 23) as usize };
                   (format!("y:{}", n), byron_bytes(n).len()) }
        _ => { let len = match r.below(5) { 0 => r.range(1, 30) as usize, 1 => r.range(50, 70) as usize, 2 => r.range(85, 100) as usize,
                                            3 => r.range(250, 262) as usize, _ => r.range(1, 400) as usize };
               (format!("m:{}", r.below(1000)), len) }
    }
}
fn gen_ma(r: &mut Rng, allow_big: bool) -> MaShape {
    let np = match r.below(10) { 0..=4 => 0, 5 | 6 => 1, 7 => 2, 8 => r.range(1, 5) as usize, _ => if allow_big { r.range(20, 30) as usize } else { 3 } };
    let mut ma = vec![];
    for _ in 0..np {
        let na = match r.below(8) { 0 => 0, 1..=4 => 1, 5 => r.range(2, 6) as usize, 6 => r.range(20, 30) as usize, _ => if allow_big { r.range(100, 160) as usize } else { 2 } };
        let mut pol = vec![]; let mut used0 = false;
        for j in 0..na {
            let mut nl = match r.below(6) { 0 => 0, 1 => 32, 2 => r.range(22, 25) as usize, _ => r.range(1, 32) as usize };
            if nl == 0 { if used0 { nl = 2; } used0 = true; }
            if nl == 1 && j >= 256 { nl = 2; }
            pol.push((nl, if r.chance(1, 3) { r.u64_edge() } else { r.range(1, 1000) }));
        }
        ma.push(pol);
    }
    ma
}
fn bounded_bytes_len(n: usize) -> usize {
    if n <= 64 { cbor_head(2, n as u64).len() + n } else {
        let mut t = 2; let mut left = n;
        while left > 0 { let c = left.min(64); t += cbor_head(2, c as u64).len() + c; left -= c; }
        t
    }
}
fn gen_dat(r: &mut Rng, big: bool) -> Dat {
    match r.below(8) {
        0..=3 => Dat { kind: "n".into(), param: 0, len: 0 },
        4 | 5 => Dat { kind: "h".into(), param: 0, len: 0 },
        _ => { let n = match r.below(6) { 0 => 0, 1 => r.range(20, 26) as usize, 2 => r.range(60, 70) as usize, 3 => r.range(200, 300) as usize,
                                         4 => if big { r.range(60000, 70000) as usize } else { r.range(1, 100) as usize }, _ => r.range(1, 64) as usize };
               Dat { kind: "i".into(), param: n, len: bounded_bytes_len(n) } }
    }
}
fn gen_sref(r: &mut Rng, big: bool) -> Sref {
    match r.below(8) {
        0..=4 => Sref { kind: "-".into(), param: 0, len: 0 },
        5 => { let k = r.below(8) as usize; Sref { kind: "n".into(), param: k, len: mk_native(k).to_bytes().len() } }
        _ => { let n = match r.below(5) { 0 => 0, 1 => r.range(20, 26) as usize, 2 => r.range(250, 260) as usize,
                                         3 => if big { r.range(65500, 65600) as usize } else { r.range(1, 50) as usize }, _ => r.range(1, 200) as usize };
               Sref { kind: ["p1", "p2", "p3"][r.below(3) as usize].into(), param: n, len: n } }
    }
}
fn gen_out(r: &mut Rng, big: bool) -> OutD {
    let (akind, alen) = gen_addr(r);
    OutD { akind, alen, coin: r.u64_edge(), ma: gen_ma(r, big), dat: gen_dat(r, big), sref: gen_sref(r, big) }
}
fn plain_dat() -> Dat { Dat { kind: "n".into(), param: 0, len: 0 } }
fn plain_sref() -> Sref { Sref { kind: "-".into(), param: 0, len: 0 } }
fn min_ada_of(od: &OutD, cpb: u64) -> Option<u64> {
    let o = mk_output(od, 0)?;
    min_ada_for_output(&o, &DataCost::new_coins_per_byte(&bn(cpb))).ok().map(u64::from)
}

fn gen(dir: &str) {
    let seed = seed_from_env();
    let mut r = Rng::new(seed ^ 0xC07C07);
    let mut out = Out::new(dir);
    let scale: u64 = if is_thorough() { 60 } else { 2 };
    let emit = |out: &mut Out, line: String| {
        let toks: Vec<String> = line.split_whitespace().map(|s| s.to_string()).collect();
        let res = guarded(move || exec(&toks));
        if res != BAD { out.emit(&line, &res); }
    };

    // --- min_ada_for_output: random outputs x prices
    for _ in 0..(700 * scale) {
        let big = r.chance(1, 40); let mut od = gen_out(&mut r, big);
        let cpb = if r.chance(3, 4) { *r.pick(&CPBS) } else { r.u64_edge() };
        // half of the time put the coin next to one of the five candidate prices
        if r.chance(1, 2) {
            if let Some(m) = min_ada_of(&od, cpb) { od.coin = m.wrapping_add(r.below(5)).wrapping_sub(2); }
        }
        emit(&mut out, format!("minada {} {}", cpb, show_out(&od)));
    }
    // --- width-boundary sweeps: the price crosses 24 / 2^8 / 2^16 / 2^32 while the address length sweeps
    for a in 1..130usize {
        for &(cpb, coin) in &[(1u64, 0u64), (1, 255), (1, 24), (255, 0), (256, 65535), (257, 0), (16_250_000, 0), (16_250_000, 4_294_967_295), (18_000_000, 1u64 << 32)] {
            if a % (if is_thorough() { 1 } else { 3 }) != (seed as usize) % (if is_thorough() { 1 } else { 3 }) && a != 91 { continue; }
            let od = OutD { akind: format!("m:{}", a), alen: a, coin, ma: vec![], dat: plain_dat(), sref: plain_sref() };
            emit(&mut out, format!("minada {} {}", cpb, show_out(&od)));
        }
    }
    // the fallback branch (three widening rounds): base 94, one lovelace per byte
    for coin in [0u64, 1, 23, 24, 200, 255, 256, 257, 262, 263, 264] {
        let od = OutD { akind: "m:7".into(), alen: 91, coin, ma: vec![], dat: plain_dat(), sref: plain_sref() };
        emit(&mut out, format!("minada 1 {}", show_out(&od)));
    }
    // 2^16 boundary with one lovelace per byte: a large inline datum
    for k in 0..(8 * scale) {
        let n = 64050 + (r.below(400) as usize) + k as usize;
        let od = OutD { akind: "b".into(), alen: 57, coin: if r.chance(1, 2) { 0 } else { r.range(65000, 66000) }, ma: vec![],
                        dat: Dat { kind: "i".into(), param: n, len: bounded_bytes_len(n) }, sref: plain_sref() };
        emit(&mut out, format!("minada 1 {}", show_out(&od)));
    }

    // --- add_output: coin at / around the minimum, value size at / around the limit
    for _ in 0..(400 * scale) {
        let big = r.chance(1, 30); let mut od = gen_out(&mut r, big);
        let cpb = match r.below(4) { 0 => 4310, 1 => *r.pick(&CPBS), 2 => r.range(1, 5000), _ => r.u64_edge() };
        if r.chance(3, 4) { if let Some(m) = min_ada_of(&od, cpb) { od.coin = m.wrapping_add(r.below(3)).wrapping_sub(1); } }
        let vs = mk_output(&od, 0).map(|o| o.amount().to_bytes().len() as u64).unwrap_or(10);
        let mvs = match r.below(5) { 0 => 5000, 1 => vs, 2 => vs.saturating_sub(1), 3 => vs + 1, _ => r.below(6000) };
        emit(&mut out, format!("addout {} {} {}", cpb, mvs, show_out(&od)));
    }

    // --- output-builder helper
    for _ in 0..(300 * scale) {
        let (akind, alen) = gen_addr(&mut r);
        let mut ma = gen_ma(&mut r, false);
        if ma.is_empty() { ma.push(vec![(r.range(0, 32) as usize, r.range(1, 100))]); }
        let cpb = match r.below(3) { 0 => 4310, 1 => *r.pick(&CPBS), _ => r.range(1, 100_000) };
        emit(&mut out, format!("helper {} {} {} {} {} {}", cpb, akind, alen, show_ma_shape(&ma),
            { let d = gen_dat(&mut r, false); format!("{} {} {}", d.kind, d.param, d.len) },
            { let s = gen_sref(&mut r, false); format!("{} {} {}", s.kind, s.param, s.len) }));
    }

    // --- collateral return
    for _ in 0..(200 * scale) {
        let variant = r.below(3);
        let big = r.chance(1, 6); let mut od = gen_out(&mut r, big);
        if variant == 1 { od.dat = plain_dat(); od.sref = plain_sref(); }
        // empty policies / zero quantities make the collateral subtraction (C19) leave a residue: not this property
        od.ma.retain(|p| !p.is_empty());
        for p in od.ma.iter_mut() { for a in p.iter_mut() { if a.1 == 0 { a.1 = 1; } } }
        let cpb = match r.below(3) { 0 => 4310, 1 => r.range(1, 5000), _ => *r.pick(&CPBS) };
        if r.chance(3, 4) { if let Some(m) = min_ada_of(&od, cpb) { od.coin = m.wrapping_add(r.below(3)).wrapping_sub(1); } }
        if od.coin > u64::MAX - 5_000_000 { od.coin = 1_500_000; }
        let vs = mk_output(&od, 0).map(|o| o.amount().to_bytes().len() as u64).unwrap_or(10);
        let mvs = match r.below(4) { 0 => 5000, 1 => vs, 2 => vs.saturating_sub(1), _ => r.below(6000) };
        emit(&mut out, format!("collret {} {} {} {}", variant, cpb, mvs, show_out(&od)));
    }

    // --- built transactions with change
    for k in 0..(260 * scale) {
        let stream = k % 8;
        let (cpb, mvs) = match stream { 0 | 1 | 2 => (4310u64, 5000u64), 3 => (r.range(1, 300), 5000), 4 => (16_250_000, 5000), 5 => (4310, r.range(60, 400)), _ => (*r.pick(&[1u64, 255, 4310, 34482, 1 << 20]), 5000) };
        let nin = r.range(1, 3) as usize;
        let mut ins: Vec<(u64, MaShape)> = vec![];
        for i in 0..nin {
            let coin = match stream { 4 => r.range(4_280_000_000, 4_320_000_000), 2 => r.range(4_290_000_000, 4_300_000_000), _ =>
                match r.below(5) { 0 => r.range(1_000_000, 5_000_000), 1 => r.range(4_290_000_000, 4_300_000_000), 2 => r.range(1, 70_000), 3 => r.range(10_000_000_000, 50_000_000_000), _ => r.range(2_000_000, 100_000_000) } };
            let ma = if i == 0 && stream != 6 { let mut m = gen_ma(&mut r, stream == 5); if m.is_empty() && r.chance(2, 3) { m.push(vec![(r.range(0, 32) as usize, r.range(1, 50))]); } m } else { vec![] };
            // zero quantities / empty policies in inputs are kept: they leave a residue in the change that the
            // builder has to treat as ADA-only change (C05's model of add_change follows every such path)
            ins.push((coin, ma));
        }
        let nout = r.below(3) as usize;
        let mut outs = vec![];
        for _ in 0..nout {
            let (akind, alen) = gen_addr(&mut r);
            let mut od = OutD { akind, alen, coin: 0, ma: vec![], dat: gen_dat(&mut r, false), sref: if r.chance(1, 5) { gen_sref(&mut r, false) } else { plain_sref() } };
            od.coin = min_ada_of(&od, cpb).unwrap_or(1_000_000).saturating_add(r.below(3) * r.below(1_000_000));
            if r.chance(1, 6) { od.coin = od.coin.saturating_sub(1 + r.below(2) * r.below(1000)); }   // a requested output below its minimum: refused, the scenario goes on
            outs.push(od);
        }
        let (ck, cl) = if stream == 4 { // long change addresses for the top-up clause
            let extra = r.range(1, 4); let vals = [u64::MAX, u64::MAX, if extra >= 2 { u64::MAX } else { (1u64 << 63) - 1 }];
            let _ = vals; match extra { 1 => ("p:18446744073709551615:18446744073709551615:9223372036854775807".to_string(), 58), _ => ("p:18446744073709551615:18446744073709551615:18446744073709551615".to_string(), 59) }
        } else { gen_addr(&mut r) };
        let dat = if r.chance(1, 4) { gen_dat(&mut r, false) } else { plain_dat() };
        let full_guess = 300 + 100 * (nin + nout) as u64;
        let mts = match r.below(6) { 0 => full_guess, 1 => r.range(200, 600), _ => 16384 };
        let mut line = format!("build {} {} {} {} I {}", cpb, mvs, mts, r.below(2), nin);
        for (c, m) in &ins { line.push_str(&format!(" {} {}", c, show_ma_shape(m))); }
        line.push_str(&format!(" O {}", nout));
        for o in &outs { line.push_str(&format!(" {}", show_out(o))); }
        line.push_str(&format!(" C {} {} {} {} {}", ck, cl, dat.kind, dat.param, dat.len));
        emit(&mut out, line);
    }
    // pure-ADA change output next to its minimum on a 58/59-byte change address (10 M lovelace per byte: the bundle's
    // output is admitted thanks to the 9-byte-coin pricing, the pure output lands between the fake-address minimum and the real one)
    for _ in 0..(14 * scale) {
        let (ck, cl) = if r.chance(1, 2) { ("p:18446744073709551615:18446744073709551615:9223372036854775807", 58) } else { ("p:18446744073709551615:18446744073709551615:18446744073709551615", 59) };
        let coin = r.range(4_886_000_000, 4_914_000_000);
        emit(&mut out, format!("build 10000000 5000 16384 1 I 1 {} 1 1 0 1 O 0 C {} {} n 0 0", coin, ck, cl));
    }
    // ... and exactly in the window where the pure output priced for the fee (coin before its own fee) is admissible but the one
    // actually made (coin after the fee) is not: only the admission of the real output protects here
    for k in 0..12u64 {
        emit(&mut out, format!("build 10000000 5000 16384 1 I 1 {} 1 1 0 1 O 0 C p:18446744073709551615:18446744073709551615:9223372036854775807 58 n 0 0", 4_900_165_000 + 500 * k));
        emit(&mut out, format!("build 10000000 5000 16384 1 I 1 {} 1 1 0 1 O 0 C p:18446744073709551615:18446744073709551615:18446744073709551615 59 n 0 0", 4_910_165_000 + 500 * k));
    }
    // zero-quantity / empty-policy residue only: has_assets is false, the ADA-only branch must be taken
    for k in 0..(10 * scale) {
        let ma = match k % 4 { 0 => "1 0", 1 => "1 1 3 0", 2 => "2 0 1 0 0", _ => "2 1 5 0 1 32 0" };
        let nout = k % 2;
        let coin = match r.below(3) { 0 => r.range(900_000, 1_400_000), 1 => r.range(4_294_000_000, 4_296_000_000), _ => r.range(2_000_000, 50_000_000) };
        let outs = if nout == 1 { " O 1 e 29 1000000 0 n 0 0 - 0 0".to_string() } else { " O 0".to_string() };
        let (ck, cl) = gen_addr(&mut r);
        emit(&mut out, format!("build 4310 5000 16384 {} I 1 {} {}{} C {} {} n 0 0", r.below(2), coin, ma, outs, ck, cl));
    }
    // --- every balancing entry point x every build entry point
    let aux_len = |items: usize| -> usize {
        if items == 0 { return 0; }
        let mut l = MetadataList::new();
        for _ in 0..items { l.add(&TransactionMetadatum::new_bytes(vec![0x33u8; 64]).unwrap()); }
        let mut g = GeneralTransactionMetadata::new();
        g.insert(&bn(1), &TransactionMetadatum::new_list(&l));
        let mut a = AuxiliaryData::new(); a.set_metadata(&g); a.to_bytes().len()
    };
    let entry_line = |cpb: u64, mvs: u64, mts: u64, pure_: u64, ins: &Vec<(u64, MaShape)>, outs: &Vec<OutD>, ck: &str, cl: usize, dat: &Dat, sref: &Sref,
                      via: u64, cols: &Vec<(u64, MaShape)>, pct: u64, items: usize, auxlen: usize| -> String {
        let mut line = format!("entry {} {} {} {} I {}", cpb, mvs, mts, pure_, ins.len());
        for (c, m) in ins { line.push_str(&format!(" {} {}", c, show_ma_shape(m))); }
        line.push_str(&format!(" O {}", outs.len()));
        for o in outs { line.push_str(&format!(" {}", show_out(o))); }
        line.push_str(&format!(" C {} {} {} {} {} {} {} {} V {} K {}", ck, cl, dat.kind, dat.param, dat.len, sref.kind, sref.param, sref.len, via, cols.len()));
        for (c, m) in cols { line.push_str(&format!(" {} {}", c, show_ma_shape(m))); }
        line.push_str(&format!(" P {} M {} {} 0", pct, items, auxlen));
        line
    };
    let run_line = |line: &str| -> String { let toks: Vec<String> = line.split_whitespace().map(|s| s.to_string()).collect(); guarded(move || exec(&toks)) };
    // (a) random mixtures
    for _ in 0..(60 * scale) {
        let cpb = *r.pick(&[4310u64, 4310, 4310, 1000, 34482]);
        let via = r.below(3);
        let nin = r.range(1, 2) as usize;
        let ins: Vec<(u64, MaShape)> = (0..nin).map(|i| (r.range(3_000_000, 60_000_000), if i == 0 && r.chance(1, 2) { vec![vec![(r.range(0, 32) as usize, r.range(1, 99))]] } else { vec![] })).collect();
        let nout = r.below(3) as usize;
        let outs: Vec<OutD> = (0..nout).map(|_| { let (akind, alen) = gen_addr(&mut r);
            let mut od = OutD { akind, alen, coin: 0, ma: vec![], dat: gen_dat(&mut r, false), sref: plain_sref() };
            od.coin = min_ada_of(&od, cpb).unwrap_or(1_000_000) + r.below(2) * r.below(500_000);
            if r.chance(1, 6) { od.coin -= 1 + r.below(500); }   // refused add in the history
            od }).collect();
        let (ck, cl) = gen_addr(&mut r);
        let dat = if r.chance(1, 3) { gen_dat(&mut r, false) } else { plain_dat() };
        let sref = if via != 0 && r.chance(1, 3) { gen_sref(&mut r, false) } else { plain_sref() };
        let cols: Vec<(u64, MaShape)> = if via == 2 { (0..r.range(1, 2)).map(|i| (r.range(100_000, 3_000_000), if i == 0 && r.chance(1, 4) { vec![vec![(4usize, 7u64)]] } else { vec![] })).collect() } else { vec![] };
        let items = if r.chance(1, 4) { r.range(1, 6) as usize } else { 0 };
        let mts = if r.chance(1, 4) { r.range(300, 900) } else { 16384 };
        emit(&mut out, entry_line(cpb, 5000, mts, r.below(2), &ins, &outs, &ck, cl, &dat, &sref, via, &cols, *r.pick(&[150u64, 100, 1, 1000]), items, aux_len(items)));
    }
    // (b) the collateral remainder just below / at / above the minimum ADA of the return output (and 0, and short by 1)
    for k in 0..(6 * scale) {
        let cpb = 4310u64; let pct = *r.pick(&[150u64, 100, 200]);
        let ins = vec![(r.range(5_000_000, 40_000_000), vec![])];
        let (ck, cl) = match k % 3 { 0 => ("b".to_string(), 57), 1 => ("e".to_string(), 29), _ => gen_addr(&mut r) };
        let with_asset = k % 4 == 3;
        let cma: MaShape = if with_asset { vec![vec![(5usize, 3u64)]] } else { vec![] };
        // learn the fee of this scenario with ample collateral, then place the collateral around required + minimum
        let probe = entry_line(cpb, 5000, 16384, 0, &ins, &vec![], &ck, cl, &plain_dat(), &plain_sref(), 2, &vec![(20_000_000, cma.clone())], pct, 0, 0);
        let res = run_line(&probe);
        let fee: u64 = res.split_whitespace().nth(2).and_then(|x| x.parse().ok()).unwrap_or(170_000);
        let required = fee * pct / 100 + 1;
        let ret = OutD { akind: ck.clone(), alen: cl, coin: 0, ma: cma.clone(), dat: plain_dat(), sref: plain_sref() };
        let min_ret = min_ada_of(&ret, cpb).unwrap_or(1_000_000);
        for d in [-(min_ret as i64) - 1, -(min_ret as i64), -(min_ret as i64) + 1, -(min_ret as i64) / 2, -1000, -1, 0, 1, 1000] {
            let coin = (required as i64 + min_ret as i64 + d) as u64;
            emit(&mut out, entry_line(cpb, 5000, 16384, 0, &ins, &vec![], &ck, cl, &plain_dat(), &plain_sref(), 2, &vec![(coin, cma.clone())], pct, 0, 0));
        }
    }
    // (c) transactions just below / at / above max_tx_size, through many outputs or large metadata, for each balancing entry point
    for k in 0..(8 * scale) {
        let cpb = 4310u64; let via = k % 3;
        let many = k % 2 == 0;
        let nout = if many { r.range(8, 30) as usize } else { r.below(2) as usize };
        let items = if many { 0 } else { r.range(5, 60) as usize };
        let outs: Vec<OutD> = (0..nout).map(|_| { let mut od = OutD { akind: "e".into(), alen: 29, coin: 0, ma: vec![], dat: plain_dat(), sref: plain_sref() };
            od.coin = min_ada_of(&od, cpb).unwrap_or(1_000_000); od }).collect();
        let ins = vec![(60_000_000 + 1_000_000 * nout as u64, vec![])];
        let cols = if via == 2 { vec![(5_000_000u64, vec![])] } else { vec![] };
        let al = aux_len(items);
        let probe = entry_line(cpb, 5000, 1_000_000, 0, &ins, &outs, "b", 57, &plain_dat(), &plain_sref(), via, &cols, 150, items, al);
        let res = run_line(&probe);
        let full: u64 = res.split_whitespace().nth(3).and_then(|x| x.strip_prefix("F=")).and_then(|x| x.parse().ok()).unwrap_or(2000);
        for mts in [full - 1, full, full + 1, full.saturating_sub(r.range(2, 40))] {
            emit(&mut out, entry_line(cpb, 5000, mts, 0, &ins, &outs, "b", 57, &plain_dat(), &plain_sref(), via, &cols, 150, items, al));
        }
        // the same transaction balanced WITHOUT the metadata, which is attached afterwards: the balancing succeeds under a
        // limit the final transaction exceeds, so only the build entry points stand between it and the caller
        if items > 0 {
            for mts in [full - 1, full, full + 1, full - (al as u64) / 2] {
                let l = entry_line(cpb, 5000, mts, 0, &ins, &outs, "b", 57, &plain_dat(), &plain_sref(), via, &cols, 150, items, al);
                emit(&mut out, format!("{}1", &l[..l.len() - 1]));
            }
        }
    }
    // --- minted-asset outputs: max_value_size below / at / above the value of the single minted asset, coin at the minimum -1/0/+1
    for k in 0..(40 * scale) {
        let variant = k % 2;
        let (akind, alen) = gen_addr(&mut r);
        let namelen = *r.pick(&[0usize, 1, 23, 24, 32, 32]); let qty = if r.chance(1, 2) { r.u64_edge().max(1) } else { r.range(1, 1000) };
        let dat = if r.chance(1, 3) { gen_dat(&mut r, false) } else { plain_dat() };
        let sref = if r.chance(1, 4) { gen_sref(&mut r, false) } else { plain_sref() };
        let cpb = *r.pick(&[4310u64, 4310, 1, 34482]);
        let od = OutD { akind: akind.clone(), alen, coin: 0, ma: vec![vec![(namelen, qty)]], dat: dat.clone(), sref: sref.clone() };
        let vs = mk_output(&od, 0).map(|o| o.amount().to_bytes().len() as u64).unwrap_or(50);
        let m = min_ada_of(&od, cpb).unwrap_or(1_000_000);
        let mvs = match r.below(6) { 0 => 40, 1 => vs.saturating_sub(1), 2 => vs, 3 => vs + 4, 4 => vs + 8, _ => 5000 };
        let coin = match r.below(4) { 0 => m.saturating_sub(1), 1 => m, 2 => m + 1, _ => m + r.below(1_000_000) };
        emit(&mut out, format!("mintout {} {} {} {} {} {} {} {} {} {} {} {} {} {}", variant, cpb, mvs, akind, alen, namelen, qty,
             dat.kind, dat.param, dat.len, sref.kind, sref.param, sref.len, coin));
    }
    // --- ADA-only (and one-asset) change to an address of every length class, the leftover swept in fine steps from below the
    //     change output's minimum to above minimum + fee: the calculators price the fake 57-byte address, the fee test sees the
    //     output BEFORE the fee is taken out -- only the admission of the output actually made protects in between
    {
        let classes: Vec<(String, usize)> = vec![("e".into(), 29), ("b".into(), 57), ("y:0".into(), byron_bytes(0).len()),
            ("p:18446744073709551615:18446744073709551615:18446744073709551615".into(), 59), ("y:33".into(), byron_bytes(33).len()),
            (format!("m:{}", seed % 1000), 90)];
        for (ck, cl) in classes.iter() {
            for with_asset in [false, true] {
                for via in [0u64, 1] {
                    if with_asset && via == 1 && !is_thorough() { continue; }
                    let cpb = 4310u64;
                    let ma: MaShape = if with_asset { vec![vec![(3usize, 5u64)]] } else { vec![] };
                    let chg = OutD { akind: ck.clone(), alen: *cl, coin: 0, ma: ma.clone(), dat: plain_dat(), sref: plain_sref() };
                    let fake = OutD { akind: "b".into(), alen: 57, coin: 0, ma: ma.clone(), dat: plain_dat(), sref: plain_sref() };
                    let real_min = min_ada_of(&chg, cpb).unwrap_or(1_000_000); let fake_min = min_ada_of(&fake, cpb).unwrap_or(1_000_000);
                    // the fee of this shape of transaction, from a run with ample change
                    let probe = entry_line(cpb, 5000, 16384, 0, &vec![(20_000_000, ma.clone())], &vec![], ck, *cl, &plain_dat(), &plain_sref(), via, &vec![], 150, 0, 0);
                    let res = run_line(&probe);
                    let fee: u64 = res.split_whitespace().nth(2).and_then(|x| x.parse().ok()).unwrap_or(170_000);
                    let lo = real_min.min(fake_min).saturating_sub(3000); let hi = real_min.max(fake_min) + fee + 3000;
                    let width = real_min.max(fake_min) - real_min.min(fake_min);
                    let step = if is_thorough() { 700 } else { (width / 5).clamp(1500, 12_000) };
                    // coarse over the whole range, fine inside the two critical windows (around the minimum, around minimum + fee)
                    let mut pts: Vec<u64> = vec![];
                    let mut x = lo; while x <= hi { pts.push(x); x += if is_thorough() { 4000 } else { 40_000 }; }
                    for base in [real_min.min(fake_min), real_min.min(fake_min) + fee] {
                        let mut y = base.saturating_sub(2 * step); while y <= base + width + 2 * step { pts.push(y); y += step; }
                        for d in [0u64, 1] { pts.push(base + d); pts.push(base + width + d); pts.push((base + d).saturating_sub(1)); }
                    }
                    pts.sort(); pts.dedup();
                    for l in pts {
                        emit(&mut out, entry_line(cpb, 5000, 16384, 0, &vec![(l, ma.clone())], &vec![], ck, *cl, &plain_dat(), &plain_sref(), via, &vec![], 150, 0, 0));
                    }
                }
            }
        }
    }
    // --- extra witness datums that are value-equal re-spellings of a script witness's datum: what full_size() measures must cover what is emitted
    for k in 0..(10 * scale) {
        let n = match r.below(4) { 0 => r.range(1, 23) as usize, 1 => r.range(24, 255) as usize, 2 => r.range(256, 1500) as usize, _ => 600 };
        let kind = k % 4;
        let probe: Vec<String> = format!("plutus 1000000 {} {}", n, kind).split_whitespace().map(|s| s.to_string()).collect();
        let res = guarded(move || exec(&probe));
        let num = |pre: &str| -> u64 { res.split_whitespace().find_map(|t| t.strip_prefix(pre)).and_then(|x| x.parse().ok()).unwrap_or(800) };
        let (f, l) = (num("F="), num("L="));
        let (lo, hi) = (f.min(l), f.max(l));
        for mts in [lo.saturating_sub(1), lo, lo + 1, (lo + hi) / 2, hi.saturating_sub(1), hi, hi + 1] {
            emit(&mut out, format!("plutus {} {} {}", mts, n, kind));
        }
    }
    // --- build(): max_tx_size guard, limit = full size - 1 / = / + 1 and random
    for _ in 0..(60 * scale) {
        let nin = r.range(1, 4) as usize; let nout = r.range(0, 5) as usize;
        let mut body = format!("I {}", nin);
        for _ in 0..nin { body.push_str(&format!(" {} {}", r.range(2_000_000, 90_000_000), show_ma_shape(&vec![]))); }
        body.push_str(&format!(" O {}", nout));
        for _ in 0..nout {
            let (akind, alen) = gen_addr(&mut r);
            let mut od = OutD { akind, alen, coin: 0, ma: gen_ma(&mut r, false), dat: gen_dat(&mut r, false), sref: gen_sref(&mut r, false) };
            od.coin = min_ada_of(&od, 4310).unwrap_or(1_000_000);
            if r.chance(1, 5) { od.coin -= 1; }
            body.push_str(&format!(" {}", show_out(&od)));
        }
        body.push_str(&format!(" F {}", r.range(150_000, 5_000_000_000)));
        // measure with a generous limit, then place the limit around the measured size
        let probe: Vec<String> = format!("txsize 1000000 {}", body).split_whitespace().map(|s| s.to_string()).collect();
        let res = guarded(move || exec(&probe));
        let full: u64 = res.split_whitespace().nth(2).and_then(|x| x.parse().ok()).unwrap_or(300);
        let mts = match r.below(5) { 0 => full.saturating_sub(1), 1 => full, 2 => full + 1, 3 => r.below(2 * full + 1), _ => 16384 };
        emit(&mut out, format!("txsize {} {}", mts, body));
    }
    // top-up across 2^32 with a bundle whose value is 4997..5000 bytes at a 5-byte coin (mainnet parameters)
    for extra in 14..26usize {
        let mut pol: Vec<(usize, u64)> = (0..141).map(|_| (32usize, 1u64)).collect();
        pol.push((extra, 1));
        let line = format!("build 4310 5000 65536 0 I 1 6000000000 {} O 1 b 57 2000000 0 n 0 0 - 0 0 C b 57 n 0 0", show_ma_shape(&vec![pol]));
        emit(&mut out, line);
    }
    out.finish();
}

fn main() {
    if std::env::var("VERIF_DEBUG").is_err() { silence_panics(); }
    let args: Vec<String> = std::env::args().collect();
    match args.get(1).map(|s| s.as_str()) {
        Some("gen") => gen(&args[2]),
        Some("run") => {
            let mut o = String::new();
            for (idx, toks) in read_cases(&args[2]) {
                let res = guarded(move || exec(&toks));
                o.push_str(&format!("{} {}\n", idx, res));
            }
            std::fs::write(&args[3], o).unwrap();
        }
        _ => { eprintln!("usage: c07 gen <dir> | run <cases> <out>"); std::process::exit(2); }
    }
}
