//! C02 observation / correspondence harness: every public parsing entry point on malformed input.
//!
//!   c02 gen <dir>          read <dir>/model_cases.txt (valid encodings + short accepted inputs produced by the
//!                          model-side generator), derive the malformed stream, run everything, write cases.txt / impl.txt
//!   c02 run <cases> <out>  run the given case lines
//!   c02 worker             child mode: case lines on stdin, one observation line per case on stdout
//!
//! Every case is executed in a CHILD process (`worker`), so that abort (allocation failure, stack overflow) and
//! non-termination become the observations `abort` / `timeout` instead of killing the run.
//! Observation: `ok <hex>` (re-serialised bytes) | `okj` (accepted, no CBOR re-serialisation to judge) | `err` | `panic` | `abort` | `timeout`.
use cardano_serialization_lib::*;
use csl_verif_harness::util::*;
use std::io::{BufRead, BufReader, Write};
use std::process::{Child, ChildStdin, Command, Stdio};
use std::sync::mpsc;

#[path = "c02_parts/mutate.rs"]
mod c02_mutate;
use c02_mutate::*;

/// Producing an error includes FORMATTING it (on wasm every error reaches the caller through its Display text; natively
/// several constructors stringify it): every error a parser returns is formatted here, inside the guarded call, in all
/// the ways the library itself does - Display, Debug, to_string and the DeserializeError -> JsError conversion.
trait ErrObs { fn obs(self) -> String; }
impl ErrObs for DeserializeError {
    fn obs(self) -> String { let _ = format!("{}", self); let _ = format!("{:?}", self); let _ = self.to_string(); let js: JsError = self.into(); js.obs() }
}
impl ErrObs for JsError {
    fn obs(self) -> String { let _ = format!("{}", self); let _ = format!("{:?}", self); let _ = self.to_string(); "err".to_string() }
}

fn text_of(hex_tok: &str) -> Option<String> { String::from_utf8(unhex_or_dash(hex_tok)).ok() }

// ------------------------------------------------------------------------------------------------ dispatch tables
/// CBOR types with from_bytes/to_bytes/from_hex/to_hex/from_json/to_json (impl_to_from!)
macro_rules! cbor_json_types { ($m:ident, $($a:tt)*) => { $m!($($a)*;
    Anchor, AssetName, AssetNames, Assets, AuxiliaryData, BigInt, BigNum, Block, BootstrapWitness, BootstrapWitnesses,
    Certificate, Certificates, Committee, CommitteeColdResign, CommitteeHotAuth, Constitution, CostModel, Costmdls,
    Credential, Credentials, DNSRecordAorAAAA, DNSRecordSRV, DRep, DRepDeregistration, DRepRegistration, DRepUpdate,
    DRepVotingThresholds, Ed25519KeyHashes, ExUnitPrices, ExUnits, GeneralTransactionMetadata, GenesisHashes,
    GenesisKeyDelegation, GovernanceAction, GovernanceActionId, HardForkInitiationAction, Header, HeaderBody, Int, Ipv4,
    Ipv6, Language, MIRToStakeCredentials, Mint, MoveInstantaneousReward, MoveInstantaneousRewardsCert, MultiAsset,
    MultiHostName, NativeScript, NativeScripts, NetworkId, NewConstitutionAction, NoConfidenceAction, Nonce,
    OperationalCert, ParameterChangeAction, PlutusScripts, PoolMetadata, PoolParams, PoolRegistration, PoolRetirement,
    PoolVotingThresholds, ProposedProtocolParameterUpdates, ProtocolParamUpdate, ProtocolVersion, Redeemer, RedeemerTag,
    Redeemers, Relay, Relays, RewardAddresses, ScriptAll, ScriptAny, ScriptHashes, ScriptNOfK, ScriptPubkey, ScriptRef,
    SingleHostAddr, SingleHostName, StakeAndVoteDelegation, StakeDelegation, StakeDeregistration, StakeRegistration,
    StakeRegistrationAndDelegation, StakeVoteRegistrationAndDelegation, TimelockExpiry, TimelockStart, Transaction,
    TransactionBodies, TransactionBody, TransactionInput, TransactionInputs, TransactionOutput, TransactionOutputs,
    TransactionUnspentOutput, TransactionWitnessSet, TransactionWitnessSets, TreasuryWithdrawalsAction, URL, UnitInterval,
    Update, UpdateCommitteeAction, VRFCert, Value, VersionedBlock, Vkey, Vkeywitness, Vkeywitnesses, VoteDelegation,
    VoteRegistrationAndDelegation, Voter, VotingProcedure, VotingProcedures, VotingProposal, VotingProposals, Withdrawals
) } }
/// CBOR types with from_bytes/to_bytes/from_hex/to_hex only (to_from_bytes!)
macro_rules! cbor_only_types { ($m:ident, $($a:tt)*) => { $m!($($a)*;
    ConstrPlutusData, FixedTransaction, MetadataList, MetadataMap, PlutusData, PlutusList, PlutusMap, PlutusScript,
    TransactionMetadatum, TransactionMetadatumLabels
) } }
/// fixed-size hash-like types: raw from_bytes, from_hex, from_bech32 (impl_hash_type!)
macro_rules! hash_types { ($m:ident, $($a:tt)*) => { $m!($($a)*;
    AnchorDataHash, AuxiliaryDataHash, BlockHash, DataHash, Ed25519KeyHash, GenesisDelegateHash, GenesisHash, KESVKey,
    PoolMetadataHash, ScriptDataHash, ScriptHash, TransactionHash, VRFKeyHash, VRFVKey
) } }
/// JSON-only collections (to_from_json!)
macro_rules! json_only_types { ($m:ident, $($a:tt)*) => { $m!($($a)*;
    GovernanceActionIds, MintsAssets, TransactionUnspentOutputs, TreasuryWithdrawals, Voters
) } }

pub const CBOR_JSON_NAMES: &[&str] = &["Anchor", "AssetName", "AssetNames", "Assets", "AuxiliaryData", "BigInt", "BigNum", "Block", "BootstrapWitness", "BootstrapWitnesses",
    "Certificate", "Certificates", "Committee", "CommitteeColdResign", "CommitteeHotAuth", "Constitution", "CostModel", "Costmdls",
    "Credential", "Credentials", "DNSRecordAorAAAA", "DNSRecordSRV", "DRep", "DRepDeregistration", "DRepRegistration", "DRepUpdate",
    "DRepVotingThresholds", "Ed25519KeyHashes", "ExUnitPrices", "ExUnits", "GeneralTransactionMetadata", "GenesisHashes",
    "GenesisKeyDelegation", "GovernanceAction", "GovernanceActionId", "HardForkInitiationAction", "Header", "HeaderBody", "Int", "Ipv4",
    "Ipv6", "Language", "MIRToStakeCredentials", "Mint", "MoveInstantaneousReward", "MoveInstantaneousRewardsCert", "MultiAsset",
    "MultiHostName", "NativeScript", "NativeScripts", "NetworkId", "NewConstitutionAction", "NoConfidenceAction", "Nonce",
    "OperationalCert", "ParameterChangeAction", "PlutusScripts", "PoolMetadata", "PoolParams", "PoolRegistration", "PoolRetirement",
    "PoolVotingThresholds", "ProposedProtocolParameterUpdates", "ProtocolParamUpdate", "ProtocolVersion", "Redeemer", "RedeemerTag",
    "Redeemers", "Relay", "Relays", "RewardAddresses", "ScriptAll", "ScriptAny", "ScriptHashes", "ScriptNOfK", "ScriptPubkey", "ScriptRef",
    "SingleHostAddr", "SingleHostName", "StakeAndVoteDelegation", "StakeDelegation", "StakeDeregistration", "StakeRegistration",
    "StakeRegistrationAndDelegation", "StakeVoteRegistrationAndDelegation", "TimelockExpiry", "TimelockStart", "Transaction",
    "TransactionBodies", "TransactionBody", "TransactionInput", "TransactionInputs", "TransactionOutput", "TransactionOutputs",
    "TransactionUnspentOutput", "TransactionWitnessSet", "TransactionWitnessSets", "TreasuryWithdrawalsAction", "URL", "UnitInterval",
    "Update", "UpdateCommitteeAction", "VRFCert", "Value", "VersionedBlock", "Vkey", "Vkeywitness", "Vkeywitnesses", "VoteDelegation",
    "VoteRegistrationAndDelegation", "Voter", "VotingProcedure", "VotingProcedures", "VotingProposal", "VotingProposals", "Withdrawals"];
pub const CBOR_ONLY_NAMES: &[&str] = &["ConstrPlutusData", "FixedTransaction", "MetadataList", "MetadataMap", "PlutusData", "PlutusList", "PlutusMap", "PlutusScript",
    "TransactionMetadatum", "TransactionMetadatumLabels"];
/// further CBOR decoders behind from_bytes (no to_bytes of their own: the observation re-serialises what they expose)
pub const CBOR_EXTRA_NAMES: &[&str] = &["FixedBlock", "FixedTransactionBodies", "FixedTransactionBody", "FixedVersionedBlock",
    "FixedTransaction.new_from_body_bytes", "FixedTransaction.new", "FixedTransaction.new.wits", "FixedTransaction.new_with_auxiliary.aux",
    "FixedTxWitnessesSet", "PlutusScript.v2", "PlutusScript.v3", "ByronAddress"];
pub const HASH_NAMES: &[(&str, usize)] = &[("AnchorDataHash", 32), ("AuxiliaryDataHash", 32), ("BlockHash", 32), ("DataHash", 32), ("Ed25519KeyHash", 28),
    ("GenesisDelegateHash", 28), ("GenesisHash", 28), ("KESVKey", 32), ("PoolMetadataHash", 32), ("ScriptDataHash", 32), ("ScriptHash", 28),
    ("TransactionHash", 32), ("VRFKeyHash", 32), ("VRFVKey", 32)];
/// raw (non-CBOR) byte decoders: name, a valid length
pub const RAW_NAMES: &[(&str, usize)] = &[("Address", 57), ("Ed25519Signature", 64), ("KESSignature", 448), ("PublicKey", 32), ("PrivateKey.normal", 32),
    ("PrivateKey.extended", 64), ("Bip32PrivateKey", 96), ("Bip32PrivateKey.xprv128", 128), ("Bip32PublicKey", 64),
    ("LegacyDaedalusPrivateKey", 96), ("Bip32PrivateKey.bip39", 16)];
pub const HEX_EXTRA_NAMES: &[&str] = &["Address", "Ed25519Signature", "PublicKey", "PrivateKey", "Bip32PrivateKey", "Bip32PublicKey", "PlutusScript.v2",
    "FixedBlock", "FixedTransactionBodies", "FixedTransactionBody", "FixedVersionedBlock"];
pub const B32_EXTRA_NAMES: &[&str] = &["Address", "Ed25519Signature", "PublicKey", "PrivateKey", "Bip32PrivateKey", "Bip32PublicKey", "DRep"];
pub const JSON_ONLY_NAMES: &[&str] = &["GovernanceActionIds", "MintsAssets", "TransactionUnspentOutputs", "TreasuryWithdrawals", "Voters", "Address"];

macro_rules! dec_arms_json { ($name:expr, $bytes:expr; $($t:ident),*) => { match $name { $( stringify!($t) => Some(match <$t>::from_bytes($bytes) {
    Err(e) => e.obs(),
    Ok(x) => { let re = x.to_bytes(); let _ = x.to_hex(); let _ = x.to_json(); format!("ok {}", hex_or_dash(&re)) } }), )* _ => None } } }
macro_rules! dec_arms_plain { ($name:expr, $bytes:expr; $($t:ident),*) => { match $name { $( stringify!($t) => Some(match <$t>::from_bytes($bytes) {
    Err(e) => e.obs(),
    Ok(x) => { let re = x.to_bytes(); let _ = x.to_hex(); format!("ok {}", hex_or_dash(&re)) } }), )* _ => None } } }
macro_rules! hex_arms { ($name:expr, $s:expr; $($t:ident),*) => { match $name { $( stringify!($t) => Some(match <$t>::from_hex($s) {
    Err(e) => e.obs(),
    Ok(x) => format!("ok {}", hex_or_dash(&x.to_bytes())) }), )* _ => None } } }
macro_rules! json_arms { ($name:expr, $s:expr; $($t:ident),*) => { match $name { $( stringify!($t) => Some(match <$t>::from_json($s) {
    Err(e) => e.obs(),
    Ok(x) => { let _ = x.to_json(); format!("ok {}", hex_or_dash(&x.to_bytes())) } }), )* _ => None } } }
macro_rules! jsononly_arms { ($name:expr, $s:expr; $($t:ident),*) => { match $name { $( stringify!($t) => Some(match <$t>::from_json($s) {
    Err(e) => e.obs(),
    Ok(x) => { let _ = x.to_json(); "okj".to_string() } }), )* _ => None } } }
macro_rules! hash_raw_arms { ($name:expr, $bytes:expr; $($t:ident),*) => { match $name { $( stringify!($t) => Some(match <$t>::from_bytes($bytes) {
    Err(e) => e.obs(),
    Ok(x) => { let _ = x.to_hex(); let _ = x.to_bech32("pfx"); format!("ok {}", hex_or_dash(&x.to_bytes())) } }), )* _ => None } } }
macro_rules! hash_b32_arms { ($name:expr, $s:expr; $($t:ident),*) => { match $name { $( stringify!($t) => Some(match <$t>::from_bech32($s) {
    Err(e) => e.obs(),
    Ok(x) => format!("ok {}", hex_or_dash(&x.to_bytes())) }), )* _ => None } } }

/// a minimal valid transaction body: { 0: #6.258([]), 1: [], 2: 0 }
const MIN_BODY: [u8; 10] = [0xa3, 0x00, 0xd9, 0x01, 0x02, 0x80, 0x01, 0x80, 0x02, 0x00];
fn okb(b: Vec<u8>) -> String { format!("ok {}", hex_or_dash(&b)) }

fn dec_cbor(name: &str, bytes: Vec<u8>) -> String {
    if let Some(r) = cbor_json_types!(dec_arms_json, name, bytes.clone()) { return r; }
    if let Some(r) = cbor_only_types!(dec_arms_plain, name, bytes.clone()) { return r; }
    match name {
        "FixedBlock" => match FixedBlock::from_bytes(bytes) { Err(e) => e.obs(), Ok(x) => {
            let _ = x.block_hash(); let _ = x.invalid_transactions(); let _ = x.auxiliary_data_set();
            let _ = x.transaction_witness_sets().to_bytes(); let _ = x.transaction_bodies();
            okb(x.header().to_bytes()) } },
        "FixedTransactionBodies" => match FixedTransactionBodies::from_bytes(bytes) { Err(e) => e.obs(), Ok(x) => {
            // re-serialise as the array of the original body bytes
            let mut out = vec![0x9fu8]; for i in 0..x.len() { out.extend(x.get(i).original_bytes()); let _ = x.get(i).tx_hash(); } out.push(0xff); okb(out) } },
        "FixedTransactionBody" => match FixedTransactionBody::from_bytes(bytes) { Err(e) => e.obs(), Ok(x) => {
            let _ = x.tx_hash(); let _ = x.transaction_body().to_bytes(); okb(x.original_bytes()) } },
        "FixedVersionedBlock" => match FixedVersionedBlock::from_bytes(bytes) { Err(e) => e.obs(), Ok(x) => {
            let _ = x.era(); okb(x.block().header().to_bytes()) } },
        "FixedTransaction.new_from_body_bytes" => match FixedTransaction::new_from_body_bytes(&bytes) { Err(e) => e.obs(), Ok(x) => {
            let _ = x.transaction_hash(); let _ = x.body().to_bytes(); okb(x.to_bytes()) } },
        // raw-bytes constructors of FixedTransaction (they stringify the decoding error) and the raw-preserving witness set
        "FixedTransaction.new" => match FixedTransaction::new(&bytes, &[0xa0], true) { Err(e) => e.obs(), Ok(x) => {
            let _ = x.transaction_hash(); okb(x.to_bytes()) } },
        "FixedTransaction.new.wits" => match FixedTransaction::new(&MIN_BODY, &bytes, true) { Err(e) => e.obs(), Ok(x) => {
            let _ = x.witness_set().to_bytes(); let _ = x.raw_witness_set(); okb(x.to_bytes()) } },
        "FixedTransaction.new_with_auxiliary.aux" => match FixedTransaction::new_with_auxiliary(&MIN_BODY, &[0xa0], &bytes, true) { Err(e) => e.obs(), Ok(x) => {
            let _ = x.auxiliary_data().map(|a| a.to_bytes()); okb(x.to_bytes()) } },
        "FixedTxWitnessesSet" => match FixedTxWitnessesSet::from_bytes(bytes) { Err(e) => e.obs(), Ok(x) => {
            let _ = x.tx_witnesses_set().to_bytes(); okb(x.to_bytes()) } },
        "PlutusScript.v2" => match PlutusScript::from_bytes_v2(bytes) { Err(e) => e.obs(), Ok(x) => { let _ = x.hash(); okb(x.to_bytes()) } },
        "PlutusScript.v3" => match PlutusScript::from_bytes_v3(bytes) { Err(e) => e.obs(), Ok(x) => { let _ = x.hash(); okb(x.to_bytes()) } },
        "ByronAddress" => match ByronAddress::from_bytes(bytes) { Err(e) => e.obs(), Ok(x) => {
            let _ = x.to_base58(); let _ = x.byron_protocol_magic(); let _ = x.attributes(); let _ = x.network_id(); let _ = x.to_address().to_bytes();
            okb(x.to_bytes()) } },
        _ => "skip unknown-type".into(),
    }
}

fn dec_raw(name: &str, bytes: Vec<u8>) -> String {
    if let Some(r) = hash_types!(hash_raw_arms, name, bytes.clone()) { return r; }
    match name {
        "Address" => match Address::from_bytes(bytes) { Err(e) => e.obs(), Ok(x) => {
            let _ = x.to_bech32(None); let _ = x.to_hex(); let _ = x.kind(); let _ = x.network_id(); let _ = x.payment_cred(); let _ = x.to_json();
            okb(x.to_bytes()) } },
        "Ed25519Signature" => match Ed25519Signature::from_bytes(bytes) { Err(e) => e.obs(), Ok(x) => { let _ = x.to_bech32(); let _ = x.to_hex(); okb(x.to_bytes()) } },
        "KESSignature" => match KESSignature::from_bytes(bytes) { Err(e) => e.obs(), Ok(x) => okb(x.to_bytes()) },
        "PublicKey" => match PublicKey::from_bytes(&bytes) { Err(e) => e.obs(), Ok(x) => { let _ = x.to_bech32(); let _ = x.hash(); okb(x.as_bytes()) } },
        "PrivateKey.normal" => match PrivateKey::from_normal_bytes(&bytes) { Err(e) => e.obs(), Ok(x) => { let _ = x.to_public(); let _ = x.to_bech32(); okb(x.as_bytes()) } },
        "PrivateKey.extended" => match PrivateKey::from_extended_bytes(&bytes) { Err(e) => e.obs(), Ok(x) => { let _ = x.to_public(); let _ = x.to_bech32(); okb(x.as_bytes()) } },
        "Bip32PrivateKey" => match Bip32PrivateKey::from_bytes(&bytes) { Err(e) => e.obs(), Ok(x) => { let _ = x.to_public(); let _ = x.to_128_xprv(); let _ = x.to_bech32(); okb(x.as_bytes()) } },
        "Bip32PrivateKey.xprv128" => match Bip32PrivateKey::from_128_xprv(&bytes) { Err(e) => e.obs(), Ok(x) => { let _ = x.to_128_xprv(); okb(x.as_bytes()) } },
        "Bip32PrivateKey.bip39" => { let x = Bip32PrivateKey::from_bip39_entropy(&bytes, &[]); okb(x.as_bytes()) },
        "Bip32PublicKey" => match Bip32PublicKey::from_bytes(&bytes) { Err(e) => e.obs(), Ok(x) => { let _ = x.to_bech32(); let _ = x.to_raw_key(); okb(x.as_bytes()) } },
        "LegacyDaedalusPrivateKey" => match LegacyDaedalusPrivateKey::from_bytes(&bytes) { Err(e) => e.obs(), Ok(x) => okb(x.as_bytes()) },
        _ => "skip unknown-type".into(),
    }
}

fn dec_hex(name: &str, s: &str) -> String {
    if let Some(r) = cbor_json_types!(hex_arms, name, s) { return r; }
    if let Some(r) = cbor_only_types!(hex_arms, name, s) { return r; }
    if let Some(r) = hash_types!(hex_arms, name, s) { return r; }
    match name {
        "Address" => match Address::from_hex(s) { Err(e) => e.obs(), Ok(x) => okb(x.to_bytes()) },
        "Ed25519Signature" => match Ed25519Signature::from_hex(s) { Err(e) => e.obs(), Ok(x) => okb(x.to_bytes()) },
        "PublicKey" => match PublicKey::from_hex(s) { Err(e) => e.obs(), Ok(x) => okb(x.as_bytes()) },
        "PrivateKey" => match PrivateKey::from_hex(s) { Err(e) => e.obs(), Ok(x) => okb(x.as_bytes()) },
        "Bip32PrivateKey" => match Bip32PrivateKey::from_hex(s) { Err(e) => e.obs(), Ok(x) => okb(x.as_bytes()) },
        "Bip32PublicKey" => match Bip32PublicKey::from_hex(s) { Err(e) => e.obs(), Ok(x) => okb(x.as_bytes()) },
        "PlutusScript.v2" => match PlutusScript::from_hex_with_version(s, &Language::new_plutus_v2()) { Err(e) => e.obs(), Ok(x) => okb(x.to_bytes()) },
        "FixedBlock" => match FixedBlock::from_hex(s) { Err(e) => e.obs(), Ok(x) => okb(x.header().to_bytes()) },
        "FixedTransactionBodies" => match FixedTransactionBodies::from_hex(s) { Err(e) => e.obs(), Ok(_) => "okj".into() },
        "FixedTransactionBody" => match FixedTransactionBody::from_hex(s) { Err(e) => e.obs(), Ok(x) => okb(x.original_bytes()) },
        "FixedVersionedBlock" => match FixedVersionedBlock::from_hex(s) { Err(e) => e.obs(), Ok(x) => okb(x.block().header().to_bytes()) },
        _ => "skip unknown-type".into(),
    }
}

fn dec_b32(name: &str, s: &str) -> String {
    if let Some(r) = hash_types!(hash_b32_arms, name, s) { return r; }
    match name {
        "Address" => match Address::from_bech32(s) { Err(e) => e.obs(), Ok(x) => { let _ = x.to_bech32(None); okb(x.to_bytes()) } },
        "Ed25519Signature" => match Ed25519Signature::from_bech32(s) { Err(e) => e.obs(), Ok(x) => okb(x.to_bytes()) },
        "PublicKey" => match PublicKey::from_bech32(s) { Err(e) => e.obs(), Ok(x) => okb(x.as_bytes()) },
        "PrivateKey" => match PrivateKey::from_bech32(s) { Err(e) => e.obs(), Ok(x) => okb(x.as_bytes()) },
        "Bip32PrivateKey" => match Bip32PrivateKey::from_bech32(s) { Err(e) => e.obs(), Ok(x) => okb(x.as_bytes()) },
        "Bip32PublicKey" => match Bip32PublicKey::from_bech32(s) { Err(e) => e.obs(), Ok(x) => okb(x.as_bytes()) },
        "DRep" => match DRep::from_bech32(s) { Err(e) => e.obs(), Ok(x) => { let _ = x.to_bech32(true); let _ = x.to_bech32(false); okb(x.to_bytes()) } },
        _ => "skip unknown-type".into(),
    }
}

fn dec_json(name: &str, s: &str) -> String {
    if let Some(r) = cbor_json_types!(json_arms, name, s) { return r; }
    if let Some(r) = json_only_types!(jsononly_arms, name, s) { return r; }
    match name {
        "Address" => match Address::from_json(s) { Err(e) => e.obs(), Ok(x) => { let _ = x.to_json(); okb(x.to_bytes()) } },
        _ => "skip unknown-type".into(),
    }
}

fn md_schema(i: &str) -> MetadataJsonSchema { match i { "0" => MetadataJsonSchema::NoConversions, "1" => MetadataJsonSchema::BasicConversions, _ => MetadataJsonSchema::DetailedSchema } }
fn pd_schema(i: &str) -> PlutusDatumSchema { match i { "0" => PlutusDatumSchema::BasicConversions, _ => PlutusDatumSchema::DetailedSchema } }

/// free helpers and text parsers
fn call_fn(name: &str, a: &[String]) -> String {
    let t = |i: usize| -> Option<String> { a.get(i).and_then(|x| text_of(x)) };
    match name {
        "md_from_json" => { let s = match t(1) { Some(s) => s, None => return "err".into() };
            match encode_json_str_to_metadatum(s, md_schema(&a[0])) { Err(e) => e.obs(), Ok(m) => {
                for k in ["0", "1", "2"] { let _ = decode_metadatum_to_json_str(&m, md_schema(k)); }
                okb(m.to_bytes()) } } }
        "md_to_json" => match TransactionMetadatum::from_bytes(unhex_or_dash(&a[1])) { Err(e) => e.obs(), Ok(m) =>
            match decode_metadatum_to_json_str(&m, md_schema(&a[0])) { Err(e) => e.obs(), Ok(js) =>
                // the JSON text the converter emitted must be accepted back by the JSON reader
                match encode_json_str_to_metadatum(js, md_schema(&a[0])) { Err(e) => { let _ = e.obs(); "okj".into() }, Ok(m2) => okb(m2.to_bytes()) } } },
        "md_arbitrary_bytes" => match TransactionMetadatum::from_bytes(unhex_or_dash(&a[0])) { Err(e) => e.obs(), Ok(m) =>
            match decode_arbitrary_bytes_from_metadatum(&m) { Err(e) => e.obs(), Ok(b) => okb(encode_arbitrary_bytes_as_metadatum(&b).to_bytes()) } },
        "pd_from_json" => { let s = match t(1) { Some(s) => s, None => return "err".into() };
            match PlutusData::from_json(&s, pd_schema(&a[0])) { Err(e) => e.obs(), Ok(d) => {
                for k in ["0", "1"] { let _ = decode_plutus_datum_to_json_str(&d, pd_schema(k)); let _ = d.to_json(pd_schema(k)); }
                okb(d.to_bytes()) } } }
        "pd_to_json" => match PlutusData::from_bytes(unhex_or_dash(&a[1])) { Err(e) => e.obs(), Ok(d) =>
            match decode_plutus_datum_to_json_str(&d, pd_schema(&a[0])) { Err(e) => e.obs(), Ok(js) =>
                match encode_json_str_to_plutus_datum(&js, pd_schema(&a[0])) { Err(e) => { let _ = e.obs(); "okj".into() }, Ok(d2) => okb(d2.to_bytes()) } } },
        "ns_from_json" => { let s = match t(1) { Some(s) => s, None => return "err".into() };
            let xpub = t(2).unwrap_or_default();
            let schema = if a[0] == "0" { ScriptSchema::Wallet } else { ScriptSchema::Node };
            match encode_json_str_to_native_script(&s, &xpub, schema) { Err(e) => e.obs(), Ok(n) => okb(n.to_bytes()) } }
        "emip3_decrypt" => { let (p, d) = match (t(0), t(1)) { (Some(p), Some(d)) => (p, d), _ => return "err".into() };
            match decrypt_with_password(&p, &d) { Err(e) => e.obs(), Ok(_) => "okj".into() } }
        "emip3_encrypt" => { let v: Vec<String> = (0..4).filter_map(|i| t(i)).collect(); if v.len() < 4 { return "err".into(); }
            match encrypt_with_password(&v[0], &v[1], &v[2], &v[3]) { Err(e) => e.obs(), Ok(c) =>
                match decrypt_with_password(&v[0], &c) { Err(e) => { let _ = e.obs(); "okj".into() }, Ok(_) => "okj".into() } } }
        "b58" => { let s = match t(0) { Some(s) => s, None => return "err".into() };
            let v = ByronAddress::is_valid(&s);
            match ByronAddress::from_base58(&s) { Err(e) => { let _ = e.obs(); if v { "panic".into() } else { "err".into() } }, Ok(x) => { let _ = x.to_base58(); okb(x.to_bytes()) } } }
        "bignum_str" => { let s = match t(0) { Some(s) => s, None => return "err".into() };
            match BigNum::from_str(&s) { Err(e) => e.obs(), Ok(x) => okb(x.to_bytes()) } }
        "bigint_str" => { let s = match t(0) { Some(s) => s, None => return "err".into() };
            match BigInt::from_str(&s) { Err(e) => e.obs(), Ok(x) => { let _ = x.to_str(); let _ = x.as_u64(); let _ = x.as_int(); okb(x.to_bytes()) } } }
        "int_str" => { let s = match t(0) { Some(s) => s, None => return "err".into() };
            match Int::from_str(&s) { Err(e) => e.obs(), Ok(x) => { let _ = x.to_str(); let _ = x.as_i32(); okb(x.to_bytes()) } } }
        // an Int built through the public constructors, serialised (row 6): arg = magnitude, sign
        "int_new" => { let m: u64 = a[1].parse().unwrap_or(0); let n = BigNum::from_str(&m.to_string()).unwrap();
            let x = if a[0] == "-" { Int::new_negative(&n) } else { Int::new(&n) }; let _ = x.to_str(); okb(x.to_bytes()) }
        // metadata int -> JSON number (row 26)
        "md_int_to_json" => { let m: u64 = a[1].parse().unwrap_or(0); let n = BigNum::from_str(&m.to_string()).unwrap();
            let x = if a[0] == "-" { Int::new_negative(&n) } else { Int::new(&n) };
            let md = TransactionMetadatum::new_int(&x);
            let mut ok = true; for k in ["0", "1", "2"] { if decode_metadatum_to_json_str(&md, md_schema(k)).is_err() { ok = false; } }
            if ok { "okj".into() } else { "err".into() } }
        _ => "skip unknown-fn".into(),
    }
}

fn exec(toks: &[String]) -> String {
    if toks.len() < 2 { return "harness-badcase".into(); }
    let arg = |i: usize| toks.get(i).cloned().unwrap_or_else(|| "-".into());
    match toks[0].as_str() {
        "dec" => dec_cbor(&toks[1], unhex_or_dash(&arg(2))),
        "raw" => dec_raw(&toks[1], unhex_or_dash(&arg(2))),
        "hex" => match text_of(&arg(2)) { Some(s) => dec_hex(&toks[1], &s), None => "err".into() },
        "b32" => match text_of(&arg(2)) { Some(s) => dec_b32(&toks[1], &s), None => "err".into() },
        "json" => match text_of(&arg(2)) { Some(s) => dec_json(&toks[1], &s), None => "err".into() },
        "fn" => call_fn(&toks[1], &toks[2..]),
        "tojson" => tojson(&toks[1], unhex_or_dash(&arg(2))),
        _ => "harness-badcase".into(),
    }
}

macro_rules! tojson_arms { ($name:expr, $bytes:expr; $($t:ident),*) => { match $name { $( stringify!($t) => Some(match <$t>::from_bytes($bytes) {
    Err(e) => e.obs(),
    Ok(x) => match x.to_json() { Ok(js) => format!("ok {}", hex_or_dash(js.as_bytes())), Err(e) => e.obs() } }), )* _ => None } } }
/// helper for the generator (not an observation): the JSON text of a valid value
fn tojson(name: &str, bytes: Vec<u8>) -> String { cbor_json_types!(tojson_arms, name, bytes.clone()).unwrap_or_else(|| "err".into()) }

// ------------------------------------------------------------------------------------------------ worker pool
struct Worker { child: Child, stdin: ChildStdin, rx: mpsc::Receiver<String> }
impl Worker {
    fn spawn() -> Worker {
        let exe = std::env::current_exe().unwrap();
        let mut child = Command::new(exe).arg("worker").stdin(Stdio::piped()).stdout(Stdio::piped()).stderr(Stdio::null()).spawn().unwrap();
        let stdin = child.stdin.take().unwrap();
        let stdout = child.stdout.take().unwrap();
        let (tx, rx) = mpsc::channel();
        std::thread::spawn(move || { for l in BufReader::new(stdout).lines() { match l { Ok(l) => { if tx.send(l).is_err() { break; } } Err(_) => break } } });
        Worker { child, stdin, rx }
    }
    fn kill(&mut self) { let _ = self.child.kill(); let _ = self.child.wait(); }
}

/// runs all cases through `nw` child workers; abort / timeout are observations
fn run_all(cases: &[String], timeout_ms: u64) -> Vec<String> {
    let nw: usize = std::env::var("C02_WORKERS").ok().and_then(|s| s.parse().ok()).unwrap_or(4);
    let n = cases.len();
    let mut results: Vec<String> = vec![String::new(); n];
    let chunks: Vec<(usize, usize)> = (0..nw).map(|w| (w * n / nw, (w + 1) * n / nw)).collect();
    let outs: Vec<Vec<String>> = std::thread::scope(|s| {
        let hs: Vec<_> = chunks.iter().map(|&(lo, hi)| { let cs = &cases[lo..hi]; s.spawn(move || {
            let mut out = Vec::with_capacity(cs.len());
            let mut w = Worker::spawn();
            for c in cs {
                let line = format!("{}\n", c);
                if w.stdin.write_all(line.as_bytes()).and_then(|_| w.stdin.flush()).is_err() { w.kill(); w = Worker::spawn(); let _ = w.stdin.write_all(line.as_bytes()); let _ = w.stdin.flush(); }
                match w.rx.recv_timeout(std::time::Duration::from_millis(timeout_ms)) {
                    Ok(l) => out.push(l),
                    Err(mpsc::RecvTimeoutError::Timeout) => { w.kill(); w = Worker::spawn(); out.push("timeout".into()); }
                    Err(mpsc::RecvTimeoutError::Disconnected) => { w.kill(); w = Worker::spawn(); out.push("abort".into()); }
                }
            }
            w.kill();
            out }) }).collect();
        hs.into_iter().map(|h| h.join().unwrap()).collect()
    });
    let mut i = 0; for o in outs { for r in o { results[i] = r; i += 1; } }
    results
}

fn worker() {
    silence_panics();
    // the loop runs on a thread with the 8 MiB stack of an ordinary main thread, so that recursion depth is judged
    // under ordinary conditions; a stack overflow kills this process and the parent records `abort`
    let h = std::thread::Builder::new().stack_size(8 << 20).spawn(|| {
        let stdin = std::io::stdin();
        let stdout = std::io::stdout();
        for line in stdin.lock().lines() {
            let line = match line { Ok(l) => l, Err(_) => break };
            let toks: Vec<String> = line.split_whitespace().map(|s| s.to_string()).collect();
            let r = if toks.is_empty() { "harness-badcase".to_string() } else { guarded(move || exec(&toks)) };
            let mut o = stdout.lock();
            let _ = writeln!(o, "{}", r); let _ = o.flush();
        }
    }).unwrap();
    let _ = h.join();
}

// ------------------------------------------------------------------------------------------------ generation
fn gen(dir: &str) {
    let seed = seed_from_env();
    let thorough = is_thorough();
    let mut rng = Rng::new(seed ^ 0xC02);
    let mut cases: Vec<String> = Vec::new();
    let path = format!("{}/model_cases.txt", dir);
    let model_txt = std::fs::read_to_string(&path).unwrap_or_default();
    build_cases(&model_txt, &mut rng, thorough, &mut cases);
    let cases = expand_json(cases, &mut rng, thorough, &|cs: &[String]| run_all(cs, 10_000));
    // exhaustive short inputs: executed here, only non-error results become individual cases; errors are counted per decoder
    let mut sweep: Vec<String> = Vec::new();
    build_sweep(&mut rng, thorough, &mut sweep);
    let res = run_all(&cases, 10_000);
    let sres = run_all(&sweep, 10_000);
    let mut out = Out::new(dir);
    for (c, r) in cases.iter().zip(res.iter()) { out.emit(c, r); }
    let mut counts: std::collections::BTreeMap<String, (u64, u64)> = std::collections::BTreeMap::new();
    for (c, r) in sweep.iter().zip(sres.iter()) {
        let mut it = c.split_whitespace(); let kind = it.next().unwrap_or(""); let name = it.next().unwrap_or("");
        let e = counts.entry(format!("{} {}", kind, name)).or_insert((0, 0));
        e.0 += 1;
        if r == "err" { e.1 += 1; } else { out.emit(c, r); }
    }
    for (k, (n, e)) in counts { out.emit(&format!("sweep {} {} {}", k, n, e), "swept"); }
    out.finish();
}

fn main() {
    let args: Vec<String> = std::env::args().collect();
    match args.get(1).map(|s| s.as_str()) {
        Some("gen") => gen(&args[2]),
        Some("worker") => worker(),
        // debugging aid: run one case in this process with the panic message visible
        Some("one") => { let toks: Vec<String> = args[2..].to_vec(); println!("{}", guarded(move || exec(&toks))); }
        Some("run") => {
            let cs = read_cases(&args[2]);
            let lines: Vec<String> = cs.iter().map(|(_, t)| t.join(" ")).collect();
            let live: Vec<String> = lines.iter().filter(|l| !l.starts_with("sweep ")).cloned().collect();
            let res = run_all(&live, 20_000);
            let mut o = String::new(); let mut k = 0;
            for ((idx, _), l) in cs.iter().zip(lines.iter()) {
                if l.starts_with("sweep ") { o.push_str(&format!("{} swept\n", idx)); } else { o.push_str(&format!("{} {}\n", idx, res[k])); k += 1; }
            }
            std::fs::write(&args[3], o).unwrap();
        }
        _ => { eprintln!("usage: c02 gen <dir> | run <cases> <out> | worker"); std::process::exit(2); }
    }
}
