//! C17 correspondence harness: JSON forms and schema conversions.
//! `c17 gen <dir>` generates cases from VERIF_SEED / VERIF_TIER and runs the implementation;
//! `c17 run <cases> <out>` runs the implementation on given case lines (replay / corpus).
//!
//! Token syntax (prefix form, space separated; text = hex of UTF-8, `-` = empty):
//!   JSON tree  : Z | T | F | N <decimal> | NZ (the literal -0) | R <hex of a non-integer literal>
//!                | S <hex> | A <n> <json>*n | O <n> (<hex key> <json>)*n      (objects: ascending keys)
//!   metadatum  : mm <n> (<md> <md>)*n | ml <n> <md>*n | mi <decimal> | mb <hex> | mt <hex>
//!   datum      : pc <alt> <n> <pd>*n | pm <n> (<pd> <nv> <pd>*nv)*n | pl <n> <pd>*n | pi <decimal> | pb <hex>
//! Case kinds (schema: 0 NoConversions, 1 BasicConversions, 2 DetailedSchema):
//!   j2m <schema> <json>     encode_json_str_to_metadatum, then decode_metadatum_to_json_str of the result
//!   m2j <schema> <md>       decode_metadatum_to_json_str, then encode_json_str_to_metadatum of the result
//!   j2p <schema> <json>     encode_json_str_to_plutus_datum, then decode_plutus_datum_to_json_str
//!   p2j <schema> <pd>       decode_plutus_datum_to_json_str, then encode_json_str_to_plutus_datum
//!   chunk <hex>             encode_arbitrary_bytes_as_metadatum, then decode_arbitrary_bytes_from_metadatum
//!   unchunk <md>            decode_arbitrary_bytes_from_metadatum
//!   sfd <type> <json>       serde Deserialize of a hand-written string form, then Serialize of the result
//!   sfs <type> <value>      Serialize, then Deserialize            (type: bignum int bigint hash28 hash32 assetname)
//!   tj <Type> <cbor hex> <json>  annotated typed value: x = from_bytes; `ok <tokens of x.to_json()> ; ok <hex of T::from_json(<json>).to_bytes()> eq=(== x)`;
//!                           <json> is the JSON the MODEL writes for x; bech32 strings travel as placeholders \x01<id><hex> (1 address,
//!                           3 ed25519 public key)
//!   ty <Type> <cbor hex>    typed value x = from_bytes: y = from_json(to_json(x)); `ok eq=(x==y) bytes=(same to_bytes) norm=(same CBOR up to
//!                           map-entry order) fix=(y round-trips exactly) lang=(x holds a Plutus V2/V3 script) negint=(x holds a metadatum
//!                           integer below -2^63) unsorted=(some insertion-ordered map of x that JSON writes sorted is not ascending)` | `err-tojson ..` | `err-fromjson ..` | `skip ..` (observation stream, no model)
//! Observation: `<first leg> ; <second leg>` with a leg = `ok <tokens>` | `err` | `panic`; the second leg is
//! absent when the first did not succeed; `m2j`/`p2j`/`sfs` append `eq=<0|1>` (Rust `==` and equal to_bytes
//! between the original and the value that came back).
#![allow(deprecated)]
use cardano_serialization_lib::*;
use csl_verif_harness::util::*;
use serde_json::Value as JV;
use std::panic::AssertUnwindSafe;

// ------------------------------------------------------------------------------------------------
// token reader
struct Tk<'a> { t: &'a [String], p: usize }
impl<'a> Tk<'a> {
    fn next(&mut self) -> &'a str { let s = self.t.get(self.p).map(|s| s.as_str()).unwrap_or("<eof>"); self.p += 1; s }
    fn count(&mut self) -> usize { self.next().parse::<usize>().expect("count token") }
    fn hex(&mut self) -> Vec<u8> { unhex_or_dash(self.next()) }
    fn text(&mut self) -> String { String::from_utf8(self.hex()).expect("utf8 in case") }
    fn done(&self) -> bool { self.p >= self.t.len() }
}

// ------------------------------------------------------------------------------------------------
// JSON trees (harness side: allows any number literal)
#[derive(Clone, Debug)]
enum J { Null, Bool(bool), Int(String), NegZero, Float(String), Str(String), Arr(Vec<J>), Obj(Vec<(String, J)>) }

fn j_text(j: &J, o: &mut String) {
    match j {
        J::Null => o.push_str("null"),
        J::Bool(b) => o.push_str(if *b { "true" } else { "false" }),
        J::Int(s) => o.push_str(s),
        J::NegZero => o.push_str("-0"),
        J::Float(s) => o.push_str(s),
        J::Str(s) => o.push_str(&serde_json::to_string(s).unwrap()),
        J::Arr(l) => { o.push('['); for (i, x) in l.iter().enumerate() { if i > 0 { o.push(','); } j_text(x, o); } o.push(']'); }
        J::Obj(l) => {
            o.push('{');
            for (i, (k, x)) in l.iter().enumerate() { if i > 0 { o.push(','); } o.push_str(&serde_json::to_string(k).unwrap()); o.push(':'); j_text(x, o); }
            o.push('}');
        }
    }
}
fn j_to_text(j: &J) -> String { let mut o = String::new(); j_text(j, &mut o); o }

fn is_canonical_int(s: &str) -> bool {
    let d = s.strip_prefix('-').unwrap_or(s);
    !d.is_empty() && d.bytes().all(|c| c.is_ascii_digit()) && (d == "0" || !d.starts_with('0')) && s != "-0"
}
/// canonical tokens of a parsed document (serde_json::Value: objects are sorted and free of duplicates)
fn jv_tokens(v: &JV, o: &mut String) {
    match v {
        JV::Null => o.push_str(" Z"),
        JV::Bool(true) => o.push_str(" T"),
        JV::Bool(false) => o.push_str(" F"),
        JV::Number(n) => {
            let s = n.to_string();
            if is_canonical_int(&s) { o.push_str(" N "); o.push_str(&s); }
            else if s == "-0" { o.push_str(" NZ"); }
            else { o.push_str(" R "); o.push_str(&hex_or_dash(s.as_bytes())); }
        }
        JV::String(s) => { o.push_str(" S "); o.push_str(&hex_or_dash(s.as_bytes())); }
        JV::Array(l) => { o.push_str(&format!(" A {}", l.len())); for x in l { jv_tokens(x, o); } }
        JV::Object(m) => {
            o.push_str(&format!(" O {}", m.len()));
            for (k, x) in m.iter() { o.push(' '); o.push_str(&hex_or_dash(k.as_bytes())); jv_tokens(x, o); }
        }
    }
}
fn text_tokens(text: &str) -> Option<String> {
    let v: JV = serde_json::from_str(text).ok()?;
    let mut o = String::new(); jv_tokens(&v, &mut o); Some(o.trim_start().to_string())
}
fn j_parse(t: &mut Tk) -> J {
    match t.next() {
        "Z" => J::Null, "T" => J::Bool(true), "F" => J::Bool(false),
        "N" => J::Int(t.next().to_string()), "NZ" => J::NegZero,
        "R" => J::Float(t.text()), "S" => J::Str(t.text()),
        "A" => { let n = t.count(); J::Arr((0..n).map(|_| j_parse(t)).collect()) }
        "O" => { let n = t.count(); J::Obj((0..n).map(|_| { let k = t.text(); let v = j_parse(t); (k, v) }).collect()) }
        x => panic!("bad json token {}", x),
    }
}

// ------------------------------------------------------------------------------------------------
// metadata trees
#[derive(Clone, Debug, PartialEq)]
enum M { Map(Vec<(M, M)>), List(Vec<M>), Int(i128), Bytes(Vec<u8>), Text(String) }

fn m_parse(t: &mut Tk) -> M {
    match t.next() {
        "mm" => { let n = t.count(); M::Map((0..n).map(|_| { let k = m_parse(t); let v = m_parse(t); (k, v) }).collect()) }
        "ml" => { let n = t.count(); M::List((0..n).map(|_| m_parse(t)).collect()) }
        "mi" => M::Int(t.next().parse::<i128>().expect("mi")),
        "mb" => M::Bytes(t.hex()),
        "mt" => M::Text(t.text()),
        x => panic!("bad md token {}", x),
    }
}
fn m_tok(m: &M, o: &mut String) {
    match m {
        M::Map(l) => { o.push_str(&format!(" mm {}", l.len())); for (k, v) in l { m_tok(k, o); m_tok(v, o); } }
        M::List(l) => { o.push_str(&format!(" ml {}", l.len())); for x in l { m_tok(x, o); } }
        M::Int(i) => o.push_str(&format!(" mi {}", i)),
        M::Bytes(b) => { o.push_str(" mb "); o.push_str(&hex_or_dash(b)); }
        M::Text(s) => { o.push_str(" mt "); o.push_str(&hex_or_dash(s.as_bytes())); }
    }
}
fn m_tokens(m: &M) -> String { let mut o = String::new(); m_tok(m, &mut o); o.trim_start().to_string() }
fn mk_int(i: i128) -> Int {
    if i >= 0 { Int::new(&BigNum::from_str(&i.to_string()).expect("int range")) }
    else if i >= -(u64::MAX as i128) { Int::new_negative(&BigNum::from_str(&(-i).to_string()).unwrap()) }
    else if i == -(1i128 << 64) { Int::from_bytes(vec![0x3b, 255, 255, 255, 255, 255, 255, 255, 255]).unwrap() }
    else { panic!("Int not constructible through the API") }
}
/// builds the library value through the public constructors (None: not constructible, e.g. 65 bytes)
fn m_build(m: &M) -> Option<TransactionMetadatum> {
    Some(match m {
        M::Map(l) => { let mut mm = MetadataMap::new(); for (k, v) in l { mm.insert(&m_build(k)?, &m_build(v)?); } TransactionMetadatum::new_map(&mm) }
        M::List(l) => { let mut ml = MetadataList::new(); for x in l { ml.add(&m_build(x)?); } TransactionMetadatum::new_list(&ml) }
        M::Int(i) => TransactionMetadatum::new_int(&mk_int(*i)),
        M::Bytes(b) => TransactionMetadatum::new_bytes(b.clone()).ok()?,
        M::Text(s) => TransactionMetadatum::new_text(s.clone()).ok()?,
    })
}
fn m_read(x: &TransactionMetadatum) -> M {
    match x.kind() {
        TransactionMetadatumKind::MetadataMap => {
            let mm = x.as_map().unwrap(); let ks = mm.keys();
            M::Map((0..ks.len()).map(|i| { let k = ks.get(i); let v = mm.get(&k).unwrap(); (m_read(&k), m_read(&v)) }).collect())
        }
        TransactionMetadatumKind::MetadataList => { let l = x.as_list().unwrap(); M::List((0..l.len()).map(|i| m_read(&l.get(i))).collect()) }
        TransactionMetadatumKind::Int => M::Int(x.as_int().unwrap().to_str().parse::<i128>().unwrap()),
        TransactionMetadatumKind::Bytes => M::Bytes(x.as_bytes().unwrap()),
        TransactionMetadatumKind::Text => M::Text(x.as_text().unwrap()),
    }
}
fn md_schema(s: &str) -> MetadataJsonSchema {
    match s { "0" => MetadataJsonSchema::NoConversions, "1" => MetadataJsonSchema::BasicConversions, _ => MetadataJsonSchema::DetailedSchema }
}

// ------------------------------------------------------------------------------------------------
// plutus data trees
#[derive(Clone, Debug, PartialEq)]
enum P { Constr(u64, Vec<P>), Map(Vec<(P, Vec<P>)>), List(Vec<P>), Int(String), Bytes(Vec<u8>) }

fn p_parse(t: &mut Tk) -> P {
    match t.next() {
        "pc" => { let a = t.next().parse::<u64>().expect("alt"); let n = t.count(); P::Constr(a, (0..n).map(|_| p_parse(t)).collect()) }
        "pm" => { let n = t.count(); P::Map((0..n).map(|_| { let k = p_parse(t); let nv = t.count(); (k, (0..nv).map(|_| p_parse(t)).collect()) }).collect()) }
        "pl" => { let n = t.count(); P::List((0..n).map(|_| p_parse(t)).collect()) }
        "pi" => P::Int(t.next().to_string()),
        "pb" => P::Bytes(t.hex()),
        x => panic!("bad pd token {}", x),
    }
}
fn p_tok(p: &P, o: &mut String) {
    match p {
        P::Constr(a, l) => { o.push_str(&format!(" pc {} {}", a, l.len())); for x in l { p_tok(x, o); } }
        P::Map(l) => { o.push_str(&format!(" pm {}", l.len())); for (k, vs) in l { p_tok(k, o); o.push_str(&format!(" {}", vs.len())); for v in vs { p_tok(v, o); } } }
        P::List(l) => { o.push_str(&format!(" pl {}", l.len())); for x in l { p_tok(x, o); } }
        P::Int(s) => o.push_str(&format!(" pi {}", s)),
        P::Bytes(b) => { o.push_str(" pb "); o.push_str(&hex_or_dash(b)); }
    }
}
fn p_tokens(p: &P) -> String { let mut o = String::new(); p_tok(p, &mut o); o.trim_start().to_string() }
fn p_build(p: &P) -> PlutusData {
    match p {
        P::Constr(a, l) => { let mut pl = PlutusList::new(); for x in l { pl.add(&p_build(x)); }
            PlutusData::new_constr_plutus_data(&ConstrPlutusData::new(&BigNum::from_str(&a.to_string()).unwrap(), &pl)) }
        P::Map(l) => { let mut pm = PlutusMap::new();
            for (k, vs) in l { let mut mv = PlutusMapValues::new(); for v in vs { mv.add(&p_build(v)); } pm.insert(&p_build(k), &mv); }
            PlutusData::new_map(&pm) }
        P::List(l) => { let mut pl = PlutusList::new(); for x in l { pl.add(&p_build(x)); } PlutusData::new_list(&pl) }
        P::Int(s) => PlutusData::new_integer(&BigInt::from_str(s).expect("pi")),
        P::Bytes(b) => PlutusData::new_bytes(b.clone()),
    }
}
fn p_read(x: &PlutusData) -> P {
    match x.kind() {
        PlutusDataKind::ConstrPlutusData => { let c = x.as_constr_plutus_data().unwrap(); let l = c.data();
            P::Constr(c.alternative().to_str().parse::<u64>().unwrap(), (0..l.len()).map(|i| p_read(&l.get(i))).collect()) }
        PlutusDataKind::Map => { let m = x.as_map().unwrap(); let ks = m.keys();
            P::Map((0..ks.len()).map(|i| { let k = ks.get(i); let vs = m.get(&k).unwrap();
                (p_read(&k), (0..vs.len()).map(|j| p_read(&vs.get(j).unwrap())).collect()) }).collect()) }
        PlutusDataKind::List => { let l = x.as_list().unwrap(); P::List((0..l.len()).map(|i| p_read(&l.get(i))).collect()) }
        PlutusDataKind::Integer => P::Int(x.as_integer().unwrap().to_str()),
        PlutusDataKind::Bytes => P::Bytes(x.as_bytes().unwrap()),
    }
}
fn pd_schema(s: &str) -> PlutusDatumSchema { if s == "1" { PlutusDatumSchema::BasicConversions } else { PlutusDatumSchema::DetailedSchema } }

// ------------------------------------------------------------------------------------------------
// running the implementation
fn leg<F: FnOnce() -> String>(f: F) -> String {
    match std::panic::catch_unwind(AssertUnwindSafe(f)) { Ok(s) => s, Err(_) => "panic".to_string() }
}
fn json_leg(r: Result<String, JsError>) -> (String, Option<String>) {
    match r {
        Err(_) => ("err".to_string(), None),
        Ok(text) => match text_tokens(&text) { Some(t) => (format!("ok {}", t), Some(text)), None => ("harness-unparseable-json".to_string(), None) },
    }
}

fn exec_j2m(sc: &str, j: &J) -> String {
    let text = j_to_text(j);
    let schema = md_schema(sc);
    match encode_json_str_to_metadatum(text, schema) {
        Err(_) => "err".to_string(),
        Ok(m) => {
            let back = leg(|| json_leg(decode_metadatum_to_json_str(&m, schema)).0);
            format!("ok {} ; {}", m_tokens(&m_read(&m)), back)
        }
    }
}
fn exec_m2j(sc: &str, m: &M) -> String {
    let schema = md_schema(sc);
    let x = match m_build(m) { Some(x) => x, None => return "skip not-constructible".to_string() };
    if m_read(&x) != *m { return "skip duplicate-keys".to_string(); }
    let (first, text) = json_leg(decode_metadatum_to_json_str(&x, schema));
    match text {
        None => first,
        Some(text) => {
            let back = leg(|| match encode_json_str_to_metadatum(text, schema) {
                Err(_) => "err".to_string(),
                Ok(y) => format!("ok {} eq={}", m_tokens(&m_read(&y)), (y == x && y.to_bytes() == x.to_bytes()) as u8),
            });
            format!("{} ; {}", first, back)
        }
    }
}
fn exec_j2p(sc: &str, j: &J) -> String {
    let text = j_to_text(j);
    let schema = pd_schema(sc);
    match encode_json_str_to_plutus_datum(&text, schema) {
        Err(_) => "err".to_string(),
        Ok(p) => {
            let back = leg(|| json_leg(decode_plutus_datum_to_json_str(&p, schema)).0);
            format!("ok {} ; {}", p_tokens(&p_read(&p)), back)
        }
    }
}
fn exec_p2j(sc: &str, p: &P) -> String {
    let schema = pd_schema(sc);
    let x = p_build(p);
    if p_read(&x) != *p { return "skip duplicate-keys".to_string(); }
    let (first, text) = json_leg(decode_plutus_datum_to_json_str(&x, schema));
    match text {
        None => first,
        Some(text) => {
            let back = leg(|| match encode_json_str_to_plutus_datum(&text, schema) {
                Err(_) => "err".to_string(),
                Ok(y) => format!("ok {} eq={}", p_tokens(&p_read(&y)), (y == x && y.to_bytes() == x.to_bytes()) as u8),
            });
            format!("{} ; {}", first, back)
        }
    }
}
fn exec_chunk(b: &[u8]) -> String {
    let m = encode_arbitrary_bytes_as_metadatum(b);
    let back = leg(|| match decode_arbitrary_bytes_from_metadatum(&m) { Ok(v) => format!("ok {}", hex_or_dash(&v)), Err(_) => "err".to_string() });
    format!("ok {} ; {}", m_tokens(&m_read(&m)), back)
}
fn exec_unchunk(m: &M) -> String {
    let x = match m_build(m) { Some(x) => x, None => return "skip not-constructible".to_string() };
    match decode_arbitrary_bytes_from_metadatum(&x) { Ok(v) => format!("ok {}", hex_or_dash(&v)), Err(_) => "err".to_string() }
}

// hand-written serde string forms
macro_rules! sfd_arm {
    ($t:ty, $text:expr, $show:expr) => {{
        match serde_json::from_str::<$t>($text) {
            Err(_) => "err".to_string(),
            Ok(x) => {
                let back = leg(|| match serde_json::to_string(&x) { Ok(s) => json_leg(Ok(s)).0, Err(_) => "err".to_string() });
                format!("ok {} ; {}", $show(&x), back)
            }
        }
    }};
}
macro_rules! sfs_arm {
    ($t:ty, $x:expr, $show:expr) => {{
        let x: $t = $x;
        match serde_json::to_string(&x) {
            Err(_) => "err".to_string(),
            Ok(text) => {
                let first = json_leg(Ok(text.clone())).0;
                let back = leg(|| match serde_json::from_str::<$t>(&text) {
                    Err(_) => "err".to_string(),
                    Ok(y) => format!("ok {} eq={}", $show(&y), (y == x && y.to_bytes() == x.to_bytes()) as u8),
                });
                format!("{} ; {}", first, back)
            }
        }
    }};
}
fn exec_sfd(ty: &str, j: &J) -> String {
    let text = j_to_text(j);
    match ty {
        "bignum" => sfd_arm!(BigNum, &text, |x: &BigNum| x.to_str()),
        "int" => sfd_arm!(Int, &text, |x: &Int| x.to_str()),
        "bigint" => sfd_arm!(BigInt, &text, |x: &BigInt| x.to_str()),
        "hash28" => sfd_arm!(Ed25519KeyHash, &text, |x: &Ed25519KeyHash| hex_or_dash(&x.to_bytes())),
        "hash32" => sfd_arm!(TransactionHash, &text, |x: &TransactionHash| hex_or_dash(&x.to_bytes())),
        "assetname" => sfd_arm!(AssetName, &text, |x: &AssetName| hex_or_dash(&x.name())),
        _ => "harness-badtype".to_string(),
    }
}
fn exec_sfs(ty: &str, v: &str) -> String {
    match ty {
        "bignum" => sfs_arm!(BigNum, BigNum::from_str(v).expect("bignum"), |x: &BigNum| x.to_str()),
        "int" => sfs_arm!(Int, mk_int(v.parse::<i128>().expect("int")), |x: &Int| x.to_str()),
        "bigint" => sfs_arm!(BigInt, BigInt::from_str(v).expect("bigint"), |x: &BigInt| x.to_str()),
        "hash28" => sfs_arm!(Ed25519KeyHash, Ed25519KeyHash::from_bytes(unhex_or_dash(v)).expect("hash28"), |x: &Ed25519KeyHash| hex_or_dash(&x.to_bytes())),
        "hash32" => sfs_arm!(TransactionHash, TransactionHash::from_bytes(unhex_or_dash(v)).expect("hash32"), |x: &TransactionHash| hex_or_dash(&x.to_bytes())),
        "assetname" => sfs_arm!(AssetName, AssetName::new(unhex_or_dash(v)).expect("assetname"), |x: &AssetName| hex_or_dash(&x.name())),
        _ => "harness-badtype".to_string(),
    }
}

// ------------------------------------------------------------------------------------------------
// typed values: from_bytes -> to_json -> from_json
/// Canonical form of a CBOR item for a content comparison that ignores encoding choices and map-entry order:
/// minimal heads, definite lengths (chunked strings concatenated), map entries sorted by their canonical bytes;
/// tags, array order and all values are kept.
fn cbor_head(major: u8, n: u64, o: &mut Vec<u8>) {
    let m = major << 5;
    if n < 24 { o.push(m | n as u8) } else if n < 256 { o.push(m | 24); o.push(n as u8) }
    else if n < 65536 { o.push(m | 25); o.extend_from_slice(&(n as u16).to_be_bytes()) }
    else if n < (1u64 << 32) { o.push(m | 26); o.extend_from_slice(&(n as u32).to_be_bytes()) }
    else { o.push(m | 27); o.extend_from_slice(&n.to_be_bytes()) }
}
fn cbor_norm(b: &[u8], p: &mut usize, o: &mut Vec<u8>) -> Option<()> {
    let ib = *b.get(*p)?; *p += 1;
    let major = ib >> 5; let ai = ib & 31;
    let arg: Option<u64> = match ai {
        0..=23 => Some(ai as u64),
        24 => { let v = *b.get(*p)? as u64; *p += 1; Some(v) }
        25 | 26 | 27 => { let n = 1usize << (ai - 24); let s = b.get(*p..*p + n)?; *p += n; Some(s.iter().fold(0u64, |a, x| (a << 8) | *x as u64)) }
        31 => None,
        _ => return None,
    };
    match major {
        0 | 1 => { cbor_head(major, arg?, o); Some(()) }
        7 => { // simple values and floats: kept verbatim
            o.push(ib);
            match ai { 24 => o.push(arg? as u8), 25 => o.extend_from_slice(&(arg? as u16).to_be_bytes()), 26 => o.extend_from_slice(&(arg? as u32).to_be_bytes()),
                       27 => o.extend_from_slice(&arg?.to_be_bytes()), _ => {} }
            Some(())
        }
        2 | 3 => {
            let mut data: Vec<u8> = Vec::new();
            match arg {
                Some(n) => { let s = b.get(*p..(*p).checked_add(n as usize)?)?; data.extend_from_slice(s); *p += n as usize; }
                None => { loop { let c = *b.get(*p)?; if c == 0xff { *p += 1; break; }
                                 if c >> 5 != major { return None; }
                                 let mut chunk = Vec::new(); cbor_norm(b, p, &mut chunk)?;
                                 // strip the chunk's own (canonical) head
                                 let mut q = 0usize; let hb = chunk[0] & 31; q += 1 + match hb { 24 => 1, 25 => 2, 26 => 4, 27 => 8, _ => 0 };
                                 data.extend_from_slice(&chunk[q..]); } }
            }
            cbor_head(major, data.len() as u64, o); o.extend_from_slice(&data); Some(())
        }
        4 => {
            let mut items: Vec<Vec<u8>> = Vec::new();
            match arg {
                Some(n) => { for _ in 0..n { let mut x = Vec::new(); cbor_norm(b, p, &mut x)?; items.push(x); } }
                None => { loop { if *b.get(*p)? == 0xff { *p += 1; break; } let mut x = Vec::new(); cbor_norm(b, p, &mut x)?; items.push(x); } }
            }
            cbor_head(4, items.len() as u64, o); for x in items { o.extend_from_slice(&x); } Some(())
        }
        5 => {
            let mut entries: Vec<(Vec<u8>, Vec<u8>)> = Vec::new();
            let mut one = |p: &mut usize| -> Option<()> { let mut k = Vec::new(); cbor_norm(b, p, &mut k)?; let mut v = Vec::new(); cbor_norm(b, p, &mut v)?; entries.push((k, v)); Some(()) };
            match arg {
                Some(n) => { for _ in 0..n { one(p)?; } }
                None => { loop { if *b.get(*p)? == 0xff { *p += 1; break; } one(p)?; } }
            }
            entries.sort();
            cbor_head(5, entries.len() as u64, o);
            for (k, v) in entries { o.extend_from_slice(&k); o.extend_from_slice(&v); }
            Some(())
        }
        6 => { cbor_head(6, arg?, o); cbor_norm(b, p, o) }
        _ => None,
    }
}
fn cbor_normal(b: &[u8]) -> Option<Vec<u8>> { let mut p = 0; let mut o = Vec::new(); cbor_norm(b, &mut p, &mut o)?; if p == b.len() { Some(o) } else { None } }

// facts about a typed value read through the public accessors (decide the known classes of the typed stream)
fn ps_nonv1(s: &PlutusScript) -> bool { s.language_version().kind() != LanguageKind::PlutusV1 }
fn pss_nonv1(s: &PlutusScripts) -> bool { (0..s.len()).any(|i| ps_nonv1(&s.get(i))) }
fn sr_lang(r: &ScriptRef) -> bool { r.plutus_script().map(|s| ps_nonv1(&s)).unwrap_or(false) }
fn outlang(o: &TransactionOutput) -> bool { o.script_ref().map(|r| sr_lang(&r)).unwrap_or(false) }
fn outs_lang(o: &TransactionOutputs) -> bool { (0..o.len()).any(|i| outlang(&o.get(i))) }
fn body_lang(b: &TransactionBody) -> bool { outs_lang(&b.outputs()) || b.collateral_return().map(|o| outlang(&o)).unwrap_or(false) }
fn ws_lang(w: &TransactionWitnessSet) -> bool { w.plutus_scripts().map(|s| pss_nonv1(&s)).unwrap_or(false) }
fn aux_lang(a: &AuxiliaryData) -> bool { a.plutus_scripts().map(|s| pss_nonv1(&s)).unwrap_or(false) }
fn m_negint(m: &M) -> bool {
    match m { M::Int(i) => *i < i64::MIN as i128, M::List(l) => l.iter().any(m_negint), M::Map(l) => l.iter().any(|(k, v)| m_negint(k) || m_negint(v)), _ => false }
}
fn gm_neg(g: &GeneralTransactionMetadata) -> bool { let ks = g.keys(); (0..ks.len()).any(|i| m_negint(&m_read(&g.get(&ks.get(i)).unwrap()))) }
fn aux_neg(a: &AuxiliaryData) -> bool { a.metadata().map(|g| gm_neg(&g)).unwrap_or(false) }
// insertion-ordered maps that the JSON form writes through a BTreeMap: is some of them NOT in ascending key order?
fn wd_unsorted(w: &Withdrawals) -> bool { let k = w.keys(); (1..k.len()).any(|i| !(k.get(i - 1) < k.get(i))) }
fn pp_unsorted(u: &ProposedProtocolParameterUpdates) -> bool { let k = u.keys(); (1..k.len()).any(|i| !(k.get(i - 1) < k.get(i))) }
fn gm_unsorted(g: &GeneralTransactionMetadata) -> bool { let k = g.keys(); (1..k.len()).any(|i| !(k.get(i - 1) < k.get(i))) }
fn aux_unsorted(a: &AuxiliaryData) -> bool { a.metadata().map(|g| gm_unsorted(&g)).unwrap_or(false) }
fn upd_unsorted(u: &Update) -> bool { pp_unsorted(&u.proposed_protocol_parameter_updates()) }
fn body_unsorted(b: &TransactionBody) -> bool {
    b.withdrawals().map(|w| wd_unsorted(&w)).unwrap_or(false) || b.update().map(|u| upd_unsorted(&u)).unwrap_or(false)
}
fn probe_ord(name: &str, bytes: &[u8]) -> bool {
    let b = bytes.to_vec();
    match name {
        "Withdrawals" => Withdrawals::from_bytes(b).map(|x| wd_unsorted(&x)).unwrap_or(false),
        "ProposedProtocolParameterUpdates" => ProposedProtocolParameterUpdates::from_bytes(b).map(|x| pp_unsorted(&x)).unwrap_or(false),
        "Update" => Update::from_bytes(b).map(|x| upd_unsorted(&x)).unwrap_or(false),
        "GeneralTransactionMetadata" => GeneralTransactionMetadata::from_bytes(b).map(|x| gm_unsorted(&x)).unwrap_or(false),
        "AuxiliaryData" => AuxiliaryData::from_bytes(b).map(|x| aux_unsorted(&x)).unwrap_or(false),
        "TransactionBody" => TransactionBody::from_bytes(b).map(|x| body_unsorted(&x)).unwrap_or(false),
        "Transaction" => Transaction::from_bytes(b).map(|x| body_unsorted(&x.body()) || x.auxiliary_data().map(|a| aux_unsorted(&a)).unwrap_or(false)).unwrap_or(false),
        "Block" => match Block::from_bytes(b) {
            Ok(x) => {
                let bs = x.transaction_bodies(); let ad = x.auxiliary_data_set(); let ix = ad.indices();
                let idx: Vec<u32> = (0..ix.len()).filter_map(|i| ix.get(i).copied()).collect();
                (0..bs.len()).any(|i| body_unsorted(&bs.get(i))) || idx.windows(2).any(|w| !(w[0] < w[1]))
                    || idx.iter().any(|k| ad.get(*k).map(|a| aux_unsorted(&a)).unwrap_or(false)) }
            Err(_) => false },
        _ => false,
    }
}
/// (some Plutus script of language V2/V3 inside, some metadatum integer below -2^63 inside)
fn probe(name: &str, bytes: &[u8]) -> (bool, bool) {
    let b = bytes.to_vec();
    match name {
        "ScriptRef" => (ScriptRef::from_bytes(b).map(|x| sr_lang(&x)).unwrap_or(false), false),
        "PlutusScripts" => (PlutusScripts::from_bytes(b).map(|x| pss_nonv1(&x)).unwrap_or(false), false),
        "TransactionOutputLegacy" | "TransactionOutputLegacyDH" | "TransactionOutputMap" | "TransactionOutput" =>
            (TransactionOutput::from_bytes(b).map(|x| outlang(&x)).unwrap_or(false), false),
        "TransactionOutputs" => (TransactionOutputs::from_bytes(b).map(|x| outs_lang(&x)).unwrap_or(false), false),
        "TransactionBody" => (TransactionBody::from_bytes(b).map(|x| body_lang(&x)).unwrap_or(false), false),
        "TransactionWitnessSet" => (TransactionWitnessSet::from_bytes(b).map(|x| ws_lang(&x)).unwrap_or(false), false),
        "GeneralTransactionMetadata" => (false, GeneralTransactionMetadata::from_bytes(b).map(|x| gm_neg(&x)).unwrap_or(false)),
        "AuxiliaryData" => match AuxiliaryData::from_bytes(b) { Ok(x) => (aux_lang(&x), aux_neg(&x)), Err(_) => (false, false) },
        "Transaction" => match Transaction::from_bytes(b) {
            Ok(x) => { let a = x.auxiliary_data();
                (body_lang(&x.body()) || ws_lang(&x.witness_set()) || a.as_ref().map(aux_lang).unwrap_or(false), a.as_ref().map(aux_neg).unwrap_or(false)) }
            Err(_) => (false, false) },
        "Block" => match Block::from_bytes(b) {
            Ok(x) => {
                let bs = x.transaction_bodies(); let ws = x.transaction_witness_sets(); let ad = x.auxiliary_data_set(); let ix = ad.indices();
                let auxs: Vec<AuxiliaryData> = (0..ix.len()).filter_map(|i| ix.get(i).and_then(|k| ad.get(*k))).collect();
                ((0..bs.len()).any(|i| body_lang(&bs.get(i))) || (0..ws.len()).any(|i| ws_lang(&ws.get(i))) || auxs.iter().any(aux_lang),
                 auxs.iter().any(aux_neg)) }
            Err(_) => (false, false) },
        _ => (false, false),
    }
}

macro_rules! ty_arm {
    ($t:ty, $bytes:expr) => {{
        match <$t>::from_bytes($bytes) {
            Err(_) => "skip decode".to_string(),
            Ok(x) => match x.to_json() {
                Err(_) => "err-tojson".to_string(),
                Ok(s) => match <$t>::from_json(&s) {
                    Err(_) => "err-fromjson".to_string(),
                    Ok(y) => {
                        let xb = x.to_bytes(); let yb = y.to_bytes();
                        let eq = y == x; let bytes = xb == yb;
                        let norm = match (cbor_normal(&xb), cbor_normal(&yb)) { (Some(a), Some(b)) => a == b, _ => false };
                        // the value that came back has its maps filled in ascending key order: it must round-trip exactly
                        let fix = match y.to_json() { Ok(s2) => match <$t>::from_json(&s2) {
                            Ok(z) => z == y && z.to_bytes() == yb && z.to_json().map(|s3| s3 == s2).unwrap_or(false), Err(_) => false }, Err(_) => false };
                        format!("ok eq={} bytes={} norm={} fix={}", eq as u8, bytes as u8, norm as u8, fix as u8)
                    }
                },
            },
        }
    }};
}
macro_rules! dbg_arm {
    ($t:ty, $bytes:expr) => {{
        match <$t>::from_bytes($bytes) {
            Err(e) => format!("decode error {:?}", e),
            Ok(x) => match x.to_json() {
                Err(e) => format!("to_json error: {}", e.to_string()),
                Ok(s) => match <$t>::from_json(&s) {
                    Err(e) => format!("json:\n{}\nfrom_json error: {}", s, e.to_string()),
                    Ok(y) => format!("json:\n{}\nx bytes {}\ny bytes {}\ny json same: {}\nx dbg {:?}\ny dbg {:?}", s, hex::encode(x.to_bytes()), hex::encode(y.to_bytes()), y.to_json().unwrap() == s, x, y),
                },
            },
        }
    }};
}
macro_rules! ty_dispatch {
    ($name:expr, $bytes:expr; $( $s:literal => $t:ty ),* $(,)?) => {
        if std::env::var("C17_DBG").is_ok() { match $name { $( $s => dbg_arm!($t, $bytes), )* _ => "skip unknown-type".to_string(), } } else {
        match $name { $( $s => ty_arm!($t, $bytes), )* _ => "skip unknown-type".to_string(), } }
    };
}
fn exec_ty(name: &str, bytes: Vec<u8>) -> String {
    let (lang, neg) = probe(name, &bytes);
    let unsorted = probe_ord(name, &bytes);
    let r = exec_ty0(name, bytes);
    if r.starts_with("skip") { r } else { format!("{} lang={} negint={} unsorted={}", r, lang as u8, neg as u8, unsorted as u8) }
}
fn exec_ty0(name: &str, bytes: Vec<u8>) -> String {
    ty_dispatch!(name, bytes;
        "TransactionInput" => TransactionInput, "TransactionInputs" => TransactionInputs, "Credential" => Credential,
        "Credentials" => Credentials, "Ed25519KeyHashes" => Ed25519KeyHashes, "DRep" => DRep, "Anchor" => Anchor,
        "UnitInterval" => UnitInterval, "Relay" => Relay, "Relays" => Relays, "PoolMetadata" => PoolMetadata,
        "ProtocolVersion" => ProtocolVersion, "ExUnits" => ExUnits, "ExUnitPrices" => ExUnitPrices, "Nonce" => Nonce,
        "MoveInstantaneousReward" => MoveInstantaneousReward, "Certificate" => Certificate, "Certificates" => Certificates,
        "Assets" => Assets, "MultiAsset" => MultiAsset, "Value" => Value, "Mint" => Mint,
        "Withdrawals" => Withdrawals, "Voter" => Voter, "GovernanceActionId" => GovernanceActionId,
        "VotingProcedure" => VotingProcedure, "VotingProcedures" => VotingProcedures, "Costmdls" => Costmdls,
        "PoolVotingThresholds" => PoolVotingThresholds, "DRepVotingThresholds" => DRepVotingThresholds,
        "ProtocolParamUpdate" => ProtocolParamUpdate,
        "Constitution" => Constitution, "GovernanceAction" => GovernanceAction, "VotingProposal" => VotingProposal,
        "VotingProposals" => VotingProposals, "ProposedProtocolParameterUpdates" => ProposedProtocolParameterUpdates,
        "Update" => Update, "NativeScript" => NativeScript, "NativeScripts" => NativeScripts,
        "PlutusScripts" => PlutusScripts,
        "Redeemers" => Redeemers,
        "GeneralTransactionMetadata" => GeneralTransactionMetadata, "AuxiliaryData" => AuxiliaryData,
        "ScriptRef" => ScriptRef,
        "TransactionOutputLegacy" => TransactionOutput, "TransactionOutputLegacyDH" => TransactionOutput,
        "TransactionOutputMap" => TransactionOutput, "TransactionOutput" => TransactionOutput,
        "TransactionOutputs" => TransactionOutputs, "TransactionBody" => TransactionBody,
        "Vkeywitness" => Vkeywitness, "Vkeywitnesses" => Vkeywitnesses, "BootstrapWitness" => BootstrapWitness,
        "BootstrapWitnesses" => BootstrapWitnesses, "TransactionWitnessSet" => TransactionWitnessSet,
        "Transaction" => Transaction, "VRFCert" => VRFCert, "OperationalCert" => OperationalCert,
        "HeaderBody" => HeaderBody, "Header" => Header, "HeaderBodyPraos" => HeaderBody, "HeaderPraos" => Header, "Block" => Block, "Int" => Int,
    )
}

// ---- `tj`: annotated typed values; externally produced strings (bech32) are exchanged as placeholders ----
fn ph(id: u8, b: &[u8]) -> String { format!("\u{1}{}{}", (b'0' + id) as char, hex::encode(b)) }
/// a string of the implementation's JSON -> placeholder when it is the bech32 text of an address / a public key
fn to_placeholder(s: &str) -> Option<String> {
    if s.starts_with("ed25519_pk1") { if let Ok(k) = PublicKey::from_bech32(s) { return Some(ph(3, &k.as_bytes())); } }
    if s.starts_with("addr") || s.starts_with("stake") {
        if let Ok(a) = Address::from_bech32(s) {
            let b = a.to_bytes();
            return Some(ph(1, &b));
        }
    }
    None
}
fn from_placeholder(s: &str) -> Option<String> {
    let b = s.as_bytes();
    if b.len() >= 2 && b[0] == 1 {
        let raw = hex::decode(&s[2..]).ok()?;
        return match b[1] {
            b'1' | b'2' => Address::from_bytes(raw).ok()?.to_bech32(None).ok(),
            b'3' => Some(PublicKey::from_bytes(&raw).ok()?.to_bech32()),
            _ => None,
        };
    }
    None
}
/// implementation JSON -> exchange form: bech32 strings become placeholders, a string holding JSON text (embedded datum /
/// metadatum) becomes the array ["\u{1}X", <parsed document>]
fn jv_to_ph(v: &JV) -> JV {
    match v {
        JV::String(s) => {
            if let Some(p) = to_placeholder(s) { return JV::String(p); }
            if s.starts_with('{') { if let Ok(inner @ JV::Object(_)) = serde_json::from_str::<JV>(s) { return JV::Array(vec![JV::String("\u{1}X".to_string()), inner]); } }
            v.clone()
        }
        JV::Array(l) => JV::Array(l.iter().map(jv_to_ph).collect()),
        JV::Object(m) => { let mut o = serde_json::Map::new(); for (k, x) in m.iter() { o.insert(to_placeholder(k).unwrap_or_else(|| k.clone()), jv_to_ph(x)); } JV::Object(o) }
        _ => v.clone(),
    }
}
fn jv_from_ph(v: &JV) -> JV {
    match v {
        JV::String(s) => JV::String(from_placeholder(s).unwrap_or_else(|| s.clone())),
        JV::Array(l) => {
            if l.len() == 2 { if let JV::String(m) = &l[0] { if m == "\u{1}X" { return JV::String(serde_json::to_string(&l[1]).unwrap()); } } }
            JV::Array(l.iter().map(jv_from_ph).collect())
        }
        JV::Object(m) => { let mut o = serde_json::Map::new(); for (k, x) in m.iter() { o.insert(from_placeholder(k).unwrap_or_else(|| k.clone()), jv_from_ph(x)); } JV::Object(o) }
        _ => v.clone(),
    }
}
fn j_to_jv(j: &J) -> JV { serde_json::from_str(&j_to_text(j)).expect("model json") }
macro_rules! tj_arm {
    ($t:ty, $bytes:expr, $mj:expr) => {{
        match <$t>::from_bytes($bytes) {
            Err(_) => "skip decode".to_string(),
            Ok(x) => {
                let first = match x.to_json() {
                    Err(_) => "err".to_string(),
                    Ok(s) => match serde_json::from_str::<JV>(&s) {
                        Ok(v) => { let mut o = String::new(); jv_tokens(&jv_to_ph(&v), &mut o); format!("ok {}", o.trim_start()) }
                        Err(_) => "harness-unparseable-json".to_string(),
                    },
                };
                if first == "err" { return "err".to_string(); }
                let text = serde_json::to_string(&jv_from_ph(&j_to_jv($mj))).unwrap();
                let back = leg(|| match <$t>::from_json(&text) {
                    Err(_) => "err".to_string(),
                    Ok(y) => format!("ok {} eq={}", hex_or_dash(&y.to_bytes()), (y == x) as u8),
                });
                format!("{} ; {}", first, back)
            }
        }
    }};
}
macro_rules! tj_dispatch {
    ($name:expr, $bytes:expr, $mj:expr; $( $s:literal => $t:ty ),* $(,)?) => {
        match $name { $( $s => tj_arm!($t, $bytes, $mj), )* _ => "skip unknown-type".to_string(), }
    };
}
fn exec_tj(name: &str, bytes: Vec<u8>, mj: &J) -> String {
    tj_dispatch!(name, bytes, mj;
        "TransactionInput" => TransactionInput, "TransactionInputs" => TransactionInputs, "Credential" => Credential,
        "Credentials" => Credentials, "Ed25519KeyHashes" => Ed25519KeyHashes, "DRep" => DRep, "Anchor" => Anchor,
        "UnitInterval" => UnitInterval, "Relay" => Relay, "Relays" => Relays, "PoolMetadata" => PoolMetadata,
        "ProtocolVersion" => ProtocolVersion, "ExUnits" => ExUnits, "ExUnitPrices" => ExUnitPrices, "Nonce" => Nonce,
        "MoveInstantaneousReward" => MoveInstantaneousReward, "Certificate" => Certificate, "Certificates" => Certificates,
        "Assets" => Assets, "MultiAsset" => MultiAsset, "Value" => Value, "Mint" => Mint,
        "Withdrawals" => Withdrawals, "Voter" => Voter, "GovernanceActionId" => GovernanceActionId,
        "VotingProcedure" => VotingProcedure, "VotingProcedures" => VotingProcedures, "Costmdls" => Costmdls,
        "PoolVotingThresholds" => PoolVotingThresholds, "DRepVotingThresholds" => DRepVotingThresholds,
        "ProtocolParamUpdate" => ProtocolParamUpdate,
        "Constitution" => Constitution, "GovernanceAction" => GovernanceAction, "VotingProposal" => VotingProposal,
        "VotingProposals" => VotingProposals, "ProposedProtocolParameterUpdates" => ProposedProtocolParameterUpdates,
        "Update" => Update, "NativeScript" => NativeScript, "NativeScripts" => NativeScripts,
        "PlutusScripts" => PlutusScripts, "Redeemers" => Redeemers,
        "GeneralTransactionMetadata" => GeneralTransactionMetadata, "AuxiliaryData" => AuxiliaryData,
        "ScriptRef" => ScriptRef,
        "TransactionOutputLegacy" => TransactionOutput, "TransactionOutputLegacyDH" => TransactionOutput,
        "TransactionOutputMap" => TransactionOutput, "TransactionOutput" => TransactionOutput,
        "TransactionOutputs" => TransactionOutputs, "TransactionBody" => TransactionBody,
        "Vkeywitness" => Vkeywitness, "Vkeywitnesses" => Vkeywitnesses, "BootstrapWitness" => BootstrapWitness,
        "BootstrapWitnesses" => BootstrapWitnesses, "TransactionWitnessSet" => TransactionWitnessSet,
        "Transaction" => Transaction, "VRFCert" => VRFCert, "OperationalCert" => OperationalCert,
        "HeaderBody" => HeaderBody, "Header" => Header, "HeaderBodyPraos" => HeaderBody, "HeaderPraos" => Header, "Block" => Block, "Int" => Int,
    )
}

fn exec(toks: &[String]) -> String {
    let mut t = Tk { t: toks, p: 0 };
    let kind = t.next();
    let r = match kind {
        "j2m" => { let sc = t.next(); let j = j_parse(&mut t); exec_j2m(sc, &j) }
        "m2j" => { let sc = t.next(); let m = m_parse(&mut t); exec_m2j(sc, &m) }
        "j2p" => { let sc = t.next(); let j = j_parse(&mut t); exec_j2p(sc, &j) }
        "p2j" => { let sc = t.next(); let p = p_parse(&mut t); exec_p2j(sc, &p) }
        "chunk" => { let b = t.hex(); exec_chunk(&b) }
        "unchunk" => { let m = m_parse(&mut t); exec_unchunk(&m) }
        "sfd" => { let ty = t.next(); let j = j_parse(&mut t); exec_sfd(ty, &j) }
        "sfs" => { let ty = t.next(); let v = t.next(); exec_sfs(ty, v) }
        "ty" => { let name = t.next(); let b = t.hex(); exec_ty(name, b) }
        "tj" => { let name = t.next(); let b = t.hex(); let j = j_parse(&mut t); exec_tj(name, b, &j) }
        _ => return "harness-badcase".to_string(),
    };
    if !t.done() { return "harness-trailing-tokens".to_string(); }
    r
}

// ------------------------------------------------------------------------------------------------
// generators
const WORDS: [&str; 14] = ["a", "b", "key", "name", "k", "v", "int", "map", "list", "bytes", "string", "", "constructor", "fields"];

fn gen_ascii(r: &mut Rng, n: usize) -> String { (0..n).map(|_| (b'a' + r.below(26) as u8) as char).collect() }
fn gen_len(r: &mut Rng) -> usize { match r.below(12) { 0 => 0, 1 => 1, 2 => 63, 3 => 64, 4 => 65, 5 => 32, 6 => 66 + r.below(40) as usize, _ => r.below(12) as usize } }
fn gen_text(r: &mut Rng) -> String {
    match r.below(10) {
        0 => WORDS[r.below(WORDS.len() as u64) as usize].to_string(),
        1 => { // multi-byte UTF-8 near the 64-byte limit (byte length, not chars)
            let n = [20usize, 21, 22, 31, 32, 33][r.below(6) as usize];
            let c = *r.pick(&['\u{e9}', '\u{4e2d}', '\u{1F600}', '\u{7f}', '\u{80}', '\u{9f}']);
            let mut s: String = std::iter::repeat(c).take(n).collect(); if r.chance(1, 2) { s.push('x'); } s }
        2 => { let n = r.below(4) as usize; format!("{}\n\t\"\\\u{1}{}", gen_ascii(r, n), gen_ascii(r, 2)) }
        _ => { let n = gen_len(r); gen_ascii(r, n) }
    }
}
fn gen_hexish(r: &mut Rng) -> String {
    let n = match r.below(8) { 0 => 0, 1 => 64, 2 => 65, 3 => 63, 4 => 1, _ => r.below(10) as usize };
    let b = r.bytes(n);
    let mut h = hex::encode(&b);
    match r.below(10) { 0 => h = h.to_uppercase(), 1 => { if !h.is_empty() { h.pop(); } } 2 => h.push_str("zz"),
        3 => { h = h.chars().enumerate().map(|(i, c)| if i % 3 == 0 { c.to_ascii_uppercase() } else { c }).collect() } _ => {} }
    h
}
fn gen_i128_edge(r: &mut Rng) -> i128 {
    let u = r.u64_edge() as i128;
    match r.below(12) {
        0 => i64::MIN as i128, 1 => i64::MIN as i128 - 1, 2 => i64::MIN as i128 + 1, 3 => u64::MAX as i128, 4 => u64::MAX as i128 + 1,
        5 => -(u64::MAX as i128), 6 => -(u64::MAX as i128) - 1, 7 => -u, 8 => -(u >> 1), 9 => i64::MAX as i128 + r.below(3) as i128 - 1,
        _ => u,
    }
}
fn gen_number(r: &mut Rng) -> J {
    match r.below(16) {
        0 => J::NegZero,
        1 => J::Float((*r.pick(&["1.5", "1e2", "-0.0", "1E400", "0.0", "12.0", "-1e-2", "2e0"])).to_string()),
        2 => J::Int((*r.pick(&["170141183460469231731687303715884105728", "-170141183460469231731687303715884105729",
                               "340282366920938463463374607431768211456", "99999999999999999999999", "-99999999999999999999999"])).to_string()),
        _ => J::Int(gen_i128_edge(r).to_string()),
    }
}
fn gen_numkey(r: &mut Rng) -> String {
    let v = gen_i128_edge(r);
    match r.below(10) {
        0 => format!("+{}", v.abs()), 1 => format!("0{}", v.abs()), 2 => "-0".to_string(), 3 => format!("{}_0", v), 4 => format!(" {}", v),
        5 => (*r.pick(&["170141183460469231731687303715884105727", "170141183460469231731687303715884105728",
                        "-170141183460469231731687303715884105728", "-170141183460469231731687303715884105729",
                        "99999999999999999999999", "18446744073709551616", "-18446744073709551616", "-18446744073709551615", "-9223372036854775809",
                        "-9223372036854775808", "18446744073709551615", "-", "+", "--1", "1e3", "0x", "0X00"])).to_string(),
        _ => v.to_string(),
    }
}
/// directed family around the "0x" rule (exactly ONE leading "0x" is a byte literal when the rest is even-length hex)
fn gen_0x_family(r: &mut Rng) -> String {
    let h = { let n = r.below(4) as usize; hex::encode(r.bytes(n)) };
    let hu = h.to_uppercase();
    match r.below(22) {
        0 => "0x".to_string(), 1 => "0x0x".to_string(), 2 => format!("0x0x{}", h), 3 => format!("0x0x0x{}", h),
        4 => format!("0X{}", h), 5 => format!("0x{}1", h), 6 => "0xzz".to_string(), 7 => format!(" 0x{}", h), 8 => format!("0x{} ", h),
        9 => format!("00x{}", h), 10 => format!("x0x{}", h), 11 => format!("0x{}", hu), 12 => format!("0x0X{}", h), 13 => format!("0x{}0x", h),
        14 => format!("0x0x{}", hu), 15 => format!("0x0x{}1", h), 16 => "0x0x0x".to_string(), 17 => format!("0x{}0x{}", h, h),
        18 => format!("0x0{}", h), 19 => "0".to_string(), 20 => "x".to_string(), _ => format!("0x{}", h),
    }
}
fn gen_str_plain(r: &mut Rng) -> String {
    match r.below(10) { 0 | 1 => format!("0x{}", gen_hexish(r)), 2 => gen_numkey(r), 3 => format!("0X{}", gen_hexish(r)), 4 | 5 => gen_0x_family(r), _ => gen_text(r) }
}
/// JSON for NoConversions / BasicConversions (mostly inside the schema, with excursions)
fn gen_j_plain(r: &mut Rng, depth: u32) -> J {
    let k = if depth == 0 { r.below(6) } else { r.below(10) };
    match k {
        0 | 1 => gen_number(r),
        2 | 3 | 4 => J::Str(gen_str_plain(r)),
        5 => match r.below(6) { 0 => J::Null, 1 => J::Bool(r.chance(1, 2)), _ => gen_number(r) },
        6 | 7 => { let n = r.below(4) as usize; J::Arr((0..n).map(|_| gen_j_plain(r, depth - 1)).collect()) }
        _ => {
            let n = r.below(5) as usize;
            let mut l: Vec<(String, J)> = (0..n).map(|_| (gen_str_plain(r), gen_j_plain(r, depth - 1))).collect();
            if r.chance(1, 6) { // several spellings of one integer / one byte string: they collide as metadata keys
                let v = r.below(100);
                for k in [format!("{}", v), format!("+{}", v), format!("0{}", v), format!("0x{:02x}", v), format!("0x{:02X}", v)] {
                    if r.chance(2, 3) { l.push((k, gen_j_plain(r, 0))); }
                }
            }
            J::Obj(l)
        }
    }
}
/// JSON in (or near) the detailed metadata schema
fn gen_j_detailed(r: &mut Rng, depth: u32, wild: bool) -> J {
    let one = |k: &str, v: J| J::Obj(vec![(k.to_string(), v)]);
    if wild && r.chance(1, 12) { return gen_j_plain(r, 1); }
    let k = if depth == 0 { r.below(6) } else { r.below(10) };
    match k {
        0 | 1 => one("int", if wild && r.chance(1, 10) { J::Str("5".into()) } else { gen_number(r) }),
        2 | 3 => one("string", if wild && r.chance(1, 10) { gen_number(r) } else { J::Str(gen_str_plain(r)) }),
        4 | 5 => one("bytes", if wild && r.chance(1, 10) { J::Arr(vec![]) } else if r.chance(1, 8) { J::Str(format!("0x{}", gen_hexish(r))) } else { J::Str(gen_hexish(r)) }),
        6 | 7 => { let n = r.below(4) as usize; let l = J::Arr((0..n).map(|_| gen_j_detailed(r, depth - 1, wild)).collect());
                   if wild && r.chance(1, 10) { one("list", J::Obj(vec![])) } else { one("list", l) } }
        _ => {
            let n = r.below(4) as usize;
            let mut es: Vec<J> = (0..n).map(|_| {
                let kj = gen_j_detailed(r, depth - 1, wild); let vj = gen_j_detailed(r, depth - 1, wild);
                let mut e = vec![("k".to_string(), kj), ("v".to_string(), vj)];
                if wild { match r.below(14) { 0 => { e.push(("z".to_string(), J::Null)); } 1 => { e.remove(0); } 2 => { e.remove(1); }
                                               3 => { e.push(("a".to_string(), J::Int("1".into()))); } _ => {} } }
                if wild && r.chance(1, 20) { J::Arr(vec![]) } else { J::Obj(e) }
            }).collect();
            if n > 0 && r.chance(1, 5) { let d = es[0].clone(); es.push(d); }            // duplicate key
            if wild && r.chance(1, 10) { one(*r.pick(&["Map", "maps", "constructor", ""]), J::Arr(es)) }
            else if wild && r.chance(1, 10) { J::Obj(vec![("map".to_string(), J::Arr(es)), ("int".to_string(), J::Int("1".into()))]) }
            else { one("map", J::Arr(es)) }
        }
    }
}
fn gen_md(r: &mut Rng, depth: u32, textkeys: bool) -> M {
    let k = if depth == 0 { r.below(6) } else { r.below(10) };
    match k {
        0 | 1 => M::Int(match r.below(10) { 0 => -(1i128 << 64), _ => { let v = gen_i128_edge(r); if v < -(1i128 << 64) || v > u64::MAX as i128 { 7 } else { v } } }),
        2 | 3 => M::Text({ let mut s = gen_str_plain(r); while s.len() > 64 { s.pop(); } s }),
        4 => M::Bytes({ let n = match r.below(6) { 0 => 0, 1 => 64, 2 => 63, _ => r.below(10) as usize }; r.bytes(n) }),
        5 => if textkeys { M::Text(gen_ascii(r, 3)) } else { M::Bytes(r.bytes(2)) },
        6 | 7 => { let n = r.below(4) as usize; M::List((0..n).map(|_| gen_md(r, depth - 1, textkeys)).collect()) }
        _ => {
            let n = r.below(5) as usize;
            let mut l: Vec<(M, M)> = Vec::new();
            for _ in 0..n {
                let key = if textkeys || r.chance(1, 2) { M::Text({ let mut s = gen_str_plain(r); while s.len() > 64 { s.pop(); } s }) } else { gen_md(r, depth - 1, false) };
                if l.iter().any(|(k, _)| *k == key) { continue; }
                l.push((key, gen_md(r, depth - 1, textkeys)));
            }
            if textkeys && r.chance(2, 3) { l.sort_by(|a, b| match (&a.0, &b.0) { (M::Text(x), M::Text(y)) => x.as_bytes().cmp(y.as_bytes()), _ => std::cmp::Ordering::Equal }); }
            M::Map(l)
        }
    }
}
/// metadata inside the NoConversions schema (text keys, no bytes, integers JSON can carry); maps sorted or shuffled
fn gen_md_noconv(r: &mut Rng, depth: u32, sorted: bool) -> M {
    let k = if depth == 0 { r.below(5) } else { r.below(10) };
    match k {
        0 | 1 => M::Int({ let v = gen_i128_edge(r); if v < i64::MIN as i128 || v > u64::MAX as i128 { -1 } else { v } }),
        2 | 3 | 4 => M::Text({ let mut s = gen_str_plain(r); while s.len() > 64 { s.pop(); } s }),
        5 | 6 => { let n = r.below(4) as usize; M::List((0..n).map(|_| gen_md_noconv(r, depth - 1, sorted)).collect()) }
        _ => {
            let n = 1 + r.below(5) as usize;
            let mut l: Vec<(M, M)> = Vec::new();
            for _ in 0..n {
                let key = M::Text({ let mut s = gen_str_plain(r); while s.len() > 64 { s.pop(); } s });
                if l.iter().any(|(k, _)| *k == key) { continue; }
                l.push((key, gen_md_noconv(r, depth - 1, sorted)));
            }
            l.sort_by(|a, b| match (&a.0, &b.0) { (M::Text(x), M::Text(y)) => x.as_bytes().cmp(y.as_bytes()), _ => std::cmp::Ordering::Equal });
            if !sorted && l.len() > 1 { let i = r.below(l.len() as u64 - 1) as usize; l.swap(i, i + 1); if r.chance(1, 2) { l.reverse(); } }
            M::Map(l)
        }
    }
}
fn gen_bigint(r: &mut Rng) -> String {
    match r.below(8) {
        0 => "0".to_string(),
        1 => { let n = 20 + r.below(60) as usize; let mut s: String = (0..n).map(|_| (b'0' + r.below(10) as u8) as char).collect(); s.insert(0, '1'); if r.chance(1, 2) { s.insert(0, '-'); } s }
        2 => (*r.pick(&["18446744073709551616", "-18446744073709551616", "-18446744073709551617", "-9223372036854775808", "-9223372036854775809", "18446744073709551615"])).to_string(),
        _ => gen_i128_edge(r).to_string(),
    }
}
fn gen_pd(r: &mut Rng, depth: u32, quirks: bool) -> P {
    let k = if depth == 0 { r.below(5) } else { r.below(10) };
    match k {
        0 | 1 => P::Int(gen_bigint(r)),
        2 | 3 => P::Bytes({ let n = match r.below(8) { 0 => 0, 1 => 64, 2 => 65, 3 => 100, _ => r.below(8) as usize }; r.bytes(n) }),
        4 => P::Constr(*r.pick(&[0u64, 1, 6, 7, 127, 128, u64::MAX, 1 << 63]), vec![]),
        5 | 6 => { let n = r.below(4) as usize; P::List((0..n).map(|_| gen_pd(r, depth - 1, quirks)).collect()) }
        7 => { let n = r.below(3) as usize; P::Constr(r.u64_edge(), (0..n).map(|_| gen_pd(r, depth - 1, quirks)).collect()) }
        _ => {
            let n = r.below(4) as usize;
            let mut l: Vec<(P, Vec<P>)> = Vec::new();
            for _ in 0..n {
                let key = gen_pd(r, depth - 1, quirks);
                if l.iter().any(|(k, _)| *k == key) { continue; }
                let nv = if quirks { match r.below(8) { 0 => 0, 1 => 2, 2 => 3, _ => 1 } } else { 1 };
                l.push((key, (0..nv).map(|_| gen_pd(r, depth - 1, quirks)).collect()));
            }
            P::Map(l)
        }
    }
}
/// data for the BasicConversions direction: byte strings that are / are not UTF-8, with / without control characters
fn gen_pd_basic(r: &mut Rng, depth: u32) -> P {
    let bytes = |r: &mut Rng| -> Vec<u8> {
        match r.below(10) {
            0 => vec![0xc2, 0x80 + r.below(0x40) as u8],
            1 => vec![b'a', 0x7f], 2 => vec![0x1f, b'b'], 3 => vec![0xe0, 0x9f, 0x80], 4 => vec![0xed, 0xa0, 0x80],
            5 => "\u{e9}\u{4e2d}\u{1F600}".as_bytes().to_vec(), 6 => vec![0xf4, 0x90, 0x80, 0x80], 7 => vec![0xc0, 0x80],
            8 => { let n = r.below(6) as usize; r.bytes(n) }
            _ => gen_str_plain(r).into_bytes(),
        }
    };
    let k = if depth == 0 { r.below(5) } else { r.below(10) };
    match k {
        0 | 1 => P::Int(gen_bigint(r)),
        2 | 3 | 4 => P::Bytes(bytes(r)),
        5 | 6 => { let n = r.below(4) as usize; P::List((0..n).map(|_| gen_pd_basic(r, depth - 1)).collect()) }
        7 => { let n = r.below(3) as usize; P::Constr(r.u64_edge(), (0..n).map(|_| gen_pd_basic(r, depth - 1)).collect()) }
        _ => {
            let n = r.below(4) as usize;
            let mut l: Vec<(P, Vec<P>)> = Vec::new();
            for _ in 0..n {
                let key = if r.chance(1, 8) { gen_pd_basic(r, depth - 1) } else if r.chance(1, 2) { P::Int(gen_bigint(r)) } else { P::Bytes(bytes(r)) };
                if l.iter().any(|(k, _)| *k == key) { continue; }
                let nv = match r.below(10) { 0 => 0, 1 | 2 => 2, 3 => 3, _ => 1 };
                l.push((key, (0..nv).map(|_| gen_pd_basic(r, depth - 1)).collect()));
            }
            P::Map(l)
        }
    }
}
/// JSON in (or near) the detailed plutus schema
fn gen_j_pdetailed(r: &mut Rng, depth: u32, wild: bool) -> J {
    let one = |k: &str, v: J| J::Obj(vec![(k.to_string(), v)]);
    if wild && r.chance(1, 12) { return gen_j_plain(r, 1); }
    let k = if depth == 0 { r.below(5) } else { r.below(10) };
    match k {
        0 | 1 => one("int", if r.chance(1, 4) { J::Int(gen_bigint(r)) } else { gen_number(r) }),
        2 | 3 => one("bytes", if r.chance(1, 8) { J::Str(format!("0x{}", gen_hexish(r))) } else { J::Str(gen_hexish(r)) }),
        4 => one(*r.pick(&["string", "int", "bytes", "list", "map"]), J::Str("00".into())),
        5 | 6 => { let n = r.below(4) as usize; one("list", J::Arr((0..n).map(|_| gen_j_pdetailed(r, depth - 1, wild)).collect())) }
        7 => {
            let n = r.below(3) as usize;
            let fields = J::Arr((0..n).map(|_| gen_j_pdetailed(r, depth - 1, wild)).collect());
            let altj = if wild && r.chance(1, 6) { r.pick(&[J::NegZero, J::Int("-1".into()), J::Int("18446744073709551616".into()), J::Float("1.0".into()), J::Str("1".into())]).clone() }
                       else { J::Int(r.u64_edge().to_string()) };
            let mut o = vec![("constructor".to_string(), altj), ("fields".to_string(), fields)];
            if wild { match r.below(12) { 0 => { o.push(("x".to_string(), J::Null)); } 1 => { o.remove(0); o.push(("x".to_string(), J::Null)); }
                                           2 => { o[1] = ("fields".to_string(), J::Obj(vec![])); } _ => {} } }
            J::Obj(o)
        }
        _ => {
            let n = r.below(4) as usize;
            let mut es: Vec<J> = (0..n).map(|_| {
                let mut e = vec![("k".to_string(), gen_j_pdetailed(r, depth - 1, wild)), ("v".to_string(), gen_j_pdetailed(r, depth - 1, wild))];
                if wild { match r.below(14) { 0 => { e.push(("z".to_string(), J::Null)); } 1 => { e.remove(0); } 2 => { e.remove(1); } _ => {} } }
                J::Obj(e)
            }).collect();
            if n > 0 && r.chance(1, 4) { let d = es[0].clone(); es.push(d); }
            if n > 1 && r.chance(1, 4) { let d = es[0].clone(); es.insert(2.min(es.len()), d); }
            one("map", J::Arr(es))
        }
    }
}
impl PartialEq for J { fn eq(&self, o: &J) -> bool { j_to_text(self) == j_to_text(o) } }

fn emit_json_case(out: &mut Out, kind: &str, sc: &str, j: &J) {
    let text = j_to_text(j);
    let toks = match text_tokens(&text) { Some(t) => t, None => return };   // canonical (sorted, deduplicated) form
    let line = format!("{} {} {}", kind, sc, toks);
    emit_line(out, &line);
}
fn emit_line(out: &mut Out, line: &str) {
    let toks: Vec<String> = line.split_whitespace().map(|s| s.to_string()).collect();
    let res = guarded(move || exec(&toks));
    out.emit(line, &res);
}

fn gen(dir: &str) {
    let seed = seed_from_env();
    let mut r = Rng::new(seed ^ 0xC17);
    let scale: u64 = if is_thorough() { 50 } else { 1 };
    let mut out = Out::new(dir);
    // typed-value stream: encodings produced by the C01 schema walk (model side), if present
    let path = format!("{}/model_cases.txt", dir);
    if let Ok(txt) = std::fs::read_to_string(&path) {
        for line in txt.lines() {
            let toks: Vec<&str> = line.split_whitespace().collect();
            if toks.len() == 3 && toks[0] == "rt" { emit_line(&mut out, &format!("ty {} {}", toks[1], toks[2])); }
            else if toks.len() > 3 && toks[0] == "tj" { emit_line(&mut out, line.trim()); }
        }
    }
    // typed values holding addresses of every network id (0..15 are all legal) and every kind, built through the API
    {
        let mut k = 0u64;
        for net in 0u8..16 {
            let cred = |r: &mut Rng, script: bool| { let h = r.bytes(28);
                if script { Credential::from_scripthash(&ScriptHash::from_bytes(h).unwrap()) } else { Credential::from_keyhash(&Ed25519KeyHash::from_bytes(h).unwrap()) } };
            let mut addrs: Vec<Address> = Vec::new();
            for script in [false, true] {
                let (p, st) = (cred(&mut r, script), cred(&mut r, !script));
                addrs.push(BaseAddress::new(net, &p, &st).to_address());
                addrs.push(EnterpriseAddress::new(net, &p).to_address());
                addrs.push(RewardAddress::new(net, &st).to_address());
                addrs.push(PointerAddress::new(net, &p, &Pointer::new_pointer(&BigNum::from_str(&r.u64_edge().to_string()).unwrap(),
                    &BigNum::from_str(&r.below(300).to_string()).unwrap(), &BigNum::from_str(&r.below(3).to_string()).unwrap())).to_address());
            }
            if net < 2 { for b58 in ["Ae2tdPwUPEZ2rukBdtHHiNpdXJ2BU6PbQUFZP6FsJ4ZdbRDCwdKpCEYPGWS", "Ae2tdPwUPEZ5uzkzh1o2DHECiUi3iugvnnKHRisPgRRP3CTF4KCMvy54Xd3"] {
                if let Ok(b) = ByronAddress::from_base58(b58) { addrs.push(b.to_address()); } } }
            for a in addrs.iter() {
                k += 1;
                let coin = BigNum::from_str(&(1_000_000 + k).to_string()).unwrap();
                let txo = TransactionOutput::new(a, &Value::new(&coin));
                emit_line(&mut out, &format!("ty TransactionOutput {}", hex::encode(txo.to_bytes())));
                if let Some(ra) = RewardAddress::from_address(a) {
                    let mut w = Withdrawals::new(); w.insert(&ra, &coin);
                    emit_line(&mut out, &format!("ty Withdrawals {}", hex::encode(w.to_bytes())));
                    let prop = VotingProposal::new(&GovernanceAction::new_info_action(&InfoAction::new()), &Anchor::new(&URL::new("https://x".to_string()).unwrap(),
                        &AnchorDataHash::from_bytes(vec![7u8; 32]).unwrap()), &ra, &coin);
                    emit_line(&mut out, &format!("ty VotingProposal {}", hex::encode(prop.to_bytes())));
                }
                let mut outs = TransactionOutputs::new(); outs.add(&txo);
                let mut ins = TransactionInputs::new(); ins.add(&TransactionInput::new(&TransactionHash::from_bytes(vec![k as u8; 32]).unwrap(), 0));
                let body = TransactionBody::new_tx_body(&ins, &outs, &coin);
                emit_line(&mut out, &format!("ty TransactionBody {}", hex::encode(body.to_bytes())));
            }
        }
    }
    // JSON -> metadata -> JSON, three schemas
    for _ in 0..600 * scale {
        let d = r.below(4) as u32;
        let sc = r.below(2);
        let j = gen_j_plain(&mut r, d);
        emit_json_case(&mut out, "j2m", &sc.to_string(), &j);
    }
    for i in 0..600 * scale {
        let d = r.below(4) as u32;
        let j = gen_j_detailed(&mut r, d, i % 2 == 0);
        emit_json_case(&mut out, "j2m", "2", &j);
    }
    // directed: the "0x" family as a value, as a key, inside lists and maps, under every schema
    for i in 0..60 * scale {
        let a = gen_0x_family(&mut r); let b = gen_0x_family(&mut r); let c = gen_0x_family(&mut r);
        let plain = J::Obj(vec![(a.clone(), J::Str(b.clone())), ("l".to_string(), J::Arr(vec![J::Str(c.clone()), J::Obj(vec![(c.clone(), J::Str(a.clone()))])]))]);
        emit_json_case(&mut out, "j2m", &(i % 2).to_string(), &plain);
        emit_json_case(&mut out, "j2m", &(i % 2).to_string(), &J::Str(a.clone()));
        emit_json_case(&mut out, "j2p", "1", &plain);
        let one = |k: &str, v: J| J::Obj(vec![(k.to_string(), v)]);
        let det = one("map", J::Arr(vec![J::Obj(vec![("k".to_string(), one("string", J::Str(a.clone()))), ("v".to_string(), one("bytes", J::Str(b.clone())))]),
                                          J::Obj(vec![("k".to_string(), one("bytes", J::Str(c.clone()))), ("v".to_string(), one("list", J::Arr(vec![one("string", J::Str(b.clone()))])))])]));
        emit_json_case(&mut out, "j2m", "2", &det);
        emit_json_case(&mut out, "j2p", "2", &one("list", J::Arr(vec![one("bytes", J::Str(a.clone())), one("bytes", J::Str(c.clone()))])));
        // and as metadata text (keys and values) on the way to JSON
        let m = M::Map(vec![(M::Text(a.clone()), M::List(vec![M::Text(b.clone())])), (M::Text(format!("k{}", i)), M::Text(c.clone()))]);
        emit_line(&mut out, &format!("m2j {} {}", i % 3, m_tokens(&m)));
    }
    // cross-schema: documents of one schema given to another
    for _ in 0..100 * scale {
        let j = gen_j_detailed(&mut r, 2, false);
        emit_json_case(&mut out, "j2m", &r.below(2).to_string(), &j);
        let j = gen_j_plain(&mut r, 2);
        emit_json_case(&mut out, "j2m", "2", &j);
    }
    // metadata -> JSON -> metadata
    for i in 0..900 * scale {
        let sc = i % 3;
        let d = r.below(4) as u32;
        let tk = sc == 0 && r.chance(5, 6);
        let m = if sc == 0 && i % 2 == 1 { let sorted = r.chance(1, 2); gen_md_noconv(&mut r, d, sorted) } else { gen_md(&mut r, d, tk) };
        emit_line(&mut out, &format!("m2j {} {}", sc, m_tokens(&m)));
    }
    // chunk helpers
    for i in 0..120 * scale {
        let n = match i % 12 { 0 => 0, 1 => 1, 2 => 63, 3 => 64, 4 => 65, 5 => 127, 6 => 128, 7 => 129, 8 => 192, 9 => 193, _ => r.below(700) as usize };
        emit_line(&mut out, &format!("chunk {}", hex_or_dash(&r.bytes(n))));
    }
    for i in 0..120 * scale {
        let m = if i % 3 == 0 { let n = r.below(5) as usize; M::List((0..n).map(|_| { let k = r.below(65) as usize; M::Bytes(r.bytes(k)) }).collect()) } else { gen_md(&mut r, 2, false) };
        emit_line(&mut out, &format!("unchunk {}", m_tokens(&m)));
    }
    // plutus data
    for i in 0..500 * scale {
        let d = r.below(4) as u32;
        let p = gen_pd(&mut r, d, i % 3 == 0);
        emit_line(&mut out, &format!("p2j 2 {}", p_tokens(&p)));
    }
    for i in 0..500 * scale {
        let d = r.below(4) as u32;
        let j = gen_j_pdetailed(&mut r, d, i % 2 == 0);
        emit_json_case(&mut out, "j2p", "2", &j);
    }
    // plutus BasicConversions (modelled, no round-trip claim in the property)
    for _ in 0..150 * scale {
        let d = r.below(3) as u32;
        let mut p = gen_pd_basic(&mut r, d);
        if r.chance(1, 3) { // a map at the top with single-, multi- and empty-valued keys
            let n = 1 + r.below(3) as usize;
            let mut l: Vec<(P, Vec<P>)> = Vec::new();
            for i in 0..n { let nv = match r.below(6) { 0 => 0, 1 | 2 => 2 + r.below(2) as usize, _ => 1 };
                            l.push((P::Int((i as u64 + r.below(3) * 10).to_string()), (0..nv).map(|_| gen_pd_basic(&mut r, 0)).collect())); }
            l.dedup_by(|a, b| a.0 == b.0);
            p = P::Map(l);
        }
        emit_line(&mut out, &format!("p2j 1 {}", p_tokens(&p)));
    }
    for _ in 0..150 * scale {
        let d = r.below(3) as u32;
        let j = gen_j_plain(&mut r, d);
        emit_json_case(&mut out, "j2p", "1", &j);
    }
    // hand-written serde string forms
    for _ in 0..240 * scale {
        let ty = *r.pick(&["bignum", "int", "bigint", "hash28", "hash32", "assetname"]);
        let j = match r.below(10) {
            0 => gen_number(&mut r),
            1 => J::Str(gen_text(&mut r)),
            2 | 3 => J::Str(gen_numkey(&mut r)),
            4 => J::Str(gen_bigint(&mut r)),
            5 => { let n = *r.pick(&[0usize, 1, 27, 28, 29, 31, 32, 33]); J::Str(hex::encode(r.bytes(n))) }
            8 => J::Str(match ty { "hash28" => hex::encode(r.bytes(28)), "hash32" => hex::encode(r.bytes(32)), "assetname" => { let n = r.below(33) as usize; hex::encode(r.bytes(n)) }
                                   "bigint" => gen_bigint(&mut r), "int" => { let v = gen_i128_edge(&mut r); v.to_string() } _ => r.u64_edge().to_string() }),
            6 => J::Str(gen_hexish(&mut r)),
            7 => J::Str(hex::encode(r.bytes(if ty == "hash32" { 32 } else { 28 })).to_uppercase()),
            _ => J::Str(r.u64_edge().to_string()),
        };
        emit_json_case(&mut out, "sfd", ty, &j);
    }
    for _ in 0..60 * scale {
        match r.below(6) {
            0 => emit_line(&mut out, &format!("sfs bignum {}", r.u64_edge())),
            1 => { let v = gen_i128_edge(&mut r); let v = if v < -(1i128 << 64) || v > u64::MAX as i128 { 0 } else { v }; emit_line(&mut out, &format!("sfs int {}", v)) }
            2 => emit_line(&mut out, &format!("sfs bigint {}", gen_bigint(&mut r))),
            3 => emit_line(&mut out, &format!("sfs hash28 {}", hex::encode(r.bytes(28)))),
            4 => emit_line(&mut out, &format!("sfs hash32 {}", hex::encode(r.bytes(32)))),
            _ => { let n = *r.pick(&[0usize, 1, 31, 32]); emit_line(&mut out, &format!("sfs assetname {}", hex_or_dash(&r.bytes(n)))) }
        }
    }
    out.finish();
}

fn main() {
    if std::env::var("VERIF_DEBUG").is_err() { silence_panics(); }
    let args: Vec<String> = std::env::args().collect();
    match args.get(1).map(|s| s.as_str()) {
        Some("gen") => gen(&args[2]),
        Some("run") => {
            let mut o = String::new();
            for (idx, toks) in read_cases(&args[2]) {
                let res = guarded(move || exec(&toks));
                o.push_str(&format!("{} {}\n", idx, res));
            }
            std::fs::write(&args[3], o).unwrap();
        }
        _ => { eprintln!("usage: c17 gen <dir> | run <cases> <out>"); std::process::exit(2); }
    }
}
