//! C10 correspondence harness: redeemer pointers of transactions built by the real TransactionBuilder.
//! `c10 gen <dir>` generates cases from VERIF_SEED / VERIF_TIER and runs the implementation;
//! `c10 run <cases> <out>` runs the implementation on given case lines (replay / corpus).
//!
//! Case line:  <label> <n> { op }*n      -- the calls, in the order they are made
//!   i k <txhash> <ix>                      input, key-locked (add_key_input / add_regular_input / add_bootstrap_input)
//!   i n <scripthash> <txhash> <ix>         input, native script witness
//!   i p <scripthash> <txhash> <ix> <rid>   input, Plutus witness whose redeemer data is the integer <rid>
//!   c k|n|p …                              the same on the collateral TxInputsBuilder
//!   i|c u <r|n|p> <ak> <scripthash> <txhash> <ix> <rid>   add_regular_utxo / add_native_script_utxo / add_plutus_script_utxo with a UTxO whose
//!                                          address has kind ak: bk bs (base, key/script payment) ek es (enterprise) pk ps (pointer) rw (reward)
//!                                          by (Byron) mf (malformed); the witness carries <scripthash>; the call may be refused (flag 0)
//!   m <policy> n <ref> <asset> <amount> <set>        MintBuilder::add_asset (set = 1: set_asset), native witness; ref = reference-input
//!                                            source; asset = number naming the asset; amount = signed quantity (0 is refused)
//!   m <policy> p <ref> <rid> <asset> <amount> <set>  the same with a Plutus witness
//!   x a|n|p <kind> <script> <id> [<rid>]   certificate of CDDL kind 0..18 (a = add, n = add_with_native_script, p = add_with_plutus_witness)
//!   w a|n|p <net> <script> <hash> <coin> [<rid>]  withdrawal of <coin> lovelace (0 allowed) from the reward account (network, credential)
//!   v a|n|p <0|1|2> <script> <hash> [<rid>] vote of a committee / DRep / stake-pool voter
//!   g a|n|p <kind> <policy|~> <id> [<rid>]  proposal (GovernanceAction variant 0..6, policy hash, deposit = id)
//!   q <0|1|2|3>                            OBSERVER calls at this point of the history (not a call of the model, no flag): 0 = the query methods of
//!                                          every sub-builder; 1 = the sub-builders are handed to the TransactionBuilder and min_fee / full_size /
//!                                          get_plutus_input_scripts / totals / getters are asked; 2 = the same + calc_script_data_hash; 3 = the same +
//!                                          add_change_if_needed and build_tx on a clone.  They must not change what is built at the end
//!                                          (calc_script_data_hash stores a hash: q 2 / q 3 get a flag and are the model's OpCalc).
//! Label `live*`: the inputs are added through the TransactionBuilder's own add_* methods (the builder that answers the queries).
//! In w and v ops <hash> may be `hex@seed` too (the credential is the hash of the inline script the witness carries).
//! Case labels select the route: `wrap*` = certificates / withdrawals / native mint through the deprecated TransactionBuilder
//! wrappers (set_certs, set_withdrawals, add_mint_asset, set_mint_asset); `coinsel*` = no funding input, the builder selects
//! key inputs itself with add_inputs_from (the selected outpoints are reported in the S section and count as i k calls).
//! A script/policy hash token is `hex` (reference-script source carrying that hash) or `hex@seed` (inline script
//! built from the seed; the harness checks that its hash is `hex`).
//! The caller's redeemers carry a wrong tag and index on purpose (cert, 77): the builder must overwrite both.
//!
//! Result:  ok E <flags> S n {txhash:ix} I n {txhash:ix} C n {…} M n {policy} X n {kind.script.id} W n {net.script.hash}
//!             V n {kind.script.hash} G n {kind.policy.id} R n {tag.index.data}
//!   flags = one 0/1 per call (1 = the call returned Ok); the body items are read back from the SERIALISED
//!   transaction in wire order, the redeemers from its witness set;  `builderr E <flags> S n {..}` when nothing was built;
//!   S = inputs the builder selected itself (coinsel), each also contributes a 1 to the flags.
#![allow(deprecated)]
use cardano_serialization_lib::*;
use csl_verif_harness::util::*;
use std::collections::HashMap;

#[derive(Clone, Debug)]
struct H { bytes: Vec<u8>, seed: Option<u64> }
impl H {
    fn parse(s: &str) -> H {
        match s.find('@') {
            Some(i) => H { bytes: unhex_or_dash(&s[..i]), seed: Some(s[i + 1..].parse().unwrap()) },
            None => H { bytes: unhex_or_dash(s), seed: None },
        }
    }
    fn show(&self) -> String { match self.seed { Some(s) => format!("{}@{}", hex_or_dash(&self.bytes), s), None => hex_or_dash(&self.bytes) } }
}
#[derive(Clone, Debug)]
enum Wk { Add, Native, Plutus(u64) }
#[derive(Clone, Debug)]
enum InK { Key, Native(H), Plutus(H, u64) }
#[derive(Clone, Debug)]
enum Op {
    In { col: bool, kind: InK, tx: Vec<u8>, ix: u32 },
    Mint { policy: H, plutus: Option<u64>, is_ref: bool, asset: u64, amount: i64, set: bool },
    Cert { wk: Wk, kind: u32, script: bool, id: u64 },
    Wd { wk: Wk, net: u8, script: bool, hash: H, coin: u64 },
    Vote { wk: Wk, vk: u8, script: bool, hash: H },
    Prop { wk: Wk, kind: u32, policy: Option<Vec<u8>>, id: u64 },
    /// an observer call (no effect on the result expected): see `observe`
    Query(u8),
    /// one of the *_utxo entry points (entry r|n|p) with a UTxO at an address of the given kind
    InU { col: bool, entry: char, ak: String, sh: H, tx: Vec<u8>, ix: u32, rid: u64 },
}

fn b01(b: bool) -> &'static str { if b { "1" } else { "0" } }
fn wk_show(w: &Wk) -> (&'static str, String) {
    match w { Wk::Add => ("a", String::new()), Wk::Native => ("n", String::new()), Wk::Plutus(r) => ("p", format!(" {}", r)) }
}
impl Op {
    fn show(&self) -> String {
        match self {
            Op::In { col, kind, tx, ix } => {
                let c = if *col { "c" } else { "i" };
                match kind {
                    InK::Key => format!("{} k {} {}", c, hex_or_dash(tx), ix),
                    InK::Native(h) => format!("{} n {} {} {}", c, h.show(), hex_or_dash(tx), ix),
                    InK::Plutus(h, r) => format!("{} p {} {} {} {}", c, h.show(), hex_or_dash(tx), ix, r),
                }
            }
            Op::Mint { policy, plutus, is_ref, asset, amount, set } => match plutus {
                None => format!("m {} n {} {} {} {}", policy.show(), b01(*is_ref), asset, amount, b01(*set)),
                Some(r) => format!("m {} p {} {} {} {} {}", policy.show(), b01(*is_ref), r, asset, amount, b01(*set)),
            },
            Op::Cert { wk, kind, script, id } => { let (k, r) = wk_show(wk); format!("x {} {} {} {}{}", k, kind, b01(*script), id, r) }
            Op::Wd { wk, net, script, hash, coin } => { let (k, r) = wk_show(wk); format!("w {} {} {} {} {}{}", k, net, b01(*script), hash.show(), coin, r) }
            Op::Vote { wk, vk, script, hash } => { let (k, r) = wk_show(wk); format!("v {} {} {} {}{}", k, vk, b01(*script), hash.show(), r) }
            Op::Query(k) => format!("q {}", k),
            Op::InU { col, entry, ak, sh, tx, ix, rid } => format!("{} u {} {} {} {} {} {}", if *col { "c" } else { "i" }, entry, ak, sh.show(), hex_or_dash(tx), ix, rid),
            Op::Prop { wk, kind, policy, id } => {
                let (k, r) = wk_show(wk);
                format!("g {} {} {} {}{}", k, kind, policy.as_ref().map(|p| hex_or_dash(p)).unwrap_or("~".into()), id, r)
            }
        }
    }
}
fn case_line(label: &str, ops: &[Op]) -> String {
    let mut s = format!("{} {}", label, ops.len());
    for o in ops { s.push(' '); s.push_str(&o.show()); }
    s
}

struct P<'a> { t: &'a [String], i: usize }
impl<'a> P<'a> {
    fn next(&mut self) -> &'a str { let s = &self.t[self.i]; self.i += 1; s.as_str() }
    fn wk(&mut self, kind: &str) -> Wk { match kind { "a" => Wk::Add, "n" => Wk::Native, "p" => Wk::Plutus(self.next().parse().unwrap()), _ => panic!("case syntax") } }
}
fn parse(toks: &[String]) -> Vec<Op> {
    let mut p = P { t: toks, i: 1 };
    let n: usize = p.next().parse().unwrap();
    let mut ops = vec![];
    for _ in 0..n {
        let o = match p.next() {
            c @ ("i" | "c") => {
                let col = c == "c";
                match p.next() {
                    "u" => { let entry = p.next().chars().next().unwrap(); let ak = p.next().to_string(); let sh = H::parse(p.next());
                             let tx = unhex_or_dash(p.next()); let ix = p.next().parse().unwrap(); let rid = p.next().parse().unwrap();
                             Op::InU { col, entry, ak, sh, tx, ix, rid } }
                    "k" => { let tx = unhex_or_dash(p.next()); let ix = p.next().parse().unwrap(); Op::In { col, kind: InK::Key, tx, ix } }
                    "n" => { let h = H::parse(p.next()); let tx = unhex_or_dash(p.next()); let ix = p.next().parse().unwrap(); Op::In { col, kind: InK::Native(h), tx, ix } }
                    "p" => { let h = H::parse(p.next()); let tx = unhex_or_dash(p.next()); let ix = p.next().parse().unwrap(); let r = p.next().parse().unwrap();
                             Op::In { col, kind: InK::Plutus(h, r), tx, ix } }
                    _ => panic!("case syntax"),
                }
            }
            "m" => {
                let policy = H::parse(p.next());
                let kind = p.next();
                let is_ref = p.next() == "1";
                let plutus = if kind == "p" { Some(p.next().parse().unwrap()) } else { None };
                let asset = p.next().parse().unwrap();
                let amount = p.next().parse().unwrap();
                let set = p.next() == "1";
                Op::Mint { policy, plutus, is_ref, asset, amount, set }
            }
            "x" => { let k = p.next(); let kind = p.next().parse().unwrap(); let script = p.next() == "1"; let id = p.next().parse().unwrap(); let wk = p.wk(k); Op::Cert { wk, kind, script, id } }
            "w" => { let k = p.next(); let net = p.next().parse().unwrap(); let script = p.next() == "1"; let hash = H::parse(p.next()); let coin = p.next().parse().unwrap(); let wk = p.wk(k); Op::Wd { wk, net, script, hash, coin } }
            "v" => { let k = p.next(); let vk = p.next().parse().unwrap(); let script = p.next() == "1"; let hash = H::parse(p.next()); let wk = p.wk(k); Op::Vote { wk, vk, script, hash } }
            "q" => Op::Query(p.next().parse().unwrap()),
            "g" => { let k = p.next(); let kind = p.next().parse().unwrap(); let pol = p.next(); let policy = if pol == "~" { None } else { Some(unhex_or_dash(pol)) };
                     let id = p.next().parse().unwrap(); let wk = p.wk(k); Op::Prop { wk, kind, policy, id } }
            _ => panic!("case syntax"),
        };
        ops.push(o);
    }
    ops
}

// ------------------------------------------------------------------------------------------------
// real library values
fn bytes_from(seed: u64, domain: u8, n: usize) -> Vec<u8> {
    let mut v = Rng::new(seed ^ ((domain as u64) << 56) ^ 0xC10C10).bytes(n);
    v[0] = domain; v[1..9].copy_from_slice(&seed.to_be_bytes());
    v
}
fn keyhash(seed: u64, d: u8) -> Ed25519KeyHash { Ed25519KeyHash::from_bytes(bytes_from(seed, d, 28)).unwrap() }
fn scripthash_b(b: &[u8]) -> ScriptHash { ScriptHash::from_bytes(b.to_vec()).expect("28-byte script hash in case") }
fn cred_of(script: bool, hash: &[u8]) -> Credential {
    if script { Credential::from_scripthash(&scripthash_b(hash)) } else { Credential::from_keyhash(&Ed25519KeyHash::from_bytes(hash.to_vec()).expect("28-byte key hash in case")) }
}
fn cred_seed(script: bool, seed: u64, d: u8) -> Credential { cred_of(script, &bytes_from(seed, d, 28)) }
fn ref_input(n: usize) -> TransactionInput { TransactionInput::new(&TransactionHash::from_bytes(vec![0xEE; 32]).unwrap(), n as u32) }
fn redeemer(rid: u64) -> Redeemer {
    // wrong tag and index on purpose
    Redeemer::new(&RedeemerTag::new_cert(), &BigNum::from(77u64), &PlutusData::new_integer(&BigInt::from(rid)),
                  &ExUnits::new(&BigNum::from(1u64), &BigNum::from(1u64)))
}
fn inline_plutus(seed: u64) -> PlutusScript {
    let b = bytes_from(seed, 0x51, 12);
    match seed % 3 { 0 => PlutusScript::new(b), 1 => PlutusScript::new_v2(b), _ => PlutusScript::new_v3(b) }
}
fn inline_native(seed: u64) -> NativeScript { NativeScript::new_script_pubkey(&ScriptPubkey::new(&keyhash(seed, 0x52))) }
fn plutus_source(h: &H, pos: usize) -> PlutusScriptSource {
    match h.seed {
        Some(s) => { let sc = inline_plutus(s); assert_eq!(sc.hash().to_bytes(), h.bytes, "inline Plutus script hash differs from the case"); PlutusScriptSource::new(&sc) }
        None => PlutusScriptSource::new_ref_input(&scripthash_b(&h.bytes), &ref_input(pos), &Language::new_plutus_v2(), 10),
    }
}
fn native_source(h: &H, pos: usize) -> NativeScriptSource {
    match h.seed {
        Some(s) => { let sc = inline_native(s); assert_eq!(sc.hash().to_bytes(), h.bytes, "inline native script hash differs from the case"); NativeScriptSource::new(&sc) }
        None => NativeScriptSource::new_ref_input(&scripthash_b(&h.bytes), &ref_input(pos), 10),
    }
}
fn plutus_witness(h: &H, rid: u64, pos: usize) -> PlutusWitness {
    // the datum (none / inline / reference input) is irrelevant for pointers; it is varied to exercise the witness collection
    match rid % 3 {
        0 => PlutusWitness::new_with_ref_without_datum(&plutus_source(h, pos), &redeemer(rid)),
        1 => PlutusWitness::new_with_ref(&plutus_source(h, pos), &DatumSource::new(&PlutusData::new_integer(&BigInt::from(rid + 1000))), &redeemer(rid)),
        _ => PlutusWitness::new_with_ref(&plutus_source(h, pos), &DatumSource::new_ref_input(&ref_input(5000 + pos)), &redeemer(rid)),
    }
}
/// the witness source of a certificate: reference script carrying the credential hash, or (id divisible by 3) an inline script
fn cert_wit_hash(id: u64, plutus: bool) -> H {
    if id % 3 == 0 { H { bytes: if plutus { inline_plutus(id).hash().to_bytes() } else { inline_native(id).hash().to_bytes() }, seed: Some(id) } }
    else { H { bytes: cert_witness_hash(id), seed: None } }
}
fn anchor() -> Anchor { Anchor::new(&URL::new("https://c10.example".to_string()).unwrap(), &AnchorDataHash::from_bytes(vec![0xA7; 32]).unwrap()) }

/// A real certificate of CDDL kind `tag`; every field is a function of (tag, script, id).
fn mk_cert(tag: u32, script: bool, id: u64) -> Certificate {
    let c = cred_seed(script, id, 1);
    let pool = keyhash(id, 2);
    let odd = id % 2 == 1;
    // deposits / refunds of 0 are legal values too
    let coin = BigNum::from(if id % 4 == 0 { 0 } else { 1_000_000u64 });
    let drep = match id % 4 { 0 => DRep::new_always_abstain(), 1 => DRep::new_always_no_confidence(), 2 => DRep::new_key_hash(&keyhash(id, 9)), _ => DRep::new_script_hash(&scripthash_b(&bytes_from(id, 9, 28))) };
    match tag {
        0 => Certificate::new_stake_registration(&StakeRegistration::new(&c)),
        1 => Certificate::new_stake_deregistration(&StakeDeregistration::new(&c)),
        2 => Certificate::new_stake_delegation(&StakeDelegation::new(&c, &pool)),
        3 => {
            let mut owners = Ed25519KeyHashes::new();
            owners.add(&keyhash(id, 3));
            let params = PoolParams::new(&pool, &VRFKeyHash::from_bytes(bytes_from(id, 4, 32)).unwrap(),
                &BigNum::from(1_000_000_000u64), &BigNum::from(340_000_000u64),
                &UnitInterval::new(&BigNum::from(1u64), &BigNum::from(20u64)),
                &RewardAddress::new(0, &cred_seed(script, id, 5)), &owners, &Relays::new(), None);
            Certificate::new_pool_registration(&PoolRegistration::new(&params))
        }
        4 => Certificate::new_pool_retirement(&PoolRetirement::new(&pool, 100 + script as u32)),
        5 => Certificate::new_genesis_key_delegation(&GenesisKeyDelegation::new(
            &GenesisHash::from_bytes(bytes_from(id, 6, 28)).unwrap(),
            &GenesisDelegateHash::from_bytes(bytes_from(id, 7 + script as u8 * 0x40, 28)).unwrap(),
            &VRFKeyHash::from_bytes(bytes_from(id, 8, 32)).unwrap())),
        6 => {
            let mir = if odd {
                MoveInstantaneousReward::new_to_other_pot(MIRPot::Reserves, &BigNum::from(777_000_000u64 + id % 1000 + 5000 * script as u64))
            } else {
                let mut m = MIRToStakeCredentials::new();
                m.insert(&c, &Int::new_i32(5_000_000));
                MoveInstantaneousReward::new_to_stake_creds(MIRPot::Treasury, &m)
            };
            Certificate::new_move_instantaneous_rewards_cert(&MoveInstantaneousRewardsCert::new(&mir))
        }
        7 => Certificate::new_reg_cert(&StakeRegistration::new_with_explicit_deposit(&c, &coin)).unwrap(),
        8 => Certificate::new_unreg_cert(&StakeDeregistration::new_with_explicit_refund(&c, &coin)).unwrap(),
        9 => Certificate::new_vote_delegation(&VoteDelegation::new(&c, &drep)),
        10 => Certificate::new_stake_and_vote_delegation(&StakeAndVoteDelegation::new(&c, &pool, &drep)),
        11 => Certificate::new_stake_registration_and_delegation(&StakeRegistrationAndDelegation::new(&c, &pool, &coin)),
        12 => Certificate::new_vote_registration_and_delegation(&VoteRegistrationAndDelegation::new(&c, &drep, &coin)),
        13 => Certificate::new_stake_vote_registration_and_delegation(&StakeVoteRegistrationAndDelegation::new(&c, &pool, &drep, &coin)),
        14 => Certificate::new_committee_hot_auth(&CommitteeHotAuth::new(&c, &cred_seed(odd, id, 11))),
        15 => Certificate::new_committee_cold_resign(&if odd { CommitteeColdResign::new(&c) } else { CommitteeColdResign::new_with_anchor(&c, &anchor()) }),
        16 => Certificate::new_drep_registration(&if odd { DRepRegistration::new(&c, &coin) } else { DRepRegistration::new_with_anchor(&c, &coin, &anchor()) }),
        17 => Certificate::new_drep_deregistration(&DRepDeregistration::new(&c, &coin)),
        18 => Certificate::new_drep_update(&if odd { DRepUpdate::new(&c) } else { DRepUpdate::new_with_anchor(&c, &anchor()) }),
        _ => panic!("bad certificate kind"),
    }
}
/// the script hash a certificate's witness has to carry (only used to fill the witness source)
fn cert_witness_hash(id: u64) -> Vec<u8> { bytes_from(id, 1, 28) }

fn mk_proposal(kind: u32, policy: &Option<Vec<u8>>, id: u64) -> VotingProposal {
    let action = match (kind, policy) {
        (0, None) => GovernanceAction::new_parameter_change_action(&ParameterChangeAction::new(&ProtocolParamUpdate::new())),
        (0, Some(p)) => GovernanceAction::new_parameter_change_action(&ParameterChangeAction::new_with_policy_hash(&ProtocolParamUpdate::new(), &scripthash_b(p))),
        (1, None) => GovernanceAction::new_hard_fork_initiation_action(&HardForkInitiationAction::new(&ProtocolVersion::new(10, 0))),
        (2, None) => GovernanceAction::new_treasury_withdrawals_action(&TreasuryWithdrawalsAction::new(&TreasuryWithdrawals::new())),
        (2, Some(p)) => GovernanceAction::new_treasury_withdrawals_action(&TreasuryWithdrawalsAction::new_with_policy_hash(&TreasuryWithdrawals::new(), &scripthash_b(p))),
        (3, None) => GovernanceAction::new_no_confidence_action(&NoConfidenceAction::new()),
        (4, None) => {
            let mut committee = Committee::new(&UnitInterval::new(&BigNum::from(1u64), &BigNum::from(2u64)));
            committee.add_member(&cred_of(false, &[0x0C; 28]), 100);
            GovernanceAction::new_new_committee_action(&UpdateCommitteeAction::new(&committee, &Credentials::new()))
        }
        (5, None) => GovernanceAction::new_new_constitution_action(&NewConstitutionAction::new(&Constitution::new(&anchor()))),
        (6, None) => GovernanceAction::new_info_action(&InfoAction::new()),
        _ => panic!("proposal kind / policy combination has no constructor"),
    };
    VotingProposal::new(&action, &anchor(), &RewardAddress::new(0, &cred_of(false, &[0x0D; 28])), &BigNum::from(id))
}
fn mk_voter(vk: u8, script: bool, hash: &[u8]) -> Voter {
    match vk {
        0 => Voter::new_constitutional_committee_hot_credential(&cred_of(script, hash)),
        1 => Voter::new_drep_credential(&cred_of(script, hash)),
        2 => { assert!(!script, "a stake-pool voter is a key hash"); Voter::new_stake_pool_key_hash(&Ed25519KeyHash::from_bytes(hash.to_vec()).unwrap()) }
        _ => panic!("bad voter kind"),
    }
}
fn show_voter(v: &Voter) -> String {
    let c = |c: Credential| format!("{}.{}", b01(c.has_script_hash()), match c.to_scripthash() { Some(h) => hex::encode(h.to_bytes()), None => hex::encode(c.to_keyhash().unwrap().to_bytes()) });
    match v.kind() {
        VoterKind::ConstitutionalCommitteeHotKeyHash | VoterKind::ConstitutionalCommitteeHotScriptHash => format!("0.{}", c(v.to_constitutional_committee_hot_credential().unwrap())),
        VoterKind::DRepKeyHash | VoterKind::DRepScriptHash => format!("1.{}", c(v.to_drep_credential().unwrap())),
        VoterKind::StakingPoolKeyHash => format!("2.0.{}", hex::encode(v.to_stake_pool_key_hash().unwrap().to_bytes())),
    }
}
fn costs() -> Costmdls {
    let mut c = Costmdls::new();
    for l in [Language::new_plutus_v1(), Language::new_plutus_v2(), Language::new_plutus_v3()] { c.insert(&l, &CostModel::from(vec![1i128, 2, 3])); }
    c
}
fn new_tx_builder() -> TransactionBuilder {
    let cfg = TransactionBuilderConfigBuilder::new()
        .fee_algo(&LinearFee::new(&BigNum::from(44u64), &BigNum::from(155381u64)))
        .pool_deposit(&BigNum::from(5_000_000u64)).key_deposit(&BigNum::from(2_000_000u64))
        .max_value_size(100_000).max_tx_size(u32::MAX)
        .coins_per_utxo_byte(&BigNum::from(4310u64))
        .ex_unit_prices(&ExUnitPrices::new(&UnitInterval::new(&BigNum::from(577u64), &BigNum::from(10000u64)), &UnitInterval::new(&BigNum::from(721u64), &BigNum::from(10000000u64))))
        .ref_script_coins_per_byte(&UnitInterval::new(&BigNum::from(15u64), &BigNum::from(1u64)))
        .build().unwrap();
    TransactionBuilder::new(&cfg)
}
const BYRON: &str = "Ae2tdPwUPEZ6r6zbg4ibhFrNnyKHg7SYuPSfDpjKxgvwFX9LquRep7gj7FQ";

fn add_input(b: &mut TxInputsBuilder, kind: &InK, tx: &[u8], ix: u32, pos: usize) {
    let input = TransactionInput::new(&TransactionHash::from_bytes(tx.to_vec()).expect("32-byte tx hash in case"), ix);
    // some inputs carry no ada at all (the funding input f0.. and the key collateral c0.. never do)
    let value = Value::new(&BigNum::from(if tx[30] % 5 == 1 { 0 } else { 10_000_000_000u64 }));
    let route = tx[31] as u64 + ix as u64;
    let key_addr = |d: u8| -> Address { match route % 3 {
        0 => EnterpriseAddress::new(0, &Credential::from_keyhash(&keyhash(ix as u64, d))).to_address(),
        1 => BaseAddress::new(0, &Credential::from_keyhash(&keyhash(ix as u64, d)), &Credential::from_keyhash(&keyhash(ix as u64, d + 1))).to_address(),
        _ => PointerAddress::new(0, &Credential::from_keyhash(&keyhash(ix as u64, d)), &Pointer::new_pointer(&BigNum::from(1u64), &BigNum::from(2u64), &BigNum::from(3u64))).to_address(),
    } };
    let script_addr = |h: &H| -> Address { match route % 2 {
        0 => EnterpriseAddress::new(0, &Credential::from_scripthash(&scripthash_b(&h.bytes))).to_address(),
        _ => BaseAddress::new(0, &Credential::from_scripthash(&scripthash_b(&h.bytes)), &Credential::from_keyhash(&keyhash(ix as u64, 0x24))).to_address(),
    } };
    let utxo = |a: &Address| TransactionUnspentOutput::new(&input, &TransactionOutput::new(a, &value));
    match kind {
        InK::Key => match route % 5 {
            0 => b.add_key_input(&keyhash(ix as u64, 0x20), &input, &value),
            1 => b.add_regular_input(&key_addr(0x21), &input, &value).unwrap(),
            2 => b.add_bootstrap_input(&ByronAddress::from_base58(BYRON).unwrap(), &input, &value),
            3 => b.add_regular_utxo(&utxo(&key_addr(0x26))).unwrap(),
            _ => b.add_regular_utxo(&utxo(&ByronAddress::from_base58(BYRON).unwrap().to_address())).unwrap(),
        },
        InK::Native(h) => match route % 2 {
            0 => b.add_native_script_input(&native_source(h, pos), &input, &value),
            _ => b.add_native_script_utxo(&utxo(&script_addr(h)), &native_source(h, pos)).unwrap(),
        },
        InK::Plutus(h, rid) => match route % 2 {
            0 => b.add_plutus_script_input(&plutus_witness(h, *rid, pos), &input, &value),
            _ => b.add_plutus_script_utxo(&utxo(&script_addr(h)), &plutus_witness(h, *rid, pos)).unwrap(),
        },
    }
}

/// Observer calls: everything here takes the builders by shared reference or works on the TransactionBuilder's copies; none of it
/// may influence the transaction built at the end.
fn observe(k: u8, tb: &mut TransactionBuilder, inputs: &TxInputsBuilder, collateral: &TxInputsBuilder, mint: &MintBuilder,
           certs: &CertificatesBuilder, wdrl: &WithdrawalsBuilder, votes: &VotingBuilder, props: &VotingProposalBuilder) {
    if k == 0 {
        for b in [inputs, collateral] {
            let _ = b.get_plutus_input_scripts(); let _ = b.get_ref_inputs(); let _ = b.get_native_input_scripts();
            let _ = b.inputs(); let _ = b.total_value(); let _ = b.len(); let _ = b.inputs_option();
        }
        let _ = mint.get_plutus_witnesses(); let _ = mint.get_redeemers(); let _ = mint.get_ref_inputs(); let _ = mint.get_native_scripts();
        let _ = mint.build(); let _ = mint.has_plutus_scripts(); let _ = mint.has_native_scripts();
        let _ = certs.get_plutus_witnesses(); let _ = certs.get_ref_inputs(); let _ = certs.get_native_scripts(); let _ = certs.build();
        let _ = certs.has_plutus_scripts(); let _ = certs.get_certificates_deposit(&BigNum::from(5_000_000u64), &BigNum::from(2_000_000u64));
        let _ = wdrl.get_plutus_witnesses(); let _ = wdrl.get_ref_inputs(); let _ = wdrl.get_native_scripts(); let _ = wdrl.build();
        let _ = wdrl.get_total_withdrawals(); let _ = wdrl.has_plutus_scripts();
        let _ = votes.get_plutus_witnesses(); let _ = votes.get_ref_inputs(); let _ = votes.get_native_scripts(); let _ = votes.build(); let _ = votes.has_plutus_scripts();
        let _ = props.get_plutus_witnesses(); let _ = props.get_ref_inputs(); let _ = props.build(); let _ = props.has_plutus_scripts();
        return;
    }
    let _ = tb.min_fee(); let _ = tb.full_size(); let _ = tb.get_plutus_input_scripts(); let _ = tb.get_native_input_scripts();
    let _ = tb.get_reference_inputs(); let _ = tb.get_total_input(); let _ = tb.get_total_output(); let _ = tb.get_deposit();
    let _ = tb.get_explicit_input(); let _ = tb.get_implicit_input(); let _ = tb.get_mint_builder(); let _ = tb.get_mint_scripts();
    let _ = tb.output_sizes(); let _ = tb.get_fee_if_set(); let _ = tb.build_tx_unsafe();
    if k >= 2 { let _ = tb.calc_script_data_hash(&costs()); }
    if k >= 3 {
        let mut c = tb.clone();
        let change = EnterpriseAddress::new(0, &Credential::from_keyhash(&keyhash(0xC4A, 0x22))).to_address();
        let _ = c.add_change_if_needed(&change); let _ = c.build_tx(); let _ = c.build();
    }
}
/// an address of every kind; the script payment credential is NOT the witness's hash for odd ix (the builder does not compare them)
fn addr_of_kind(ak: &str, sh: &H, ix: u32) -> Address {
    let key = Credential::from_keyhash(&keyhash(ix as u64, 0x31));
    let stake = Credential::from_keyhash(&keyhash(ix as u64, 0x32));
    let script = if ix % 2 == 0 { Credential::from_scripthash(&scripthash_b(&sh.bytes)) } else { Credential::from_scripthash(&scripthash_b(&bytes_from(ix as u64, 0x33, 28))) };
    let ptr = Pointer::new_pointer(&BigNum::from(1u64), &BigNum::from(2u64), &BigNum::from(3u64));
    match ak {
        "bk" => BaseAddress::new(0, &key, &stake).to_address(),
        "bs" => BaseAddress::new(0, &script, &stake).to_address(),
        "ek" => EnterpriseAddress::new(0, &key).to_address(),
        "es" => EnterpriseAddress::new(0, &script).to_address(),
        "pk" => PointerAddress::new(0, &key, &ptr).to_address(),
        "ps" => PointerAddress::new(0, &script, &ptr).to_address(),
        "rw" => RewardAddress::new(0, &if ix % 2 == 0 { script } else { key }).to_address(),
        "by" => ByronAddress::from_base58(BYRON).unwrap().to_address(),
        "mf" => {
            // an output whose address bytes do not parse keeps them as a malformed address
            let out = TransactionOutput::from_hex("8243ff000005").expect("output with unparsable address bytes");
            assert!(out.address().is_malformed(), "expected a malformed address");
            out.address()
        }
        _ => panic!("bad address kind"),
    }
}
fn add_utxo(b: &mut TxInputsBuilder, entry: char, ak: &str, sh: &H, tx: &[u8], ix: u32, rid: u64, pos: usize) -> bool {
    let input = TransactionInput::new(&TransactionHash::from_bytes(tx.to_vec()).expect("32-byte tx hash in case"), ix);
    let value = Value::new(&BigNum::from(10_000_000_000u64));
    let utxo = TransactionUnspentOutput::new(&input, &TransactionOutput::new(&addr_of_kind(ak, sh, ix), &value));
    match entry {
        'r' => b.add_regular_utxo(&utxo).is_ok(),
        'n' => b.add_native_script_utxo(&utxo, &native_source(sh, pos)).is_ok(),
        'p' => b.add_plutus_script_utxo(&utxo, &plutus_witness(sh, rid, pos)).is_ok(),
        _ => panic!("bad utxo entry"),
    }
}
/// the inputs through the TransactionBuilder's own (deprecated) add_* methods
fn add_input_live(tb: &mut TransactionBuilder, kind: &InK, tx: &[u8], ix: u32, pos: usize) {
    let input = TransactionInput::new(&TransactionHash::from_bytes(tx.to_vec()).expect("32-byte tx hash in case"), ix);
    let value = Value::new(&BigNum::from(if tx[30] % 5 == 1 { 0 } else { 10_000_000_000u64 }));
    match kind {
        InK::Key => match (tx[31] as u64 + ix as u64) % 3 {
            0 => tb.add_key_input(&keyhash(ix as u64, 0x20), &input, &value),
            1 => tb.add_regular_input(&EnterpriseAddress::new(0, &Credential::from_keyhash(&keyhash(ix as u64, 0x21))).to_address(), &input, &value).unwrap(),
            _ => tb.add_bootstrap_input(&ByronAddress::from_base58(BYRON).unwrap(), &input, &value),
        },
        InK::Native(h) => { let seed = h.seed.expect("live: inline native script"); tb.add_native_script_input(&inline_native(seed), &input, &value) }
        InK::Plutus(h, rid) => tb.add_plutus_script_input(&plutus_witness(h, *rid, pos), &input, &value),
    }
}
fn deposit_of(tb: &TransactionBuilder) -> BigNum { tb.get_deposit().unwrap_or(BigNum::zero()) }
fn builder_has_input(tb: &TransactionBuilder, inp: &TransactionInput) -> bool {
    // the body the builder would emit (fee is irrelevant here)
    let mut t = tb.clone(); t.set_fee(&BigNum::from(2_000_000u64));
    match t.build_tx_unsafe() { Ok(tx) => { let i = tx.body().inputs(); (0..i.len()).any(|k| &i.get(k) == inp) } Err(_) => false }
}

fn exec(toks: &[String]) -> String {
    // hand-written vectors about the ledger's orders / certificate table: the expected answer is part of the case, the
    // implementation has nothing to add (the model side evaluates the spec functions on it)
    if toks[0] == "ord" || toks[0] == "lock" { return format!("{} {}", toks[0], toks[toks.len() - 1]); }
    let ops = parse(toks);
    let wrap = toks[0].starts_with("wrap");
    let live = toks[0].starts_with("live");
    let coinsel = toks[0].starts_with("coinsel");
    let mut tb = new_tx_builder();
    let mut w_certs = Certificates::new();
    let mut w_wdrl = Withdrawals::new();
    let mut inputs = TxInputsBuilder::new();
    let mut collateral = TxInputsBuilder::new();
    let mut mint = MintBuilder::new();
    let mut certs = CertificatesBuilder::new();
    let mut wdrl = WithdrawalsBuilder::new();
    let mut votes = VotingBuilder::new();
    let mut props = VotingProposalBuilder::new();
    let (mut n_mint, mut n_cert, mut n_wd, mut n_vote, mut n_prop) = (0, 0, 0, 0, 0);
    let mut flags = String::new();
    let mut cert_names: HashMap<String, String> = HashMap::new();
    let mut prop_names: HashMap<String, String> = HashMap::new();
    for (pos, o) in ops.iter().enumerate() {
        let ok = match o {
            Op::Query(k) => {
                if !live { tb.set_inputs(&inputs); }
                tb.set_collateral(&collateral);
                if n_mint > 0 { tb.set_mint_builder(&mint); }
                if n_cert > 0 { tb.set_certs_builder(&certs); }
                if n_wd > 0 { tb.set_withdrawals_builder(&wdrl); }
                if n_vote > 0 { tb.set_voting_builder(&votes); }
                if n_prop > 0 { tb.set_voting_proposal_builder(&props); }
                observe(*k, &mut tb, &inputs, &collateral, &mint, &certs, &wdrl, &votes, &props);
                if *k >= 2 { flags.push('1'); }          // calc_script_data_hash is a call of the model too (it stores a hash)
                continue;
            }
            Op::InU { col, entry, ak, sh, tx, ix, rid } => add_utxo(if *col { &mut collateral } else { &mut inputs }, *entry, ak, sh, tx, *ix, *rid, pos),
            Op::In { col, kind, tx, ix } if live && !*col => { add_input_live(&mut tb, kind, tx, *ix, pos); true }
            Op::In { col, kind, tx, ix } => { add_input(if *col { &mut collateral } else { &mut inputs }, kind, tx, *ix, pos); true }
            Op::Mint { policy, plutus, is_ref, asset, amount, set } => {
                assert_eq!(policy.seed.is_none(), *is_ref, "ref flag and hash token disagree");
                let w = match plutus {
                    None => MintWitness::new_native_script(&native_source(policy, pos)),
                    Some(rid) => MintWitness::new_plutus_script(&plutus_source(policy, pos), &redeemer(*rid)),
                };
                let name = AssetName::new(vec![0x41, (*asset % 251) as u8, (*asset / 251) as u8]).unwrap();
                let q = if *amount >= 0 { Int::new(&BigNum::from(*amount as u64)) } else { Int::new_negative(&BigNum::from(amount.unsigned_abs())) };
                let r = if wrap {
                    // deprecated wrappers: inline native policy script only
                    let seed = policy.seed.expect("wrap: inline native policy");
                    assert!(plutus.is_none(), "wrap: native mint only");
                    if *set { let mut ma = MintAssets::new(); ma.insert(&name, &q).and_then(|_| tb.set_mint_asset(&inline_native(seed), &ma)) }
                    else { tb.add_mint_asset(&inline_native(seed), &name, &q) }
                } else if *set { mint.set_asset(&w, &name, &q) } else { mint.add_asset(&w, &name, &q) };
                if r.is_ok() && !wrap { n_mint += 1; }
                r.is_ok()
            }
            Op::Cert { wk, kind, script, id } => {
                let c = mk_cert(*kind, *script, *id);
                cert_names.insert(c.to_hex(), format!("{}.{}.{}", kind, b01(*script), id));
                if wrap {
                    assert!(matches!(wk, Wk::Add) && !c.has_required_script_witness(), "wrap: certificates without script witness only");
                    w_certs.add(&c)                                   // false for a certificate that is already there
                } else {
                    let r = match wk {
                        Wk::Add => certs.add(&c),
                        Wk::Native => certs.add_with_native_script(&c, &native_source(&cert_wit_hash(*id, false), pos)),
                        Wk::Plutus(rid) => certs.add_with_plutus_witness(&c, &plutus_witness(&cert_wit_hash(*id, true), *rid, pos)),
                    };
                    if r.is_ok() { n_cert += 1; }
                    r.is_ok()
                }
            }
            Op::Wd { wk, net, script, hash, coin } => {
                let a = RewardAddress::new(*net, &cred_of(*script, &hash.bytes));
                let coin = BigNum::from(*coin);
                let h = hash;
                if wrap {
                    assert!(matches!(wk, Wk::Add) && !*script, "wrap: key withdrawals only");
                    w_wdrl.insert(&a, &coin);
                    true
                } else {
                    let r = match wk {
                        Wk::Add => wdrl.add(&a, &coin),
                        Wk::Native => wdrl.add_with_native_script(&a, &coin, &native_source(h, pos)),
                        Wk::Plutus(rid) => wdrl.add_with_plutus_witness(&a, &coin, &plutus_witness(h, *rid, pos)),
                    };
                    if r.is_ok() { n_wd += 1; }
                    r.is_ok()
                }
            }
            Op::Vote { wk, vk, script, hash } => {
                let v = mk_voter(*vk, *script, &hash.bytes);
                let ga = GovernanceActionId::new(&TransactionHash::from_bytes(vec![0x6A; 32]).unwrap(), pos as u32);
                let vp = VotingProcedure::new(VoteKind::Yes);
                let h = hash;
                let r = match wk {
                    Wk::Add => votes.add(&v, &ga, &vp),
                    Wk::Native => votes.add_with_native_script(&v, &ga, &vp, &native_source(h, pos)),
                    Wk::Plutus(rid) => votes.add_with_plutus_witness(&v, &ga, &vp, &plutus_witness(h, *rid, pos)),
                };
                if r.is_ok() { n_vote += 1; }
                r.is_ok()
            }
            Op::Prop { wk, kind, policy, id } => {
                let p = mk_proposal(*kind, policy, *id);
                prop_names.insert(p.to_hex(), format!("{}.{}.{}", kind, policy.as_ref().map(|x| hex::encode(x)).unwrap_or("~".into()), id));
                let h = H { bytes: policy.clone().unwrap_or(vec![0x0B; 28]), seed: None };
                let r = match wk {
                    Wk::Add => props.add(&p).is_ok(),
                    Wk::Native => false,                                   // the builder has no such entry point
                    Wk::Plutus(rid) => props.add_with_plutus_witness(&p, &plutus_witness(&h, *rid, pos)).is_ok(),
                };
                if r { n_prop += 1; }
                r
            }
        };
        flags.push_str(b01(ok));
    }
    if !live { tb.set_inputs(&inputs); }
    tb.set_collateral(&collateral);
    if n_mint > 0 { tb.set_mint_builder(&mint); }
    if n_cert > 0 { tb.set_certs_builder(&certs); }
    if n_wd > 0 { tb.set_withdrawals_builder(&wdrl); }
    if n_vote > 0 { tb.set_voting_builder(&votes); }
    if n_prop > 0 { tb.set_voting_proposal_builder(&props); }
    if wrap {
        if w_certs.len() > 0 { tb.set_certs(&w_certs).expect("wrap: set_certs"); }
        if w_wdrl.len() > 0 { tb.set_withdrawals(&w_wdrl).expect("wrap: set_withdrawals"); }
    }
    let change = EnterpriseAddress::new(0, &Credential::from_keyhash(&keyhash(0xC4A, 0x22))).to_address();
    // coin selection: an output that the inputs added so far cannot pay, six key UTxOs on offer
    let mut selected = String::new(); let mut n_selected = 0;
    if coinsel {
        let before: Vec<TransactionInput> = { let i = tb.get_explicit_input().map(|_| inputs.inputs()).unwrap(); (0..i.len()).map(|k| i.get(k)).collect() };
        let have = tb.get_total_input().map(|v| v.coin()).unwrap_or(BigNum::zero());
        let need = deposit_of(&tb).checked_add(&BigNum::from([17_000_000_000u64, 60_000_000_000, 100_000_000_000][ops.len() % 3])).unwrap();
        let _ = tb.add_output(&TransactionOutput::new(&change, &Value::new(&have.checked_add(&need).unwrap())));
        let mut offer = TransactionUnspentOutputs::new();
        for j in 0..6u8 {
            let inp = TransactionInput::new(&TransactionHash::from_bytes(vec![0xA0 + j; 32]).unwrap(), j as u32);
            let addr = EnterpriseAddress::new(0, &Credential::from_keyhash(&keyhash(j as u64, 0x27))).to_address();
            offer.add(&TransactionUnspentOutput::new(&inp, &TransactionOutput::new(&addr, &Value::new(&BigNum::from((j as u64 + 1) * 7_000_000_000)))));
        }
        let strategy = if ops.len() % 2 == 0 { CoinSelectionStrategyCIP2::LargestFirst } else { CoinSelectionStrategyCIP2::LargestFirstMultiAsset };
        let _ = tb.add_inputs_from(&offer, strategy);
        for j in 0..6u8 {
            let inp = TransactionInput::new(&TransactionHash::from_bytes(vec![0xA0 + j; 32]).unwrap(), j as u32);
            // an offered outpoint is "selected" when the builder holds it now and the calls did not add it
            if !before.contains(&inp) && builder_has_input(&tb, &inp) {
                selected.push_str(&format!(" {}:{}", hex::encode(inp.transaction_id().to_bytes()), inp.index())); n_selected += 1; flags.push('1');
            }
        }
    }
    if flags.is_empty() { flags.push('-'); }
    let sel = format!("S {}{}", n_selected, selected);
    let built = tb.calc_script_data_hash(&costs())
        .and_then(|_| tb.add_change_if_needed(&change))
        .and_then(|_| tb.build_tx());
    let tx = match built { Ok(tx) => tx, Err(_) => return format!("builderr E {} {}", flags, sel) };
    // read everything back from the serialised transaction
    let tx = match Transaction::from_bytes(tx.to_bytes()) { Ok(t) => t, Err(_) => return format!("reparse-err E {} {}", flags, sel) };
    let body = tx.body();
    let show_inputs = |tag: &str, ins: Option<TransactionInputs>| {
        let mut s = String::new(); let mut n = 0;
        if let Some(ins) = ins { n = ins.len(); for i in 0..n { let x = ins.get(i); s.push_str(&format!(" {}:{}", hex::encode(x.transaction_id().to_bytes()), x.index())); } }
        format!("{} {}{}", tag, n, s)
    };
    let mut out = format!("ok E {} {} {} {}", flags, sel, show_inputs("I", Some(body.inputs())), show_inputs("C", body.collateral()));
    {
        let mut s = String::new(); let mut n = 0;
        if let Some(m) = body.mint() { let k = m.keys(); n = k.len(); for i in 0..n { s.push_str(&format!(" {}", hex::encode(k.get(i).to_bytes()))); } }
        out.push_str(&format!(" M {}{}", n, s));
    }
    {
        let mut s = String::new(); let mut n = 0;
        if let Some(cs) = body.certs() { n = cs.len(); for i in 0..n { s.push_str(&format!(" {}", cert_names.get(&cs.get(i).to_hex()).cloned().unwrap_or("unknown-cert".into()))); } }
        out.push_str(&format!(" X {}{}", n, s));
    }
    {
        let mut s = String::new(); let mut n = 0;
        if let Some(w) = body.withdrawals() {
            let k = w.keys(); n = k.len();
            for i in 0..n { let a = k.get(i); let c = a.payment_cred();
                s.push_str(&format!(" {}.{}.{}", a.network_id(), b01(c.has_script_hash()),
                    match c.to_scripthash() { Some(h) => hex::encode(h.to_bytes()), None => hex::encode(c.to_keyhash().unwrap().to_bytes()) })); }
        }
        out.push_str(&format!(" W {}{}", n, s));
    }
    {
        let mut s = String::new(); let mut n = 0;
        if let Some(v) = body.voting_procedures() { let k = v.get_voters(); n = k.len(); for i in 0..n { s.push_str(&format!(" {}", show_voter(&k.get(i).unwrap()))); } }
        out.push_str(&format!(" V {}{}", n, s));
    }
    {
        let mut s = String::new(); let mut n = 0;
        if let Some(ps) = body.voting_proposals() { n = ps.len(); for i in 0..n { s.push_str(&format!(" {}", prop_names.get(&ps.get(i).to_hex()).cloned().unwrap_or("unknown-proposal".into()))); } }
        out.push_str(&format!(" G {}{}", n, s));
    }
    {
        let mut s = String::new(); let mut n = 0;
        if let Some(rs) = tx.witness_set().redeemers() {
            n = rs.len();
            for i in 0..n {
                let r = rs.get(i);
                let tag = match r.tag().kind() { RedeemerTagKind::Spend => 0, RedeemerTagKind::Mint => 1, RedeemerTagKind::Cert => 2, RedeemerTagKind::Reward => 3, RedeemerTagKind::Vote => 4, RedeemerTagKind::VotingProposal => 5 };
                s.push_str(&format!(" {}.{}.{}", tag, r.index().to_str(), r.data().as_integer().map(|x| x.to_str()).unwrap_or("nodata".into())));
            }
        }
        out.push_str(&format!(" R {}{}", n, s));
    }
    out
}

// ------------------------------------------------------------------------------------------------
// generators
/// hashes that are close to each other: a per-case base with one byte changed, so comparisons are decided late
struct Pool { base: Vec<u8> }
impl Pool {
    fn new(r: &mut Rng, n: usize) -> Pool { Pool { base: r.bytes(n) } }
    fn pick(&self, r: &mut Rng) -> Vec<u8> {
        let n = self.base.len();
        let mut v = self.base.clone();
        match r.below(10) {
            0 => { let mut w = r.bytes(n); if w.iter().all(|b| *b == 0xEE) { w[0] = 1; } return w; }
            1 => {}
            _ => {
                let p = *r.pick(&[0usize, 0, 1, n / 2, n - 2, n - 1, n - 1]);
                v[p] = *r.pick(&[0x00u8, 0x01, 0x02, 0x7f, 0x80, 0xfe, 0xff]);
            }
        }
        if v.iter().all(|b| *b == 0xEE) { v[0] = 1; }
        v
    }
}
fn hp(v: Vec<u8>) -> H { H { bytes: v, seed: None } }
/// credential hash token for a witnessed withdrawal / vote: sometimes the hash of an inline script of the witness's kind
fn cred_tok(r: &mut Rng, pool: &Pool, wk: &Wk) -> H {
    match wk {
        Wk::Plutus(_) if r.chance(1, 5) => { let seed = r.below(1 << 40); H { bytes: inline_plutus(seed).hash().to_bytes(), seed: Some(seed) } }
        Wk::Native if r.chance(1, 5) => { let seed = r.below(1 << 40); H { bytes: inline_native(seed).hash().to_bytes(), seed: Some(seed) } }
        _ => hp(pool.pick(r)),
    }
}
fn shuffle<T>(r: &mut Rng, v: &mut Vec<T>) { for i in (1..v.len()).rev() { let j = r.below(i as u64 + 1) as usize; v.swap(i, j); } }
fn permutations<T: Clone>(v: &[T]) -> Vec<Vec<T>> {
    if v.len() <= 1 { return vec![v.to_vec()]; }
    let mut out = vec![];
    for i in 0..v.len() {
        let mut rest = v.to_vec(); let x = rest.remove(i);
        for mut p in permutations(&rest) { p.insert(0, x.clone()); out.push(p); }
    }
    out
}
fn hash_tok(r: &mut Rng, pool: &Pool, plutus: bool) -> H {
    if r.chance(1, 5) {
        let seed = r.below(1 << 40);
        let bytes = if plutus { inline_plutus(seed).hash().to_bytes() } else { inline_native(seed).hash().to_bytes() };
        H { bytes, seed: Some(seed) }
    } else { H { bytes: pool.pick(r), seed: None } }
}
fn ix(r: &mut Rng) -> u32 { match r.below(8) { 0 => 0, 1 => 1, 2 => u32::MAX, 3 => u32::MAX - 1, 4 => 255, 5 => 256, _ => r.below(5) as u32 } }

struct Gen { rid: u64, tx: Pool, h28: Pool }
impl Gen {
    fn new(r: &mut Rng) -> Gen { Gen { rid: 1 + r.below(1000), tx: Pool::new(r, 32), h28: Pool::new(r, 28) } }
    fn rid(&mut self, r: &mut Rng) -> u64 { if r.chance(1, 25) { self.rid } else { self.rid += 1 + r.below(3); self.rid } }
    fn funding(&self) -> Op { Op::In { col: false, kind: InK::Key, tx: vec![0xF0; 32], ix: 7 } }
    fn key_collateral(&self) -> Op { Op::In { col: true, kind: InK::Key, tx: vec![0xC0; 32], ix: 0 } }
    fn input(&mut self, r: &mut Rng, col: bool, plutus_pct: u64) -> Op {
        let tx = self.tx.pick(r); let ix = ix(r);
        let kind = if r.chance(plutus_pct, 100) { let h = hash_tok(r, &self.h28, true); InK::Plutus(h, self.rid(r)) }
                   else if r.chance(1, 3) { InK::Native(hash_tok(r, &self.h28, false)) } else { InK::Key };
        Op::In { col, kind, tx, ix }
    }
    fn mint(&mut self, r: &mut Rng) -> Op {
        let plutus = r.chance(3, 5);
        let policy = hash_tok(r, &self.h28, plutus);
        let is_ref = policy.seed.is_none();
        // assets 10.. are used with set_asset (always positive), assets 0..2 with add_asset (see mint_group)
        let set = r.chance(1, 8);
        let asset = if set { 10 + r.below(2) } else { r.below(3) };
        let amount = if r.chance(1, 20) { 0 } else { 1 + r.below(5) as i64 };
        Op::Mint { policy, plutus: if plutus { Some(self.rid(r)) } else { None }, is_ref, asset, amount, set }
    }
    /// a mint call, sometimes followed by a burn of the same asset under the same witness that takes back part or all of it
    /// (the net quantity of an asset is never negative, so the transaction can balance; net 0 makes MintBuilder::build fail)
    fn mint_group(&mut self, r: &mut Rng) -> Vec<Op> {
        let first = self.mint(r);
        let mut v = vec![first.clone()];
        if let Op::Mint { policy, plutus, is_ref, asset, amount, set } = first {
            if !set && amount > 0 && r.chance(1, 5) {
                let back = if r.chance(1, 6) { amount } else if amount > 1 { 1 + r.below(amount as u64 - 1) as i64 } else { 0 };
                if back > 0 { v.push(Op::Mint { policy, plutus, is_ref, asset, amount: -back, set: false }); }
            }
        }
        v
    }
    fn coin(&mut self, r: &mut Rng) -> u64 { match r.below(8) { 0 | 1 => 0, 2 => 1, 3 => 4_294_967_296, 4 => 4_000_000_000, _ => 1000 + r.below(100_000) } }
    fn wk(&mut self, r: &mut Rng, script: bool) -> Wk {
        // mostly the matching entry point, sometimes the wrong one (an error)
        let right = !r.chance(1, 8);
        if script == right { if r.chance(3, 4) { Wk::Plutus(self.rid(r)) } else { Wk::Native } } else { Wk::Add }
    }
    fn cert(&mut self, r: &mut Rng) -> Op {
        let kind = r.below(19) as u32;
        let script = if (3..=6).contains(&kind) { false } else { r.chance(3, 5) };
        let needs = script && kind != 0;
        let wk = self.wk(r, needs);
        Op::Cert { wk, kind, script, id: r.below(12) }
    }
    fn wd(&mut self, r: &mut Rng) -> Op {
        let script = r.chance(3, 5);
        let wk = self.wk(r, script);
        let coin = self.coin(r);
        let hash = cred_tok(r, &self.h28, &wk);
        Op::Wd { wk, net: if r.chance(1, 6) { 1 } else { 0 }, script, hash, coin }
    }
    fn vote(&mut self, r: &mut Rng) -> Op {
        let vk = r.below(3) as u8;
        let script = vk != 2 && r.chance(3, 5);
        let wk = self.wk(r, script);
        let hash = cred_tok(r, &self.h28, &wk);
        Op::Vote { wk, vk, script, hash }
    }
    fn prop(&mut self, r: &mut Rng, allow_nonscript_plutus: bool) -> Op {
        let kind = *r.pick(&[0u32, 0, 1, 2, 2, 3, 4, 5, 6]);
        let policy = if (kind == 0 || kind == 2) && r.chance(3, 5) { Some(self.h28.pick(r)) } else { None };
        let wk = match &policy {
            Some(_) => if r.chance(1, 8) { Wk::Add } else { Wk::Plutus(self.rid(r)) },
            None => if allow_nonscript_plutus && r.chance(1, 3) { Wk::Plutus(self.rid(r)) } else if r.chance(1, 30) { Wk::Native } else { Wk::Add },
        };
        Op::Prop { wk, kind, policy, id: r.below(10) }
    }
}

fn gen(dir: &str) {
    let seed = seed_from_env();
    let thorough = is_thorough();
    let mut r = Rng::new(Rng::new(seed ^ 0xC10).next());
    let mut out = Out::new(dir);
    // observer calls are sprinkled into about half of the cases of every stream (a quarter of the permutation cases): the model
    // ignores them, so a builder whose answer depends on having been asked before disagrees with it
    let mut orng = Rng::new(Rng::new(seed ^ 0x0B5E).next());
    let mut emit = |out: &mut Out, label: &str, ops: &[Op]| {
        let with_obs = if label == "perm" { orng.chance(1, 4) } else { orng.chance(1, 2) };
        let mut v: Vec<Op> = vec![];
        for o in ops { v.push(o.clone()); if with_obs && orng.chance(1, 3) { v.push(Op::Query(orng.below(4) as u8)); } }
        let ops: &[Op] = &v;
        let case = case_line(label, ops);
        let toks: Vec<String> = case.split_whitespace().map(|s| s.to_string()).collect();
        let res = guarded(move || exec(&toks));
        out.emit(&case, &res);
    };
    let scale = if thorough { 40 } else { 3 };

    // 1. one builder at a time: random item sets in random insertion order (items may repeat: re-adding)
    for which in 0..6 {
        for _ in 0..(60 * scale) {
            let mut g = Gen::new(&mut r);
            let n = 1 + r.below(9) as usize;
            let mut ops: Vec<Op> = (0..n).flat_map(|_| match which {
                0 => vec![g.input(&mut r, false, 50)], 1 => g.mint_group(&mut r), 2 => vec![g.cert(&mut r)], 3 => vec![g.wd(&mut r)], 4 => vec![g.vote(&mut r)], _ => vec![g.prop(&mut r, false)],
            }).collect();
            ops.push(g.funding()); ops.push(g.key_collateral());
            shuffle(&mut r, &mut ops);
            emit(&mut out, ["spend", "mint", "cert", "reward", "vote", "propose"][which], &ops);
        }
    }
    // 2. ALL insertion orders of a set of pairwise distinct items (k <= 4 quick, k <= 6 thorough), per builder
    let kmax = if thorough { 6 } else { 4 };
    for which in 0..6 {
        for k in 2..=kmax {
            let reps = if k <= 4 { 3 } else if thorough { 3 } else { 1 };
            for _ in 0..reps {
                let mut g = Gen::new(&mut r);
                let mut items: Vec<Op> = vec![];
                let mut guard = 0;
                while items.len() < k && guard < 200 {
                    guard += 1;
                    let o = match which { 0 => g.input(&mut r, false, 60), 1 => g.mint(&mut r), 2 => g.cert(&mut r), 3 => g.wd(&mut r), 4 => g.vote(&mut r), _ => g.prop(&mut r, false) };
                    let key = |o: &Op| match o {
                        Op::In { tx, ix, .. } => format!("{}:{}", hex::encode(tx), ix),
                        Op::Mint { policy, .. } => hex::encode(&policy.bytes),
                        Op::Cert { kind, script, id, .. } => format!("{}.{}.{}", kind, script, id),
                        Op::Wd { net, script, hash, .. } => format!("{}.{}.{}", net, script, hex::encode(&hash.bytes)),
                        Op::Vote { vk, script, hash, .. } => format!("{}.{}.{}", vk, script, hex::encode(&hash.bytes)),
                        Op::Prop { kind, policy, id, .. } => format!("{}.{:?}.{}", kind, policy, id),
                        Op::Query(k) => format!("q{}", k),
                        Op::InU { tx, ix, .. } => format!("{}:{}", hex::encode(tx), ix),
                    };
                    if items.iter().all(|x| key(x) != key(&o)) { items.push(o); }
                }
                for p in permutations(&items) {
                    let mut ops = vec![g.funding(), g.key_collateral()];
                    ops.extend(p);
                    emit(&mut out, "perm", &ops);
                }
            }
        }
    }
    // 3. everything together
    for _ in 0..(150 * scale) {
        let mut g = Gen::new(&mut r);
        let mut ops = vec![g.funding(), g.key_collateral()];
        for _ in 0..r.below(6) { ops.push(g.input(&mut r, false, 45)); }
        for _ in 0..r.below(4) { ops.extend(g.mint_group(&mut r)); }
        for _ in 0..r.below(5) { ops.push(g.cert(&mut r)); }
        for _ in 0..r.below(5) { ops.push(g.wd(&mut r)); }
        for _ in 0..r.below(5) { ops.push(g.vote(&mut r)); }
        for _ in 0..r.below(4) { ops.push(g.prop(&mut r, false)); }
        if r.chance(1, 4) { ops.push(g.input(&mut r, true, 0)); }
        shuffle(&mut r, &mut ops);
        emit(&mut out, "mix", &ops);
    }
    // 4. same credential hash under both kinds, both networks, all voter kinds: the order is decided by the kind
    for _ in 0..(20 * scale) {
        let mut g = Gen::new(&mut r);
        let h = g.h28.pick(&mut r);
        let h2 = g.h28.pick(&mut r);
        let mut ops = vec![g.funding(), g.key_collateral()];
        for hh in [&h, &h2] {
            for net in [0u8, 1] {
                let c1 = g.coin(&mut r);
                ops.push(Op::Wd { wk: Wk::Add, net, script: false, hash: hp(hh.clone()), coin: c1 });
                let rid = g.rid(&mut r);
                let c2 = g.coin(&mut r);
                ops.push(Op::Wd { wk: Wk::Plutus(rid), net, script: true, hash: hp(hh.clone()), coin: c2 });
            }
            for vk in [0u8, 1] {
                ops.push(Op::Vote { wk: Wk::Add, vk, script: false, hash: hp(hh.clone()) });
                let rid = g.rid(&mut r);
                ops.push(Op::Vote { wk: Wk::Plutus(rid), vk, script: true, hash: hp(hh.clone()) });
            }
            ops.push(Op::Vote { wk: Wk::Add, vk: 2, script: false, hash: hp(hh.clone()) });
        }
        shuffle(&mut r, &mut ops);
        let keep = 3 + r.below(ops.len() as u64 - 2) as usize;
        ops.truncate(keep);
        ops.push(g.funding()); ops.push(g.key_collateral());
        emit(&mut out, "samehash", &ops);
    }
    // 5. re-adding the same item with another witness (last / first call wins, duplicates rejected)
    for _ in 0..(40 * scale) {
        let mut g = Gen::new(&mut r);
        let mut ops = vec![g.funding(), g.key_collateral()];
        let tx = g.tx.pick(&mut r); let h = g.h28.pick(&mut r);
        let sh = H { bytes: g.h28.pick(&mut r), seed: None };
        for _ in 0..(2 + r.below(3)) {
            let rid = g.rid(&mut r);
            match r.below(6) {
                0 => ops.push(Op::In { col: false, kind: if r.chance(1, 2) { InK::Plutus(sh.clone(), rid) } else if r.chance(1, 2) { InK::Native(sh.clone()) } else { InK::Key }, tx: tx.clone(), ix: 1 }),
                1 => ops.push(Op::Mint { policy: H { bytes: h.clone(), seed: None }, plutus: if r.chance(2, 3) { Some(if r.chance(1, 2) { 5 } else { rid }) } else { None }, is_ref: true, asset: r.below(2), amount: 1 + r.below(3) as i64, set: r.chance(1, 4) }),
                2 => { let script = r.chance(2, 3); ops.push(Op::Cert { wk: if script { Wk::Plutus(rid) } else { Wk::Add }, kind: 2, script, id: 3 }) }
                3 => { let c = g.coin(&mut r); ops.push(Op::Wd { wk: if r.chance(2, 3) { Wk::Plutus(rid) } else { Wk::Native }, net: 0, script: true, hash: hp(h.clone()), coin: c }) }
                4 => ops.push(Op::Vote { wk: if r.chance(2, 3) { Wk::Plutus(rid) } else { Wk::Native }, vk: 1, script: true, hash: hp(h.clone()) }),
                _ => ops.push(Op::Prop { wk: if r.chance(2, 3) { Wk::Plutus(rid) } else { Wk::Add }, kind: 0, policy: if r.chance(2, 3) { Some(h.clone()) } else { None }, id: 4 }),
            }
        }
        for _ in 0..r.below(3) { ops.push(g.wd(&mut r)); ops.push(g.input(&mut r, false, 50)); }
        emit(&mut out, "readd", &ops);
    }
    // 6. the known classes, every run: Plutus-witnessed collateral, a proposal without policy hash given a
    //    Plutus witness, an input re-added under another script hash
    for _ in 0..(12 * scale) {
        let mut g = Gen::new(&mut r);
        let mut ops = vec![g.funding(), g.key_collateral()];
        for _ in 0..(1 + r.below(3)) { ops.push(g.input(&mut r, false, 70)); }
        for _ in 0..(1 + r.below(2)) { ops.push(g.input(&mut r, true, 80)); }
        shuffle(&mut r, &mut ops);
        emit(&mut out, "coll", &ops);
    }
    for _ in 0..(12 * scale) {
        let mut g = Gen::new(&mut r);
        let mut ops = vec![g.funding(), g.key_collateral()];
        for _ in 0..(1 + r.below(4)) { ops.push(g.prop(&mut r, true)); }
        let rid = g.rid(&mut r);
        ops.push(Op::Prop { wk: Wk::Plutus(rid), kind: *r.pick(&[0u32, 1, 2, 3, 4, 5, 6]), policy: None, id: 20 + r.below(5) });
        shuffle(&mut r, &mut ops);
        emit(&mut out, "propns", &ops);
    }
    for _ in 0..(12 * scale) {
        let mut g = Gen::new(&mut r);
        let mut ops = vec![g.funding(), g.key_collateral()];
        let tx = g.tx.pick(&mut r);
        let h1 = H { bytes: g.h28.pick(&mut r), seed: None };
        let mut h2 = H { bytes: g.h28.pick(&mut r), seed: None };
        if h2.bytes == h1.bytes { h2.bytes[5] ^= 1; }
        let (r1, r2) = (g.rid(&mut r), g.rid(&mut r));
        ops.push(Op::In { col: false, kind: InK::Plutus(h1, r1), tx: tx.clone(), ix: 2 });
        for _ in 0..r.below(3) { ops.push(g.input(&mut r, false, 50)); }
        ops.push(Op::In { col: false, kind: if r.chance(2, 3) { InK::Plutus(h2, r2) } else { InK::Native(h2) }, tx: tx.clone(), ix: 2 });
        if r.chance(1, 4) { ops.push(Op::In { col: false, kind: InK::Key, tx: tx.clone(), ix: 2 }); }
        emit(&mut out, "stale", &ops);
    }
    // 6b. identical redeemers are emitted once (PlutusWitnesses::collect): an input and a collateral input, both first in
    //     their sets, with the same redeemer data
    for _ in 0..(4 * scale) {
        let mut g = Gen::new(&mut r);
        let rid = g.rid(&mut r);
        let mut tx_a = g.tx.pick(&mut r); tx_a[0] = 0x00;
        let mut tx_b = g.tx.pick(&mut r); tx_b[0] = 0x01;
        let mut ops = vec![g.funding(), g.key_collateral(),
            Op::In { col: false, kind: InK::Plutus(H { bytes: g.h28.pick(&mut r), seed: None }, rid), tx: tx_a, ix: 0 },
            Op::In { col: true, kind: InK::Plutus(H { bytes: g.h28.pick(&mut r), seed: None }, rid), tx: tx_b, ix: 0 }];
        for _ in 0..r.below(3) { ops.push(g.wd(&mut r)); }
        shuffle(&mut r, &mut ops);
        emit(&mut out, "dedup", &ops);
    }
    // 6c. value corners: withdrawals of exactly 0 lovelace (the "withdraw zero" validator pattern) before / between / after
    //     Plutus-witnessed withdrawals in reward-account order, with key and script credentials; a body that drops or merges
    //     such an entry no longer lists the items the redeemers were attached to
    for _ in 0..(15 * scale) {
        let mut g = Gen::new(&mut r);
        let mut ops = vec![g.funding(), g.key_collateral()];
        let n = 2 + r.below(4);
        for _ in 0..n {
            let script = r.chance(2, 3);
            let wk = if script { if r.chance(4, 5) { Wk::Plutus(g.rid(&mut r)) } else { Wk::Native } } else { Wk::Add };
            let coin = if r.chance(1, 2) { 0 } else { g.coin(&mut r) };
            ops.push(Op::Wd { wk, net: 0, script, hash: hp(g.h28.pick(&mut r)), coin });
        }
        if r.chance(1, 3) { ops.push(g.cert(&mut r)); }
        shuffle(&mut r, &mut ops);
        emit(&mut out, "zerowd", &ops);
    }
    // 6d. mint quantities: several assets under one policy, burns that take back part or all of an asset (net 0 = build error),
    //     set_asset overwriting, a native policy between Plutus policies
    for _ in 0..(15 * scale) {
        let mut g = Gen::new(&mut r);
        let mut ops = vec![g.funding(), g.key_collateral()];
        for _ in 0..(1 + r.below(3)) {
            let plutus = r.chance(2, 3);
            let policy = hash_tok(&mut r, &g.h28, plutus);
            let is_ref = policy.seed.is_none();
            let rid = g.rid(&mut r);
            for asset in 0..(1 + r.below(3)) {
                let a = 1 + r.below(4) as i64;
                ops.push(Op::Mint { policy: policy.clone(), plutus: if plutus { Some(rid) } else { None }, is_ref, asset, amount: a, set: false });
                if r.chance(1, 3) { ops.push(Op::Mint { policy: policy.clone(), plutus: if plutus { Some(rid) } else { None }, is_ref, asset, amount: if r.chance(1, 3) { -a } else { -(1 + r.below(a as u64) as i64) }, set: false }); }
            }
            if r.chance(1, 3) { ops.push(Op::Mint { policy: policy.clone(), plutus: if plutus { Some(rid) } else { None }, is_ref, asset: 10, amount: 1 + r.below(3) as i64, set: true }); }
            if r.chance(1, 4) { ops.push(Op::Mint { policy: policy.clone(), plutus: if plutus { Some(rid) } else { None }, is_ref, asset: 10, amount: 7, set: true }); }
        }
        shuffle(&mut r, &mut ops);
        emit(&mut out, "mintqty", &ops);
    }
    // 6e. every purpose with Plutus-witnessed, native-script-witnessed and unwitnessed items interleaved (a native item must
    //     count for the index although it carries no redeemer)
    for _ in 0..(12 * scale) {
        let mut g = Gen::new(&mut r);
        let mut ops = vec![g.funding(), g.key_collateral()];
        let which = r.below(6);
        let n = 3 + r.below(4);
        for k in 0..n {
            let kind = (k + r.below(2)) % 3;                       // 0 Plutus, 1 native, 2 plain
            let rid = g.rid(&mut r);
            let wk = match kind { 0 => Wk::Plutus(rid), 1 => Wk::Native, _ => Wk::Add };
            let script = kind != 2;
            if which == 0 || which == 5 {
                let tx = g.tx.pick(&mut r); let ix = ix(&mut r);
                let k = match kind { 0 => InK::Plutus(hash_tok(&mut r, &g.h28, true), rid), 1 => InK::Native(hash_tok(&mut r, &g.h28, false)), _ => InK::Key };
                ops.push(Op::In { col: false, kind: k, tx, ix });
            }
            if (which == 1 || which == 5) && kind != 2 {
                let policy = hash_tok(&mut r, &g.h28, kind == 0);
                let is_ref = policy.seed.is_none();
                ops.push(Op::Mint { policy, plutus: if kind == 0 { Some(rid) } else { None }, is_ref, asset: 0, amount: 1 + r.below(3) as i64, set: false });
            }
            if which == 2 || which == 5 {
                let ckind = if script { *r.pick(&[1u32, 2, 7, 8, 9, 10, 11, 12, 13, 14, 15, 16, 17, 18]) } else { r.below(19) as u32 };
                let cscript = script && !(3..=6).contains(&ckind);
                ops.push(Op::Cert { wk: if cscript { wk.clone() } else { Wk::Add }, kind: ckind, script: cscript, id: 20 + k });
            }
            if which == 3 || which == 5 {
                let hash = cred_tok(&mut r, &g.h28, &wk); let coin = g.coin(&mut r);
                ops.push(Op::Wd { wk: wk.clone(), net: 0, script, hash, coin });
            }
            if which == 4 || which == 5 {
                let vk = if script { r.below(2) as u8 } else { r.below(3) as u8 };
                let hash = cred_tok(&mut r, &g.h28, &wk);
                ops.push(Op::Vote { wk: wk.clone(), vk, script, hash });
            }
        }
        shuffle(&mut r, &mut ops);
        emit(&mut out, "interleave", &ops);
    }
    // 6f. the deprecated TransactionBuilder wrappers: set_certs / set_withdrawals (collections of unwitnessed items, repeated
    //     items included), add_mint_asset / set_mint_asset (inline native policy scripts), next to Plutus inputs
    for _ in 0..(12 * scale) {
        let mut g = Gen::new(&mut r);
        let mut ops = vec![g.funding(), g.key_collateral()];
        for _ in 0..r.below(4) { ops.push(g.input(&mut r, false, 60)); }
        for _ in 0..r.below(6) {
            let kind = r.below(19) as u32;
            ops.push(Op::Cert { wk: Wk::Add, kind, script: kind == 0 && r.chance(1, 2), id: r.below(4) });
        }
        for _ in 0..r.below(5) {
            let coin = g.coin(&mut r);
            ops.push(Op::Wd { wk: Wk::Add, net: 0, script: false, hash: hp(g.h28.pick(&mut r)), coin });
        }
        for _ in 0..r.below(4) {
            let seed = r.below(3) + 1;                             // few policies: repeated calls for one policy
            let set = r.chance(1, 3);
            ops.push(Op::Mint { policy: H { bytes: inline_native(seed).hash().to_bytes(), seed: Some(seed) }, plutus: None, is_ref: false,
                                asset: if set { 10 } else { r.below(2) }, amount: if r.chance(1, 10) { 0 } else { 1 + r.below(4) as i64 }, set });
        }
        shuffle(&mut r, &mut ops);
        emit(&mut out, "wrap", &ops);
    }
    // 6g. inputs selected by the builder (add_inputs_from) next to script inputs: the selected key inputs shift the spend indices
    for _ in 0..(12 * scale) {
        let mut g = Gen::new(&mut r);
        let mut ops = vec![g.key_collateral()];
        for _ in 0..(1 + r.below(4)) { ops.push(g.input(&mut r, false, 70)); }
        if r.chance(1, 2) { ops.push(g.wd(&mut r)); }
        if r.chance(1, 2) { ops.push(g.cert(&mut r)); }
        shuffle(&mut r, &mut ops);
        emit(&mut out, "coinsel", &ops);
    }
    // 6h. histories with queries between the additions: a Plutus input, a query, then an input that sorts before it (or after it),
    //     on the sub-builders (`observe`) and on the TransactionBuilder that holds the inputs itself (`live`)
    for _ in 0..(20 * scale) {
        let live = r.chance(1, 2);
        let mut g = Gen::new(&mut r);
        let mut ops = vec![g.key_collateral()];
        let n = 2 + r.below(4);
        for _ in 0..n {
            let mut o = g.input(&mut r, false, 60);
            if live { if let Op::In { kind: InK::Native(h), .. } = &mut o { let seed = r.below(1 << 40); *h = H { bytes: inline_native(seed).hash().to_bytes(), seed: Some(seed) }; } }
            ops.push(o);
            if r.chance(2, 3) { ops.push(Op::Query(if live { 1 + r.below(3) as u8 } else { r.below(4) as u8 })); }
            if !live && r.chance(1, 3) { ops.push(match r.below(4) { 0 => g.wd(&mut r), 1 => g.cert(&mut r), 2 => g.vote(&mut r), _ => g.mint(&mut r) }); if r.chance(1, 2) { ops.push(Op::Query(r.below(4) as u8)); } }
        }
        // the funding input last or first: it sorts after most inputs, the low one before all of them
        if r.chance(1, 2) { ops.push(g.funding()); } else { ops.insert(0, g.funding()); }
        ops.push(Op::In { col: false, kind: InK::Key, tx: vec![0x00; 32], ix: 0 });
        emit(&mut out, if live { "live" } else { "observe" }, &ops);
    }
    // 6i. the three *_utxo entry points with UTxOs at every kind of address (matching and mismatching the entry point): a refused
    //     call must leave nothing behind, an accepted one is a key / native / Plutus registration like any other
    const AKS: [&str; 9] = ["bk", "bs", "ek", "es", "pk", "ps", "rw", "by", "mf"];
    for round in 0..(20 * scale) {
        let mut g = Gen::new(&mut r);
        let mut ops = vec![g.funding(), g.key_collateral()];
        let n = 3 + r.below(5);
        for k in 0..n {
            let entry = *r.pick(&['r', 'n', 'p', 'p']);
            // every (entry, address kind) pair is produced within a few cases; the rest at random
            let ak = if k == 0 { AKS[(round % 9) as usize] } else { *r.pick(&AKS) };
            let entry = if k == 0 { ['r', 'n', 'p'][((round / 9) % 3) as usize] } else { entry };
            let sh = hash_tok(&mut r, &g.h28, entry == 'p');
            let sh = if entry == 'r' { hp(g.h28.pick(&mut r)) } else { sh };
            let rid = g.rid(&mut r);
            ops.push(Op::InU { col: r.chance(1, 8), entry, ak: ak.to_string(), sh, tx: g.tx.pick(&mut r), ix: ix(&mut r), rid });
            if r.chance(1, 3) { ops.push(g.input(&mut r, false, 50)); }
        }
        shuffle(&mut r, &mut ops);
        emit(&mut out, "utxo", &ops);
    }
    // 7. no collateral although Plutus witnesses are present (build_tx refuses), and nothing Plutus at all
    for _ in 0..(6 * scale) {
        let mut g = Gen::new(&mut r);
        let mut ops = vec![g.funding()];
        if r.chance(1, 2) { ops.push(g.input(&mut r, false, 100)); } else { let rid = g.rid(&mut r); let c = g.coin(&mut r); ops.push(Op::Wd { wk: Wk::Plutus(rid), net: 0, script: true, hash: hp(g.h28.pick(&mut r)), coin: c }); }
        if r.chance(1, 3) { ops.push(g.input(&mut r, true, 100)); }
        emit(&mut out, "nocoll", &ops);
        let mut ops = vec![g.funding()];
        for _ in 0..r.below(4) { ops.push(g.input(&mut r, false, 0)); }
        let c = g.coin(&mut r);
        ops.push(Op::Wd { wk: Wk::Add, net: 0, script: false, hash: hp(g.h28.pick(&mut r)), coin: c });
        emit(&mut out, "plain", &ops);
    }
    // 8. long cases
    for _ in 0..(4 * scale) {
        let mut g = Gen::new(&mut r);
        let mut ops = vec![g.funding(), g.key_collateral()];
        for _ in 0..(10 + r.below(15)) {
            match r.below(6) { 0 => ops.push(g.input(&mut r, false, 50)), 1 => ops.extend(g.mint_group(&mut r)), 2 => ops.push(g.cert(&mut r)), 3 => ops.push(g.wd(&mut r)), 4 => ops.push(g.vote(&mut r)), _ => ops.push(g.prop(&mut r, false)) }
        }
        shuffle(&mut r, &mut ops);
        emit(&mut out, "long", &ops);
    }
    out.finish();
}

fn main() {
    if std::env::var("VERIF_DEBUG").is_err() { silence_panics(); }
    let args: Vec<String> = std::env::args().collect();
    match args.get(1).map(|s| s.as_str()) {
        Some("gen") => gen(&args[2]),
        Some("run") => {
            let mut o = String::new();
            for (idx, toks) in read_cases(&args[2]) {
                let res = guarded(move || exec(&toks));
                o.push_str(&format!("{} {}\n", idx, res));
            }
            std::fs::write(&args[3], o).unwrap();
        }
        _ => { eprintln!("usage: c10 gen <dir> | run <cases> <out>"); std::process::exit(2); }
    }
}
