use std::io::Write;

/// SplitMix64: one PRNG state per run so every case replays from (seed, index).
#[derive(Clone)]
pub struct Rng(pub u64);
impl Rng {
    /// The seed is hashed (SplitMix64 finaliser) so that neighbouring seeds give unrelated streams.
    pub fn new(seed: u64) -> Self {
        let mut z = seed.wrapping_add(0x9E3779B97F4A7C15).wrapping_mul(0xD6E8FEB86659FD93);
        z = (z ^ (z >> 30)).wrapping_mul(0xBF58476D1CE4E5B9);
        z = (z ^ (z >> 27)).wrapping_mul(0x94D049BB133111EB);
        Rng(z ^ (z >> 31))
    }
    pub fn next(&mut self) -> u64 {
        self.0 = self.0.wrapping_add(0x9E3779B97F4A7C15);
        let mut z = self.0;
        z = (z ^ (z >> 30)).wrapping_mul(0xBF58476D1CE4E5B9);
        z = (z ^ (z >> 27)).wrapping_mul(0x94D049BB133111EB);
        z ^ (z >> 31)
    }
    pub fn below(&mut self, n: u64) -> u64 { if n == 0 { 0 } else { self.next() % n } }
    pub fn range(&mut self, lo: u64, hi: u64) -> u64 { lo + self.below(hi - lo + 1) }
    pub fn chance(&mut self, num: u64, den: u64) -> bool { self.below(den) < num }
    pub fn pick<'a, T>(&mut self, xs: &'a [T]) -> &'a T { &xs[self.below(xs.len() as u64) as usize] }
    pub fn bytes(&mut self, n: usize) -> Vec<u8> { (0..n).map(|_| self.next() as u8).collect() }
    /// u64 biased to CBOR width-class boundaries and 64-bit extremes.
    pub fn u64_edge(&mut self) -> u64 {
        const E: [u64; 22] = [0, 1, 2, 23, 24, 25, 255, 256, 257, 65535, 65536, 65537,
            0xffff_ffff, 0x1_0000_0000, 0x1_0000_0001, (1u64 << 63) - 1, 1u64 << 63, (1u64 << 63) + 1,
            u64::MAX - 1, u64::MAX, 1_000_000, 2_000_000];
        match self.below(10) {
            0..=3 => *self.pick(&E),
            4 => { let e = *self.pick(&E); e.wrapping_add(self.below(5)).wrapping_sub(2) }
            5 => self.below(1000),
            6 => self.below(10_000_000),
            7 => { let s = self.below(64); self.next() >> s }
            _ => self.next(),
        }
    }
}

pub fn seed_from_env() -> u64 {
    std::env::var("VERIF_SEED").ok().and_then(|s| s.trim().parse::<i128>().ok()).map(|v| v as u64).unwrap_or(1)
}
pub fn tier_from_env() -> String {
    std::env::var("VERIF_TIER").unwrap_or_else(|_| "quick".to_string())
}
pub fn is_thorough() -> bool { tier_from_env() == "thorough" }

pub fn hex_or_dash(b: &[u8]) -> String { if b.is_empty() { "-".to_string() } else { hex::encode(b) } }
pub fn unhex_or_dash(s: &str) -> Vec<u8> { if s == "-" { vec![] } else { hex::decode(s).expect("hex in case file") } }

/// Run `f`, turning a panic into an observation.
pub fn guarded<F: FnOnce() -> String + std::panic::UnwindSafe>(f: F) -> String {
    match std::panic::catch_unwind(f) {
        Ok(s) => s,
        Err(_) => "panic".to_string(),
    }
}
pub fn silence_panics() { std::panic::set_hook(Box::new(|_| {})); }

pub struct Out { pub cases: std::io::BufWriter<std::fs::File>, pub impl_: std::io::BufWriter<std::fs::File>, pub n: u64 }
impl Out {
    /// `dir` is created; writes `cases.txt` and `impl.txt` there.
    pub fn new(dir: &str) -> Self {
        std::fs::create_dir_all(dir).unwrap();
        Out {
            cases: std::io::BufWriter::new(std::fs::File::create(format!("{}/cases.txt", dir)).unwrap()),
            impl_: std::io::BufWriter::new(std::fs::File::create(format!("{}/impl.txt", dir)).unwrap()),
            n: 0,
        }
    }
    /// One case: `case` = kind + args (no index), `result` = implementation's canonical result.
    pub fn emit(&mut self, case: &str, result: &str) {
        writeln!(self.cases, "{} {}", self.n, case).unwrap();
        writeln!(self.impl_, "{} {}", self.n, result).unwrap();
        self.n += 1;
    }
    pub fn finish(mut self) { self.cases.flush().unwrap(); self.impl_.flush().unwrap(); }
}

/// Replay mode helper: read case lines (with index) from a file.
pub fn read_cases(path: &str) -> Vec<(String, Vec<String>)> {
    let txt = std::fs::read_to_string(path).expect("case file");
    txt.lines().filter(|l| !l.trim().is_empty() && !l.starts_with('#')).map(|l| {
        let mut it = l.split_whitespace();
        let idx = it.next().unwrap().to_string();
        (idx, it.map(|s| s.to_string()).collect())
    }).collect()
}
