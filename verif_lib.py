#!/usr/bin/env python3
"""Shared machinery behind /verif/check.

Per property the flow is (DESIGN.md section 4):
  1. proof obligations: `make Props/Cxx.vo` (full .vo build of the cone), Print Assumptions
     compared with an allow-list, forbidden-token scan of every .v file;
  2. correspondence: the Rust harness binary (linked against /repo/rust's working tree, hooks on)
     generates cases and records the implementation's results; the OCaml driver (extracted Coq
     model + I/O glue) computes the model's result and the spec's verdict for every case;
  3. verdict: spec failures outside the known-finding classes, disagreements model/implementation,
     and broken proof obligations are violations; a search for a failing input follows a break.
"""
import fcntl
import glob
import hashlib
import json
import os
import re
import subprocess
import sys
import time

ROOT = os.path.dirname(os.path.abspath(__file__))
COQ = os.path.join(ROOT, "coq")
OCAML = os.path.join(ROOT, "ocaml")
HARNESS = os.path.join(ROOT, "harness")
RUN = os.path.join(ROOT, "run")
EVID = os.path.join(ROOT, "evidence")
REPLAYS = os.path.join(ROOT, "replays")

FORBIDDEN = [r"\bAdmitted\b", r"\badmit\b", r"\bAxiom\b", r"\bAxioms\b", r"\bParameter\b", r"\bParameters\b",
             r"\bConjecture\b", r"\bAdmit Obligations\b", r"Unset Guard Checking", r"bypass_check",
             r"Unset Positivity Checking", r"Unset Universe Checking", r"type-in-type", r"impredicative-set",
             r"\bnative_compute\b"]
STMT_RE = re.compile(r"^\s*(?:Local\s+|Global\s+|#\[[^\]]*\]\s*)*(Theorem|Lemma|Example|Corollary|Fact|Proposition|Remark)\s+([A-Za-z0-9_']+)", re.M)

ENV = dict(os.environ)
ENV["CARGO_NET_OFFLINE"] = "true"


def sh(cmd, cwd=None, timeout=3600, env=None):
    """Run a shell command, return (rc, combined output)."""
    try:
        p = subprocess.run(cmd, shell=True, cwd=cwd, stdout=subprocess.PIPE, stderr=subprocess.STDOUT,
                           timeout=timeout, env=env or ENV, text=True, errors="replace")
        return p.returncode, p.stdout
    except subprocess.TimeoutExpired as e:
        out = e.stdout if isinstance(e.stdout, str) else (e.stdout or b"").decode("utf8", "replace")
        return 124, out + "\n[timeout after %ss]" % timeout


class BuildLock:
    """Serialises builds that share a directory (make in coq/, cargo target, ocaml/build)."""
    def __init__(self, name):
        self.path = os.path.join(ROOT, ".lock-" + name)
    def __enter__(self):
        self.f = open(self.path, "w")
        fcntl.flock(self.f, fcntl.LOCK_EX)
    def __exit__(self, *a):
        fcntl.flock(self.f, fcntl.LOCK_UN)
        self.f.close()


def strip_comments(src):
    out, depth, i = [], 0, 0
    while i < len(src):
        if src.startswith("(*", i):
            depth += 1; i += 2
        elif src.startswith("*)", i) and depth > 0:
            depth -= 1; i += 2
        else:
            if depth == 0:
                out.append(src[i])
            i += 1
    return "".join(out)


def v_files():
    fs = []
    for root, _, names in os.walk(COQ):
        for n in names:
            if n.endswith(".v"):
                fs.append(os.path.relpath(os.path.join(root, n), COQ))
    return sorted(fs)


def ensure_makefile():
    files = [f for f in v_files() if not f.startswith("Extract/")]
    stamp = os.path.join(COQ, ".filelist")
    want = "\n".join(files)
    have = open(stamp).read() if os.path.exists(stamp) else None
    if have != want or not os.path.exists(os.path.join(COQ, "Makefile")):
        rc, out = sh("coq_makefile -f _CoqProject %s -o Makefile" % " ".join(files), cwd=COQ)
        if rc != 0:
            raise RuntimeError("coq_makefile failed:\n" + out)
        open(stamp, "w").write(want)


def cone(vfile):
    """Transitive CSL dependencies of a .v file (by its Require lines)."""
    seen, todo = [], [vfile]
    while todo:
        f = todo.pop()
        if f in seen or not os.path.exists(os.path.join(COQ, f)):
            continue
        seen.append(f)
        src = strip_comments(open(os.path.join(COQ, f)).read())
        for m in re.finditer(r"From\s+CSL\s+Require\s+(?:Import\s+|Export\s+)?(.*?)\.(?=\s|$)", src, re.S):
            for mod in m.group(1).split():
                todo.append(mod.replace(".", "/") + ".v")
        for m in re.finditer(r"(?<!CSL )Require\s+(?:Import\s+|Export\s+)?((?:CSL\.[A-Za-z0-9_.']+\s*)+)\.(?=\s|$)", src, re.S):
            for mod in m.group(1).split():
                todo.append(mod[len("CSL."):].replace(".", "/") + ".v")
    return sorted(seen)


def forbidden_scan(files):
    hits = []
    for f in files:
        src = strip_comments(open(os.path.join(COQ, f)).read())
        for pat in FORBIDDEN:
            for m in re.finditer(pat, src):
                line = src.count("\n", 0, m.start()) + 1
                hits.append("%s:%d: %s" % (f, line, m.group(0)))
        # Variable/Hypothesis outside a section
        depth = 0
        for ln, line in enumerate(src.split("\n"), 1):
            s = line.strip()
            if re.match(r"Section\s+\w+\s*\.", s):
                depth += 1
            elif re.match(r"End\s+\w+\s*\.", s) and depth > 0:
                depth -= 1
            elif depth == 0 and re.match(r"(Variable|Variables|Hypothesis|Hypotheses|Context)\b", s):
                hits.append("%s:%d: %s outside a section" % (f, ln, s.split()[0]))
    return hits


def proof_stage(pid, cfg, log):
    """Returns dict(obligations, discharged, failures[list of str], assumptions{thm: [axioms]}, checker_cmd)."""
    props = cfg.get("props_file", "Props/%s.v" % pid)
    res = {"failures": [], "assumptions": {}, "theorems": []}
    with BuildLock("coq"):
        ensure_makefile()
        vo = os.path.join(COQ, props[:-2] + ".vo")
        if os.path.exists(vo):
            os.remove(vo)
        cmd = "timeout 3000 make -j16 %s" % (props[:-2] + ".vo")
        res["checker_cmd"] = "cd /verif/coq && coq_makefile -f _CoqProject <all .v> -o Makefile && " + cmd
        rc, out = sh(cmd, cwd=COQ, timeout=3100)
    log.write("== make %s (rc=%d)\n%s\n" % (props, rc, out[-6000:]))
    files = cone(props)
    # also every *Proofs.v whose model file is in the cone is part of the obligations of the property
    src = strip_comments(open(os.path.join(COQ, props)).read())
    thms = [m.group(2) for m in STMT_RE.finditer(src) if m.group(1) == "Theorem"]
    res["theorems"] = thms
    stmts = 0
    done = 0
    for f in files:
        n = len(STMT_RE.findall(strip_comments(open(os.path.join(COQ, f)).read())))
        stmts += n
        vof = os.path.join(COQ, f[:-2] + ".vo")
        if os.path.exists(vof) and os.path.getmtime(vof) >= os.path.getmtime(os.path.join(COQ, f)):
            done += n
        else:
            res["failures"].append("file %s did not compile (its %d statements are not discharged)" % (f, n))
    res["obligations"], res["discharged"] = stmts, done
    if rc != 0:
        m = re.search(r'File "\./([^"]+)", line (\d+)', out)
        where = "%s:%s" % (m.group(1), m.group(2)) if m else "?"
        res["failures"].append("make %s failed at %s" % (props, where))
    else:
        # Print Assumptions blocks appear in order, one per theorem of the Props file
        blocks = re.findall(r"(Closed under the global context|Axioms:\n(?:.+\n?)+?(?=\n\S|\Z))", out)
        pa = re.findall(r"Print\s+Assumptions\s+([A-Za-z0-9_']+)", src)
        # only the output of the Props file itself (compiled last: it depends on the whole cone); other files of
        # the cone may print their own "Closed under the global context" lines on a cold build
        k = out.rfind("COQC " + props)
        blocks = parse_assumption_blocks(out[k:] if k >= 0 else out)
        if len(blocks) < len(pa):
            res["failures"].append("Print Assumptions output missing (%d of %d)" % (len(blocks), len(pa)))
        for name, blk in zip(pa, blocks):
            res["assumptions"][name] = blk
            for ax in blk:
                axname = ax.split(":")[0].strip()
                if axname not in cfg.get("allowed_axioms", []):
                    res["failures"].append("theorem %s depends on axiom %s not in the allow-list" % (name, axname))
        for t in thms:
            if t not in pa:
                res["failures"].append("theorem %s has no Print Assumptions" % t)
    # pinned statements: every theorem name listed in the config must still be in the Props file
    for t in cfg.get("theorems", []):
        if t not in thms:
            res["failures"].append("pinned theorem %s is missing from %s" % (t, props))
    hits = forbidden_scan(v_files())
    for h in hits:
        res["failures"].append("forbidden token: " + h)
    return res


def parse_assumption_blocks(out):
    blocks, cur = [], None
    for line in out.split("\n"):
        if line.startswith("Closed under the global context"):
            if cur is not None:
                blocks.append(cur)
                cur = None
            blocks.append([])
        elif line.startswith("Axioms:"):
            if cur is not None:
                blocks.append(cur)
            cur = []
        elif cur is not None:
            if re.match(r"^[A-Za-z_][A-Za-z0-9_.']*\s*:", line):
                cur.append(line.strip())
            elif line.startswith(" ") or line.strip() == "":
                if line.strip() and cur:
                    cur[-1] += " " + line.strip()
            else:
                blocks.append(cur)
                cur = None
    if cur is not None:
        blocks.append(cur)
    return blocks


def newer(target, sources):
    if not os.path.exists(target):
        return False
    t = os.path.getmtime(target)
    return all(os.path.getmtime(s) <= t for s in sources if os.path.exists(s))


def build_driver(pid, cfg, log, force=False):
    name = cfg.get("driver", pid.lower())
    ext = os.path.join(COQ, "Extract", "Extract%s.v" % pid)
    exe = os.path.join(OCAML, "build", "%s_driver" % name)
    with BuildLock("ocaml"):
        os.makedirs(os.path.join(OCAML, "gen"), exist_ok=True)
        os.makedirs(os.path.join(OCAML, "build"), exist_ok=True)
        srcs = [os.path.join(COQ, f) for f in cone("Extract/Extract%s.v" % pid)] + \
               [os.path.join(OCAML, x) for x in ("prelude.ml", "conv.ml", "%s_driver.ml" % name)]
        if not force and newer(exe, srcs):
            return True
        with BuildLock("coq"):
            ensure_makefile()
            deps = [f[:-2] + ".vo" for f in cone("Extract/Extract%s.v" % pid) if not f.startswith("Extract/")]
            rc, out = sh("timeout 3000 make -j16 %s" % " ".join(deps), cwd=COQ, timeout=3100)
            if rc != 0:
                log.write("== model build for driver failed\n%s\n" % out[-4000:])
                return False
            rc, out = sh("timeout 600 coqc -Q ../../coq CSL ../../coq/Extract/Extract%s.v" % pid,
                         cwd=os.path.join(OCAML, "gen"), timeout=700)
        if rc != 0:
            log.write("== extraction failed\n%s\n" % out[-4000:])
            return False
        gen = os.path.join(OCAML, "gen", "model_%s.ml" % name)
        main = os.path.join(OCAML, "build", "%s_main.ml" % name)
        with open(main, "w") as o:
            for part in (os.path.join(OCAML, "prelude.ml"), gen, os.path.join(OCAML, "conv.ml"),
                         os.path.join(OCAML, "%s_driver.ml" % name)):
                o.write(open(part).read())
                o.write("\n")
        rc, out = sh("timeout 900 ocamlfind ocamlopt -O2 -w -a -package zarith,str -linkpkg %s_main.ml -o %s_driver 2>&1 || "
                     "timeout 900 ocamlfind ocamlopt -w -a -package zarith,str -linkpkg %s_main.ml -o %s_driver"
                     % (name, name, name, name), cwd=os.path.join(OCAML, "build"), timeout=1900)
        if rc != 0:
            log.write("== ocamlopt failed\n%s\n" % out[-4000:])
            return False
    return True


def build_harness(pid, cfg, log):
    name = cfg.get("harness_bin", pid.lower())
    lock = os.path.join(HARNESS, "Cargo.lock")
    if not os.path.exists(lock) and os.path.exists("/repo/rust/Cargo.lock"):
        sh("cp /repo/rust/Cargo.lock %s" % lock)
    with BuildLock("cargo"):
        # cargo decides freshness of the path dependency by file times; a tree restored with OLDER times (git stash,
        # a symlink pointed back, a restored copy) would silently keep the previous library.  The content hash of the
        # library sources decides instead: when it differs from the one recorded at the last build, the library crate
        # is cleaned so that it is rebuilt from what /repo/rust contains now.
        h = repo_src_hash()
        stamp = os.path.join(HARNESS, "target", ".csl-src-hash")
        have = open(stamp).read().strip() if os.path.exists(stamp) else ""
        if have and have != h:
            sh("timeout 600 cargo clean --offline -p cardano-serialization-lib 2>&1", cwd=HARNESS, timeout=700)
        rc, out = sh("timeout 3000 cargo build --offline --bin %s 2>&1" % name, cwd=HARNESS, timeout=3100)
        if rc == 0:
            os.makedirs(os.path.dirname(stamp), exist_ok=True)
            open(stamp, "w").write(h)
    log.write("== cargo build --bin %s (rc=%d)\n%s\n" % (name, rc, out[-3000:]))
    return rc == 0


def repo_src_hash():
    """sha256 over the library's sources as the harness sees them (through the `repo` symlink)."""
    root = os.path.join(ROOT, "repo", "rust")
    hh = hashlib.sha256()
    files = [os.path.join(root, "Cargo.toml"), os.path.join(root, "build.rs")]
    for d, _, names in os.walk(os.path.join(root, "src")):
        for n in names:
            files.append(os.path.join(d, n))
    for f in sorted(files):
        if os.path.isfile(f):
            hh.update(f[len(root):].encode()); hh.update(b"\0")
            hh.update(open(f, "rb").read()); hh.update(b"\0")
    return hh.hexdigest()


def harness_exe(cfg, pid):
    return os.path.join(HARNESS, "target", "debug", cfg.get("harness_bin", pid.lower()))


def driver_exe(cfg, pid):
    return os.path.join(OCAML, "build", "%s_driver" % cfg.get("driver", pid.lower()))


def read_lines(path):
    """index -> rest-of-line"""
    d = {}
    order = []
    if not os.path.exists(path):
        return d, order
    for line in open(path, errors="replace"):
        line = line.rstrip("\n")
        if not line.strip():
            continue
        idx, _, rest = line.partition(" ")
        d[idx] = rest
        order.append(idx)
    return d, order


def run_round(pid, cfg, outdir, seed, tier, log, mode="gen", casefile=None):
    """Runs harness + driver; returns list of case records."""
    os.makedirs(outdir, exist_ok=True)
    env = dict(ENV); env["VERIF_SEED"] = str(seed); env["VERIF_TIER"] = tier
    hx, dx = harness_exe(cfg, pid), driver_exe(cfg, pid)
    tmo = cfg.get("gen_timeout", 1500 if tier == "quick" else 6000)
    if mode == "gen":
        if cfg.get("driver_gen"):
            # the model side generates part of the cases (schema walk); the harness executes them and adds its own
            rc, out = sh("ulimit -s unlimited 2>/dev/null; %s gen %s %s %s/model_cases.txt" % (dx, seed, tier, outdir), cwd=ROOT, timeout=tmo, env=env)
            log.write("== driver gen rc=%d\n%s\n" % (rc, out[-2000:]))
            if rc != 0:
                return None, "model-side case generation exited with %d: %s" % (rc, out[-300:])
        rc, out = sh("%s gen %s" % (hx, outdir), cwd=ROOT, timeout=tmo, env=env)
    else:
        sh("cp %s %s/cases.txt" % (casefile, outdir))
        rc, out = sh("%s run %s/cases.txt %s/impl.txt" % (hx, outdir, outdir), cwd=ROOT, timeout=tmo, env=env)
    log.write("== harness %s seed=%s tier=%s rc=%d\n%s\n" % (mode, seed, tier, rc, out[-2000:]))
    if rc != 0:
        return None, "harness exited with %d: %s" % (rc, out[-300:])
    rc, out = sh("ulimit -s unlimited 2>/dev/null; %s %s/cases.txt %s/impl.txt > %s/model.txt" % (dx, outdir, outdir, outdir),
                 cwd=ROOT, timeout=tmo, env=env)
    log.write("== driver rc=%d\n%s\n" % (rc, out[-2000:]))
    if rc != 0:
        return None, "model driver exited with %d: %s" % (rc, out[-300:])
    cases, order = read_lines(os.path.join(outdir, "cases.txt"))
    impl, _ = read_lines(os.path.join(outdir, "impl.txt"))
    model_raw, _ = read_lines(os.path.join(outdir, "model.txt"))
    recs = []
    for idx in order:
        mr = model_raw.get(idx, "driver-missing\tna")
        m, _, v = mr.partition("\t")
        recs.append({"idx": idx, "case": cases[idx], "impl": impl.get(idx, "harness-missing"), "model": m.strip(), "verdict": v.strip() or "na"})
    return recs, None


def load_known():
    """known_findings.json is the committed, merged file; known_findings.d/*.json are its per-property parts
    (merged by gen_manifest.py).  Never written at run time."""
    out = []
    p = os.path.join(ROOT, "known_findings.json")
    if os.path.exists(p):
        out = json.load(open(p))
    return out


def agree(cfg, rec):
    """Comparison rule between model and implementation results."""
    rule = cfg.get("compare", "exact")
    i, m = rec["impl"], rec["model"]
    if m.startswith("skip"):
        return True
    if rule == "exact":
        return i == m
    if rule == "class":
        return i.split(" ")[0] == m.split(" ")[0]
    if callable(rule):
        return rule(rec)
    return i == m


def write_replay(pid, seed, tag, recs, header):
    os.makedirs(REPLAYS, exist_ok=True)
    path = os.path.join(REPLAYS, "%s-%s-%s.case" % (pid, seed, tag))
    with open(path, "w") as f:
        for h in header:
            f.write("# " + h + "\n")
        for r in recs:
            f.write("# impl:  %s\n# model: %s\n# spec verdict: %s\n" % (r["impl"][:2000], r["model"][:2000], r["verdict"]))
            f.write("%s %s\n" % (r["idx"], r["case"]))
    return path


def nontrivial(cfg, rec):
    f = cfg.get("nontrivial")
    if f:
        return f(rec)
    return rec["model"].startswith("ok")


def check(pid, cfg, tier, seed):
    t0 = time.time()
    os.makedirs(os.path.join(RUN, pid), exist_ok=True)
    os.makedirs(EVID, exist_ok=True)
    log = open(os.path.join(RUN, pid, "%s.log" % tier), "w")
    violations = []      # (line, replay)
    notes = []
    pr = proof_stage(pid, cfg, log)
    breaks = list(pr["failures"])          # broken proof obligations
    ok_d = build_driver(pid, cfg, log)
    ok_h = build_harness(pid, cfg, log)
    recs = []
    corr_break = []
    if not ok_d:
        breaks.append("the executable model (extraction / driver) no longer builds")
    if not ok_h:
        breaks.append("the correspondence harness no longer builds against /repo/rust")
    known = [k for k in load_known() if k.get("property") == pid]
    known_classes = {k["class"]: k for k in known if k.get("status") == "known"}
    known_seen = {}
    spec_fails = []
    rounds = 0
    if ok_d and ok_h:
        # corpus first (minimised past disagreements and known-finding witnesses), then generated cases
        corpus = sorted(glob.glob(os.path.join(ROOT, "corpus", pid, "*.case")))
        allrecs = []
        for cf in corpus:
            r, err = run_round(pid, cfg, os.path.join(RUN, pid, tier, "corpus-" + os.path.basename(cf)), seed, tier, log, "run", cf)
            if r is None:
                breaks.append("corpus %s: %s" % (os.path.basename(cf), err))
            else:
                for x in r:
                    x["src"] = "corpus:" + os.path.basename(cf)
                allrecs += r
        r, err = run_round(pid, cfg, os.path.join(RUN, pid, tier, "gen"), seed, tier, log)
        rounds += 1
        if r is None:
            breaks.append("generated cases: " + err)
        else:
            for x in r:
                x["src"] = "gen:%s" % seed
            allrecs += r
        recs = allrecs
        for x in recs:
            if x["verdict"].startswith("fails"):
                cls = x["verdict"].partition(":")[2] or "-"
                if cls in known_classes:
                    known_seen.setdefault(cls, x)
                else:
                    spec_fails.append(x)
            if not agree(cfg, x):
                corr_break.append(x)
    # search for a failing input after a break (more seeds, thorough generators), bounded in time
    if (breaks or corr_break) and not spec_fails and ok_d and ok_h:
        budget = cfg.get("search_budget_s", 240)
        ts = time.time()
        k = 0
        while time.time() - ts < budget and k < 6:
            k += 1
            r, err = run_round(pid, cfg, os.path.join(RUN, pid, tier, "search%d" % k), seed * 7919 + k, "quick" if k < 3 else "thorough", log)
            rounds += 1
            if r is None:
                break
            for x in r:
                x["src"] = "search:%s" % (seed * 7919 + k)
                if x["verdict"].startswith("fails") and (x["verdict"].partition(":")[2] or "-") not in known_classes:
                    spec_fails.append(x)
            if spec_fails:
                break
    for cls, x in known_seen.items():
        print("KNOWN-FINDING: property=%s %s [class %s, e.g. case: %s]" % (pid, known_classes[cls].get("what", ""), cls, x["case"][:160]))
    # known findings whose witness is in the corpus but did not fail any more are simply not printed
    exit_code = 0
    if spec_fails:
        x = spec_fails[0]
        path = write_replay(pid, seed, "fail", spec_fails[:5],
                            ["property %s fails on the implementation for this input (spec verdict %s)" % (pid, x["verdict"]),
                             "source: %s" % x.get("src", "")] + ["also broken: " + b for b in breaks[:5]])
        print("VIOLATION property=%s replay=%s" % (pid, path))
        exit_code = 1
    elif breaks or corr_break:
        hdr = []
        for b in breaks:
            hdr.append("no longer checks: " + b)
        if corr_break:
            hdr.append("correspondence model<->implementation broken on %d of %d cases (first ones below); "
                       "theorems about the model no longer speak about this code" % (len(corr_break), len(recs)))
        hdr.append("theorems of Props/%s.v: %s" % (pid, ", ".join(pr["theorems"])))
        hdr.append("search for an input on which the property itself fails: %d further rounds, none found" % max(0, rounds - 1))
        path = write_replay(pid, seed, "break", corr_break[:5], hdr)
        print("VIOLATION property=%s replay=%s no-failing-input-found" % (pid, path))
        exit_code = 1
    # evidence
    distinct = set()
    for x in recs:
        if nontrivial(cfg, x):
            distinct.add(x["case"])
    dist = {}
    for x in recs:
        k = x["case"].split(" ")[0] + ":" + x["model"].split(" ")[0]
        dist[k] = dist.get(k, 0) + 1
    samples = [{"case": x["case"][:400], "impl": x["impl"][:300], "model": x["model"][:300], "spec_verdict": x["verdict"]}
               for x in recs[:: max(1, len(recs) // 6)][:6]]
    samples += [{"obligation": t, "axioms": pr["assumptions"].get(t, [])} for t in pr["theorems"][:8]]
    ev = {
        "property_id": pid, "tier": tier, "seed": int(seed), "level": cfg.get("level", "proof"),
        "coverage": {
            "obligations": pr["obligations"], "discharged": pr["discharged"],
            "checker_cmd": pr.get("checker_cmd", ""),
            "trusted_base": cfg.get("trusted_base", []) + COMMON_TB,
            "theorems": pr["theorems"],
            "print_assumptions": {k: (v if v else ["Closed under the global context"]) for k, v in pr["assumptions"].items()},
            "evaluations": len(recs), "distinct_nontrivial": len(distinct),
            "rule": cfg.get("rule", "cases are generated by the harness from VERIF_SEED; non-trivial = distinct case line whose model result is a normal (ok) result"),
            "samples": samples,
            "case_distribution": dist,
            "disagreements_checked": len(corr_break),
            "spec_failures": len(spec_fails),
            "known_findings_replayed": sorted(known_seen.keys()),
            "broken_obligations": breaks,
            "search_rounds": max(0, rounds - 1),
            "explanation": cfg.get("explanation", ""),
            "exhaustive": False,
        },
        "assumptions": cfg.get("assumptions", []),
        "wall_s": round(time.time() - t0, 1),
        "violations": 1 if exit_code else 0,
    }
    json.dump(ev, open(os.path.join(EVID, "%s.json" % pid), "w"), indent=1)
    log.close()
    print("%s %s seed=%s: obligations %d/%d, cases %d (non-trivial distinct %d), disagreements %d, spec failures %d, known %d, %.0fs"
          % (pid, tier, seed, pr["discharged"], pr["obligations"], len(recs), len(distinct), len(corr_break), len(spec_fails), len(known_seen), time.time() - t0))
    return exit_code


COMMON_TB = [
    "Coq 8.16.1 kernel (coqc, full .vo build via coq_makefile; no native_compute)",
    "hand-written Gallina model of the anchored Rust code; tied to /repo/rust by the correspondence run of this check",
    "extraction: Require Extraction + ExtrOcamlBasic only (no Extract Constant / Extract Inductive of our own); OCaml 4.13.1 ocamlfind ocamlopt; zarith only for decimal I/O in the driver",
    "Rust harness crate /verif/harness (generators, canonicalisers) linked against /repo/rust working tree with --cfg csl_verif",
]


def replay(pid, cfg, path):
    log = sys.stderr
    if not build_driver(pid, cfg, log) or not build_harness(pid, cfg, log):
        print("cannot build driver/harness"); return 2
    recs, err = run_round(pid, cfg, os.path.join(RUN, pid, "replay"), 1, "quick", log, "run", path)
    if recs is None:
        print(err); return 2
    bad = 0
    for x in recs:
        print("case   %s %s\nimpl   %s\nmodel  %s\nspec   %s\nagree  %s\n" % (x["idx"], x["case"], x["impl"], x["model"], x["verdict"], agree(cfg, x)))
        if x["verdict"].startswith("fails") or not agree(cfg, x):
            bad = 1
    return bad
