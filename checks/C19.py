def _compare(rec):
    # model result = "<branch>/<provenance> <obs per operation …>"; implementation result = "<obs per operation …> tx=<ok|na|DIFF>"
    # exact equality of every per-operation observation (Ok/Err of the call, fields 13/16/17 of build(), fee);
    # tx=DIFF (build_tx produced other fields than build()) is a disagreement
    m = rec["model"].split(" ")
    i = rec["impl"].split(" ")
    if not i or not i[-1].startswith("tx=") or i[-1] == "tx=DIFF":
        return False
    return m[1:] == i[:-1]


def _nontrivial(rec):
    # a helper succeeded in the history and the final state is governed by it (or stale)
    head = rec["model"].split(" ")[0]
    return head.split("/")[0] in ("rt-ok", "tr-ok", "tr-noreturn", "p-ok", "p-noreturn") or head.endswith("/gov") or head.endswith("/stale")


# When /repo loses one of the two fixes (4639f73 stale return, 028a7f1 early failure of the percentage helper) the corpus
# witnesses w0/w1 and the generated cases disagree and fail again (no switch of Collateral.v needs to be touched: the
# legacy variants exist only for the refutation theorems).
CFG = {
    "level_text": "Coq proofs (closed under the global context) about the model of TransactionBuilder's collateral code: each of the three "
                  "entry points (explicit return -> total, explicit total -> return, percentage helper), from ANY prior builder state and for "
                  "arbitrary asset bundles, on success stores figures with  sum(collateral inputs) = return + total  on lovelace and on every "
                  "native asset, total pure lovelace, return >= its min ADA, total = floor(fee*pct/100)+1 >= ceil(fee*pct/100) for the helper; a "
                  "failed percentage helper leaves neither field set, a failed explicit helper changes nothing; an invariant over all histories "
                  "of the nine operations (including balancing in any position) carries this to the built body.  The one class in which the body "
                  "violates the equation (set_collateral after a helper: stale figures) is excluded as a decidable known class and refuted by a "
                  "witness; two further defects were repaired in /repo (legacy variants refuted).  The model is tied to the compiled code by an "
                  "exact differential run observing fields 13/16/17 of build() after every operation.",
    "level_note": "Trusted: Coq kernel; the hand-written model (tied by correspondence on the generated cases); min_ada_for_output is an oracle "
                  "(universally quantified function in the theorems; in the run a table of the library's own values); the balancing step inside "
                  "the percentage helper is an outcome carried by the operation (ok?, fee afterwards), universally quantified; extraction and the "
                  "OCaml/Rust glue. No axioms.",
    "level": "proof",
    "theorems": ["C19_return_then_total", "C19_return_then_total_complete", "C19_total_then_return", "C19_percentage",
                 "C19_failure_leaves_unset", "C19_history", "C19_balancing_keeps_fields", "C19_stale_refuted",
                 "C19_legacy_stale_return_refuted", "C19_legacy_early_failure_refuted",
                 "C19_judge_decides_spec", "C19_judge_accepts_model"],
    "allowed_axioms": [],
    "compare": _compare,
    "nontrivial": _nontrivial,
    "rule": "cases are histories of builder operations on a real TransactionBuilder: collateral sets of 0..5 UTxOs with and without native assets "
            "(also duplicate outpoints, empty-but-present multiassets, empty policies, zero quantities), return outputs derived from the inputs' sum with "
            "equal / fewer / less / more / foreign / no assets and coins around min ADA, around the sum, 0 and 64-bit edges, totals around sum, "
            "sum - min ADA, 0 and edges, percentages 0/1/100/150/edges/around 2^64/fee, fees from real balancing and fixed by set_fee up to 2^63, sums "
            "straddling 2^64 in coin and in an asset, random histories mixing all nine operations in every order; after every operation the "
            "implementation's Ok/Err and fields 13/16/17 of build() (and the fee) are compared exactly with the model, build_tx of the final state must "
            "carry the same fields; the Coq-extracted judge evaluates the C19 statement on the implementation's fields against the scenario's UTxO "
            "values; non-trivial = a helper succeeded / the final state is governed or stale",
    "trusted_base": [
        "min_ada_for_output (utils.rs MinOutputAdaCalculator) is not modelled here (property C07): universally quantified oracle in the theorems, "
        "table of the library's own results in the correspondence run",
        "the balancing call add_inputs_from_and_change inside the percentage helper is not modelled (properties C05/C08): its outcome (ok?, fee "
        "afterwards) is a universally quantified parameter of the operation; that it never writes fields 13/16/17 is checked by the run",
        "harness reads fields 13/16/17 from TransactionBody getters of build() / build_tx()",
    ],
    "assumptions": [
        "values are key-sorted maps (value_sorted): true of every Value built through the API (BTreeMap)",
        "known class excluded from C19_history: C19-stale-after-set-collateral (a helper computed return/total, then set_collateral replaced the "
        "collateral inputs and no helper ran since)",
        "plain setters (set_collateral_return, set_total_collateral, remove_*) after a helper are the caller's explicit override: outside the "
        "statement (provenance Free, verdict na)",
        "C19_return_then_total_complete needs value_normal of the inputs' sum (no zero quantity, no empty policy, not an empty-but-present "
        "multiasset): for such sums the code rejects although the equation could hold (conservative)",
    ],
    "explanation": "Theorems quantify over all builder states / histories, asset bundles, outputs, totals, percentages, fees and min-ADA functions; "
                   "the correspondence run ties the Gallina model to the compiled builder on seeded boundary-biased histories; the Coq-extracted judge "
                   "evaluates the equation, the min-ADA bound, the percentage bound and the failure clause on the implementation's body fields.",
    "gen_timeout": 900,
}
