def _norm(m):
    # the first token of the model line says how the scenario's min_fee answers were obtained (ok+concrete: all predicted
    # from the concrete size function of FeeConcrete.v; ok+measured / ok+calibrated: K measured on the builder / derived
    # from the first answer for a new input set; ok+concrete+measured: both; ok+nofee: no fee answer recorded)
    return "ok" + m[m.index(" "):] if m.startswith("ok+") and " " in m else m


def _compare(rec):
    return rec["impl"] == _norm(rec["model"])


def _nontrivial(rec):
    # non-trivial: the model ran the scenario (no desync), a change computation or a build succeeded, and the judge could
    # evaluate the ledger rule on a really signed transaction (verdict holds / fails)
    m = _norm(rec["model"])
    if not m.startswith("ok R "):
        return False
    if " desync" in m.split(" S ")[0]:
        return False
    return rec["verdict"] != "na"


CFG = {
    "level": "proof",
    "level_text": "Coq proofs (closed under the global context) about C05's executable model of add_change_if_needed / "
                  "add_inputs_from_and_change / build_tx instantiated with the fee model of FeeSuff/FeeModel.v (min_fee = a * |fake full tx| + b + "
                  "ex-unit fee + tiered reference-script fee, |tx| = K(st) + uint_size(fee) + array_head(#outputs) + sum out_size, for ARBITRARY K, "
                  "output base sizes, min-ADA / size-test / selection oracles): EVERY successful add_change whose fee was not fixed by the caller stores a fee "
                  "that covers the ledger minimum of the transaction it leaves (C06_sufficient, full strength, for the code as repaired in /repo 05eafef: "
                  "fee re-check at the end of the change paths); for the code before the repair the same holds under the decidable slack condition, and the two "
                  "ways in which it failed (top-up of the last change output past the 9-byte placeholder, a binding set_min_fee priced at its own width) are "
                  "refuted by witnesses that were replayed on the real code with really signed transactions (now fixed findings, regression corpus); "
                  "every fee policy is honoured in every branch; build_tx (as repaired in /repo 0fc161c) returns only bodies whose "
                  "fee covers the minimum and honours the request; sequential fee_for_output increments telescope. The model is tied to the compiled code by "
                  "an exact differential run in which EVERY min_fee answer of the real builder is recomputed by the model, and the judge evaluates the "
                  "ledger rule (C15's spec functions) on the size of transactions the harness really signs.",
    "level_note": "On the plain sub-class (key / Byron inputs, outputs; no other body field or witness kind) C06_sufficient_concrete / C06_validate_concrete have no oracle premise: fee >= a*|enc(signed tx)|+b with enc the C01 schema encoder. Elsewhere K is an opaque per-state constant. Trusted: Coq kernel; C05's hand-written change model and this property's fee model (tied by correspondence on the generated cases); "
                  "equality |fake_full_tx| = |really signed tx| is C18's theorem, re-measured here on every built transaction; extraction and glue. No axioms. "
                  "K, the ex-unit total and the reference-script bytes are per-scenario measurements / ground truth supplied by the harness.",
    "theorems": ["C06_sufficient", "C06_fix_split", "C06_legacy_sufficient", "C06_sufficient_refuted", "C06_notless_refuted", "C06_priced", "C06_split", "C06_policy", "C06_validate",
                 "C06_late_fee_request_legacy_refuted", "C06_select", "C06_telescope", "C06_telescope_closed", "C06_slack_widths", "C06_concrete_size", "C06_sufficient_concrete", "C06_validate_concrete"],
    "allowed_axioms": [],
    "compare": _compare,
    "nontrivial": _nontrivial,
    "gen_timeout": 900,
    "rule": "scenarios (C05's streams ada/tight/assets/pack/mix/sel/edge + width: change, fee and output coins at 2^16 / 2^32 +-3, fee requests around the "
            "estimate and the width boundaries, 22..25 outputs; late: set_fee / set_min_fee after the change computation) over key, Byron, native-script "
            "and Plutus inputs (ex-unit prices, reference scripts), collateral, certificates, withdrawals, mint, required signers, metadata; compared exactly: "
            "result of every operation, final fee, outputs, inputs, full_size() and the public min_fee(); every recorded min_fee answer is recomputed by the "
            "model (disagreement = desync): on the plain sub-class (key / Byron inputs and outputs only: first token ok+concrete, about 1 scenario in 9) from the "
            "CONCRETE size function of FeeConcrete.v (C07 full_tx_size, C18 witness counts) with nothing measured, elsewhere (ok+measured) from K measured on a "
            "clone of the builder before the operation, or (ok+calibrated) derived from the first answer for a new input set; the judge needs fee >= a*|signed tx| + b + ex-unit cost + tiered ref-script fee for every transaction build_tx "
            "returns and, when nothing was edited after a successful change computation, for the transaction build_tx_unsafe yields; "
            "non-trivial = distinct scenario that ran without desync and whose verdict is holds or fails",
    "trusted_base": [
        "Builder/Totals.v, Builder/Change.v, Builder/Scenario.v: C05's model of the balancing code (imported verbatim)",
        "harness ground truth: which keys must sign (scenario bookkeeping, one real Ed25519 key per distinct required key hash, one bootstrap witness per Byron "
        "address), execution units and reference-script bytes of the scenario's script inputs; K measured on a clone of the builder before each balancing operation",
        "Fees/TierSpec.v (C15): the ledger's linear fee, ceiling-priced execution units and tiered reference-script fee used by the judge",
    ],
    "assumptions": [
        "theorems speak about one add_change call (any state, any policy) and about add_inputs_from_and_change through C06_select; Plutus pre-checks and the "
        "reference/regular input intersection test of build_tx are not modelled (they only add failures)",
        "K, ex-unit fee and reference-script fee do not depend on outputs or fee (functions of the state with both erased)",
    ],
    "explanation": "C06_sufficient quantifies over all builder states, fee policies (other than a caller-fixed fee, which build_tx checks: C06_validate), linear fees, "
                   "size environments and oracles, with no further premise; no known class is left: any fee below the ledger minimum of a really signed transaction is a violation.",
}
