CFG = {
    "level_text": "Coq proofs (closed under the global context) that the model of fees.rs/rational.rs equals the ledger's "
                  "linear fee, ceiling-priced execution units and the tiered reference-script recursion for ALL sizes, prices and "
                  "units, with overflow = error; the model is tied to the compiled code by an exact differential run "
                  "(tier boundaries, width classes, degenerate fractions).",
    "level_note": "Trusted: Coq kernel; the hand-written model (tied by correspondence only on the generated cases); the "
                  "transcription of the ledger definitions into Fees/TierSpec.v; num-bigint as mathematical integers; extraction "
                  "(ExtrOcamlBasic) and the OCaml/Rust glue. No axioms.",
    "level": "proof",
    "theorems": ["C15_linear", "C15_ex_units_ceil", "C15_total_ex_units", "C15_tier_closed_form"],
    "allowed_axioms": [],
    "compare": "exact",
    "rule": "cases: linear fee / ex-unit cost / min_script_fee over a transaction's redeemers / tiered ref-script fee at "
            "every tier boundary +-2 and random sizes, prices incl. 0/x, non-reduced, huge and zero denominators; "
            "non-trivial = distinct case line whose model result is a number (ok), not an error",
    "trusted_base": [
        "spec transcription Fees/TierSpec.v (ledger tierRefScriptFee recursion, linear fee, ceiling of priced ex-units) over Coq's Q",
        "num-bigint / num-integer behave as mathematical integers with floor/ceil division (external crates)",
    ],
    "assumptions": [
        "usize is 64-bit (native harness target); sizes with >= 2^32 full tiers are outside C15_tier_closed_form (truncating `as u32` cast)",
        "UnitInterval denominators are positive in the theorems; zero denominators are compared model-vs-implementation only",
    ],
    "explanation": "Theorems quantify over all sizes, coefficients, prices and execution units; the correspondence run ties the "
                   "Gallina model of fees.rs/rational.rs to the compiled code on seeded boundary-biased cases.",
}
