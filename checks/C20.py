def _nontrivial(rec):
    # a case is non-trivial when the model produced a full observation in which at least one of the
    # deposit / implicit-input figures is a positive number (not an error, not zero)
    m = rec["model"]
    if not (m.startswith("ok ") or m.startswith("ovf ")):
        return False
    f = dict(x.split("=", 1) for x in m.split(" ")[1:] if "=" in x)
    return any(f.get(k, "0") not in ("0", "err", "-", "builderr") for k in ("hd", "hi", "bd", "bi"))


# When a fix of fixes/C20-*.patch is committed in /repo:
#   1. coq/Deposits/Deposits.v: set the matching switch to false
#        fixes/C20-pool-retirement-refund.patch      -> helper_refunds_pool_retirement := false
#        fixes/C20-deposit-ignores-proposals.patch   -> helper_ignores_proposals := false
#      (model, known-class predicate and judge all read the switch; every theorem of Props/C20.v is proved for both
#      values, the *_refuted theorems speak about the `_gen true` variants and stay valid);
#   2. known_findings.d/C20.json: status "known" -> "fixed" + "commit": <sha> for that entry; python3 gen_manifest.py;
#   3. nothing else: the corpus witnesses w0-w2 must then hold (verified in a scratch worktree for all four combinations).
CFG = {
    "level_text": "Coq proofs (closed under the global context) that the model of the stand-alone helpers (utils.rs get_deposit / "
                  "get_implicit_input) and of the builder figures (CertificatesBuilder deposit/refund tables, WithdrawalsBuilder and "
                  "VotingProposalBuilder totals, TransactionBuilder get_deposit / get_implicit_input / get_total_input / get_total_output) "
                  "equals the ledger's deposit/refund table over the 19 certificate kinds, for ALL certificate, withdrawal and proposal "
                  "lists and parameters, with totals >= 2^64 reported as errors and helper = builder; two probe-confirmed defects of the "
                  "helpers (both repaired in /repo) are kept as refuted statements with witnesses. Items carry identities (credential, pool "
                  "operator, other fields): the set / map types of body and builders are modelled (equal values merged or rejected, a reward "
                  "account's amount replaced) and proved to hold exactly the distinct items, so the figures are those of the merged items and "
                  "items that merely share a field are charged separately. The per-certificate table is proved equal to the Conway ledger's "
                  "STATEFUL accounting (registered pools / credentials / DReps, in-transaction registrations) under explicit premises, with a "
                  "closed counterexample for each premise; the builder totals are proved equal on lovelace to C05's multi-asset model. The "
                  "model is tied to the compiled code by an exact differential run on real Certificate / TransactionBody / builder values.",
    "level_note": "Trusted: Coq kernel; the hand-written model (tied by correspondence only on the generated cases); the transcription of the "
                  "ledger's deposit/refund rules into Deposits.v (ledger_deposit / ledger_refund, pinned by a Check in Props/C20.v) and of its "
                  "stateful accounting and deposit checks into LedgerState.v; extraction (ExtrOcamlBasic) and the OCaml/Rust glue. No axioms. "
                  "Pool registrations are counted as first registrations and legacy deregistrations refund the key_deposit parameter (the ledger "
                  "state is not available to the library): C20_ledger_state_rule states both as quantified premises over the ledger state.",
    "level": "proof",
    "theorems": ["C20_helper_deposit_spec", "C20_helper_implicit_input_spec", "C20_builder_deposit_spec", "C20_builder_refund_spec",
                 "C20_builder_totals_spec", "C20_helper_equals_builder", "C20_overflow_is_error", "C20_helpers_never_wrap",
                 "C20_order_irrelevant", "C20_helper_implicit_input_refuted", "C20_helper_deposit_refuted",
                 "C20_repaired_helpers_spec", "C20_judge_accepts_model",
                 "C20_collections_hold_distinct_items", "C20_withdrawals_last_amount_wins", "C20_shared_fields_do_not_merge",
                 "C20_identified_judge_accepts_model", "C20_positional_cases_unchanged",
                 "C20_network_is_part_of_account", "C20_history_is_overwritten",
                 "C20_ledger_state_rule", "C20_helpers_equal_ledger_state_rule", "C20_ledger_state_premises_needed",
                 "C20_totals_bridge_deposit_implicit", "C20_totals_bridge_ada_only", "C20_totals_bridge_lovelace"],
    "allowed_axioms": [],
    "compare": "exact",
    "nontrivial": _nontrivial,
    "rule": "cases: every certificate kind alone (19 kinds x amounts x key/script credential), absent/empty collections in all 27 combinations, "
            "random mixtures of certificates/withdrawals/proposals/inputs/outputs/donation with realistic and with edge-biased 64-bit amounts, "
            "deposit-side and refund-side totals split to sum to 2^64-2..2^64+2, balancing totals at the boundary, long sequences; items that share "
            "some identifying field and differ in another (one pool operator registered several times with other parameters / retired / delegated to; "
            "one stake credential registered through kinds 0, 7, 11, 12, 13 and deregistered through 1, 8 in one body; one DRep credential registered, "
            "updated, deregistered; proposals differing only in deposit or return address), exact duplicates (merged by the sets, rejected by "
            "CertificatesBuilder::add), near-duplicates differing in exactly one field, a reward account given two or three amounts (replacement in "
            "Withdrawals::insert and WithdrawalsBuilder::add), and totals of 2^64-2..2^64+2 where merging or keeping one item decides between a number "
            "and an overflow; proposals over all 14 shapes of governance action (the seven kinds x prior action id x policy hash; parameter changes that "
            "alter the deposit parameters themselves), led by every shape in turn and mixed in one body, return addresses on both networks with key and "
            "script credentials; script certificates / withdrawals / guarded proposals enter the builders through add_with_native_script and "
            "add_with_plutus_witness (inline script and reference input) alternately; pool parameters (margin, cost, relays, metadata, reward-account "
            "network), anchors, DRep choices, MIR pots vary with the identities, so a figure that depends on any of them disagrees; reward accounts "
            "drawn from a small pool of credentials x key/script x networks {0, 1, 5, 7, 15} (one credential on two networks = two accounts, kept by "
            "body map, builder and built body); histories of one to four earlier set_certs / set_certs_builder / remove_certs / set_withdrawals / "
            "set_withdrawals_builder / remove_withdrawals with stale collections on the SAME TransactionBuilder before the final setters (setters "
            "replace: nothing stale may be left in any figure); corpus totals of exactly 2^64-2, 2^64-1, 2^64 for every figure; every case is "
            "run through real Certificate/Withdrawals/VotingProposals values: helpers on a hand-made body, on its wire round trip and on the "
            "body built by TransactionBuilder, the three sub-builders, the transaction builder and the deprecated set_certs/set_withdrawals; "
            "the sizes of the six collections are compared with the model's merged sizes; "
            "non-trivial = distinct case line whose model observation has a positive deposit or implicit-input figure",
    "trusted_base": [
        "spec transcription Deposits/Deposits.v: ledger_deposit / ledger_refund over the Conway CDDL certificate numbers 0..18 (Conway ledger "
        "totalTxDeposits / refunds: key deposits, pool deposit on registration, DRep deposits, proposal deposits; stake and DRep deregistration refunds; "
        "pool retirement refunds nothing inside the transaction)",
        "spec transcription Deposits/LedgerState.v: shelleyTotalDepositsTxCerts / shelleyTotalRefundsTxCerts / conwayDRepRefundsTxCerts / "
        "conwayTotalDepositsTxCerts and the deposit checks of the DELEG / GOVCERT rules (cardano-ledger, Conway era), used only by C20_ledger_state_rule, "
        "C20_helpers_equal_ledger_state_rule, C20_ledger_state_premises_needed",
        "harness constructs each item from the identities of its case line (cred / pool / var) injectively in exactly the fields Ident.v lists for its "
        "kind (uses_cred / uses_pool / uses_var), so two items are equal Rust values iff their model keys are equal",
    ],
    "assumptions": [
        "pool registrations are counted as first registrations (a re-registration, or a second registration of one operator in the same "
        "transaction, pays no deposit in the ledger; only the ledger state can tell): premise pools_fresh of C20_ledger_state_rule, shown necessary "
        "by C20_ledger_state_premises_needed",
        "legacy stake_deregistration (certificate 1) refunds the key_deposit parameter given by the caller: premise legacy_at_key_deposit of "
        "C20_ledger_state_rule (the credential was registered at key_deposit), shown necessary by C20_ledger_state_premises_needed",
        "the stateful rule is stated for sequences that pass the ledger's own deposit checks (premise certs_valid: explicit deposit = parameter, explicit "
        "refund = recorded deposit, register only unregistered, deregister only registered); the per-certificate theorems have no such premise",
        "values are ADA-only (no multi-asset, no mint) in C20's own TransactionBuilder totals; C20_totals_bridge_* ties them to C05's multi-asset model "
        "with mint and burn (equal on ADA-only states, equal on lovelace for every well-formed state)",
        "the two former known classes (C20-pool-retirement-refund, C20-deposit-ignores-proposals) are fixed in /repo; their class predicates are "
        "constantly false and the *_refuted theorems keep the witnesses",
    ],
    "explanation": "Theorems quantify over all certificate/withdrawal/proposal lists and parameters (no range premises); the correspondence run ties "
                   "the Gallina model to the compiled helpers and builders on seeded boundary-biased cases built from real library values; the "
                   "Coq-extracted judge evaluates helper = ledger table = builder on the implementation's results.",
}
