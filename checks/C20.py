def _nontrivial(rec):
    # a case is non-trivial when the model produced a full observation in which at least one of the
    # deposit / implicit-input figures is a positive number (not an error, not zero)
    m = rec["model"]
    if not (m.startswith("ok ") or m.startswith("ovf ")):
        return False
    f = dict(x.split("=", 1) for x in m.split(" ")[1:] if "=" in x)
    return any(f.get(k, "0") not in ("0", "err", "-", "builderr") for k in ("hd", "hi", "bd", "bi"))


# When a fix of fixes/C20-*.patch is committed in /repo:
#   1. coq/Deposits/Deposits.v: set the matching switch to false
#        fixes/C20-pool-retirement-refund.patch      -> helper_refunds_pool_retirement := false
#        fixes/C20-deposit-ignores-proposals.patch   -> helper_ignores_proposals := false
#      (model, known-class predicate and judge all read the switch; every theorem of Props/C20.v is proved for both
#      values, the *_refuted theorems speak about the `_gen true` variants and stay valid);
#   2. known_findings.d/C20.json: status "known" -> "fixed" + "commit": <sha> for that entry; python3 gen_manifest.py;
#   3. nothing else: the corpus witnesses w0-w2 must then hold (verified in a scratch worktree for all four combinations).
CFG = {
    "level_text": "Coq proofs (closed under the global context) that the model of the stand-alone helpers (utils.rs get_deposit / "
                  "get_implicit_input) and of the builder figures (CertificatesBuilder deposit/refund tables, WithdrawalsBuilder and "
                  "VotingProposalBuilder totals, TransactionBuilder get_deposit / get_implicit_input / get_total_input / get_total_output) "
                  "equals the ledger's deposit/refund table over the 19 certificate kinds, for ALL certificate, withdrawal and proposal "
                  "lists and parameters, with totals >= 2^64 reported as errors and helper = builder; two probe-confirmed defects of the "
                  "helpers are excluded as decidable known classes and refuted by witnesses. The model is tied to the compiled code by an "
                  "exact differential run on real Certificate / TransactionBody / builder values.",
    "level_note": "Trusted: Coq kernel; the hand-written model (tied by correspondence only on the generated cases); the transcription of the "
                  "ledger's deposit/refund rules into Deposits.v (ledger_deposit / ledger_refund, pinned by a Check in Props/C20.v); "
                  "extraction (ExtrOcamlBasic) and the OCaml/Rust glue. No axioms. Pool registrations are counted as first registrations and "
                  "legacy deregistrations refund the key_deposit parameter (the ledger state is not available to the library).",
    "level": "proof",
    "theorems": ["C20_helper_deposit_spec", "C20_helper_implicit_input_spec", "C20_builder_deposit_spec", "C20_builder_refund_spec",
                 "C20_builder_totals_spec", "C20_helper_equals_builder", "C20_overflow_is_error", "C20_helpers_never_wrap",
                 "C20_order_irrelevant", "C20_helper_implicit_input_refuted", "C20_helper_deposit_refuted",
                 "C20_repaired_helpers_spec", "C20_judge_accepts_model"],
    "allowed_axioms": [],
    "compare": "exact",
    "nontrivial": _nontrivial,
    "rule": "cases: every certificate kind alone (19 kinds x amounts x key/script credential), absent/empty collections in all 27 combinations, "
            "random mixtures of certificates/withdrawals/proposals/inputs/outputs/donation with realistic and with edge-biased 64-bit amounts, "
            "deposit-side and refund-side totals split to sum to 2^64-2..2^64+2, balancing totals at the boundary, long sequences; every case is "
            "run through real Certificate/Withdrawals/VotingProposals values: helpers on a hand-made body, on its wire round trip and on the "
            "body built by TransactionBuilder, the three sub-builders, the transaction builder and the deprecated set_certs/set_withdrawals; "
            "non-trivial = distinct case line whose model observation has a positive deposit or implicit-input figure",
    "trusted_base": [
        "spec transcription Deposits/Deposits.v: ledger_deposit / ledger_refund over the Conway CDDL certificate numbers 0..18 (Conway ledger "
        "totalTxDeposits / refunds: key deposits, pool deposit on registration, DRep deposits, proposal deposits; stake and DRep deregistration refunds; "
        "pool retirement refunds nothing inside the transaction)",
        "harness constructs items that are pairwise distinct (salted credentials), so the sets / maps of the library do not merge them",
    ],
    "assumptions": [
        "pool registrations are counted as first registrations (a re-registration pays no deposit; only the ledger state can tell)",
        "legacy stake_deregistration (certificate 1) refunds the key_deposit parameter given by the caller",
        "values are ADA-only (no multi-asset, no mint) in the modelled TransactionBuilder totals",
        "known classes excluded from the helper theorems: C20-pool-retirement-refund (body retires a pool and pool_deposit <> 0), "
        "C20-deposit-ignores-proposals (body carries a proposal with non-zero deposit)",
    ],
    "explanation": "Theorems quantify over all certificate/withdrawal/proposal lists and parameters (no range premises); the correspondence run ties "
                   "the Gallina model to the compiled helpers and builders on seeded boundary-biased cases built from real library values; the "
                   "Coq-extracted judge evaluates helper = ledger table = builder on the implementation's results.",
}
