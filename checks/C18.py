def _nontrivial(rec):
    # non-trivial: the model produced a full observation in which somebody has to sign or a script is involved
    m = rec["model"]
    if not m.startswith("ok "):
        return False
    f = dict(x.split("=", 1) for x in m.split(" ")[1:] if "=" in x)
    return f.get("dss", "0") != "0" or any(f.get(k, "-") != "-" for k in ("ns", "ps", "red", "refs"))


CFG = {
    "level": "proof",
    "level_text": "Coq proofs (closed under the global context) about an executable model of count_needed_vkeys and its sources "
                  "(inputs, collateral, explicit signers, mint, withdrawals, certificates, votes, proposals), the bootstrap set, the combined "
                  "native / Plutus script collection with de-duplication, PlutusWitnesses::collect, get_reference_inputs and the witness set of "
                  "build_tx: for ALL histories of builder calls with arbitrary overlapping key hashes and repeated scripts, the count equals the "
                  "number of distinct keys the ledger's witsVKeyNeeded table (19 certificate kinds) plus the declared script signers require, "
                  "every script-locked item has its script exactly once (witness set or declared reference input), the reference inputs are "
                  "exactly the declared unspent ones, and the bytes reserved for mock signatures equal those of real ones (encodings depend on "
                  "lengths only). Four defects of the original code are refuted by witnesses and repaired in /repo; three narrow known classes "
                  "remain. The model is tied to the compiled code by an exact differential run in which the harness REALLY signs the transaction.",
    "level_note": "Trusted: Coq kernel; the hand-written model (tied by correspondence on the generated cases); the transcription of the ledger's "
                  "witsVKeyNeeded table and of the Babbage script-availability rule into WitnessSpec.v; the reading that signers declared on a script "
                  "source (native or Plutus) are keys that will sign; extraction and OCaml/Rust glue. No axioms.",
    "theorems": ["C18_signers_union", "C18_cert_table", "C18_scripts_once", "C18_refs_declared", "C18_size_exact",
                 "C18_fake_witness_sizes", "C18_judge_accepts_model", "C18_original_refuted", "C18_signers_union_refuted"],
    "allowed_axioms": [],
    "compare": "exact",
    "nontrivial": _nontrivial,
    "gen_timeout": 900,
    "rule": "cases: every certificate kind alone (19 kinds x key/script credential x overlap with an input key), random mixtures of key / Byron / "
            "native / Plutus inputs, collateral, certificates, withdrawals, votes, proposals, mints, explicit signers, explicit reference inputs and "
            "extra datums over small pools of keys, scripts, outpoints and datums (so that sources overlap and scripts/datums repeat), heavy-overlap "
            "streams (1-3 keys), outpoints added again with the same / another owner, scripts supplied inline and by reference, witnesses not matching "
            "the credential, 22..25 and 254..257 distinct signers (array header widths), Byron inputs and Byron collateral, vote/mint/proposal "
            "sources with declared signers, API calls the sub-builders reject. Every case is executed on the real builders; the built transaction is "
            "signed with one real Ed25519 key per required key hash and one Icarus bootstrap witness per Byron address, serialised, decoded again and "
            "every signature verified. Compared exactly: acceptance of every sub-builder call, full_size() - |unsigned tx|, |signed tx| - |unsigned tx|, "
            "the signing key set, the witnessed Byron addresses, native scripts / Plutus scripts / datums / redeemers of build_tx's witness set, body "
            "reference inputs, inputs, collateral, required signers (as sorted lists). Verdict = Coq-extracted judge (size clause 0 <= predicted - signed "
            "< 101, exactly-once availability with datum and redeemer) on the implementation's observation. non-trivial = distinct case line in which "
            "somebody signs or a script / redeemer / reference input is present",
    "trusted_base": [
        "spec transcription Witnesses/WitnessSpec.v: cert_witness_creds (Conway/Shelley witsVKeyNeeded per certificate kind 0..18: legacy stake "
        "registration and MIR need no key, reg_cert with deposit does, pool registration operator + owners, pool retirement operator, genesis "
        "delegation the genesis key, committee cold credential, DRep credential), key credentials of withdrawals and voters, payment keys of inputs and "
        "collateral, one bootstrap witness per Byron address, required_signers; Babbage UTXOW: needed scripts minus reference scripts = witness scripts",
        "signers declared on a script source (NativeScriptSource / PlutusScriptSource::set_required_signers; all key hashes of an inline native script when "
        "nothing is declared) are treated as keys that sign, symmetrically for the six sources",
        "harness: identifiers -> real values (Ed25519 keys from a seeded PRNG, Icarus Byron addresses, native scripts ScriptAll[pubkeys, timelock(id)], "
        "Plutus scripts by id with language id mod 3, outpoints ordered like their ids); sizes are measured on Transaction::to_bytes",
    ],
    "assumptions": [
        "an outpoint that is added again to a TxInputsBuilder is added with the same owner (else known class C18-input-readded-with-other-owner)",
        "collateral inputs are key- or Byron-locked for the exactly-once clause (script collateral is rejected by the ledger)",
        "the witness attached to a certificate / withdrawal / vote is for the script hash of the item's credential (builder does not check; otherwise verdict na)",
        "known classes excluded: C18-genesis-delegation-witness, C18-input-readded-with-other-owner, C18-script-inline-and-by-reference",
        "redeemer indices, script data hash, cost models and fees are out of scope (C10, C09, C06)",
    ],
    "explanation": "Theorems quantify over all histories of builder calls (lists of operations with arbitrary identifiers); the correspondence run ties the "
                   "Gallina model to the compiled builders on seeded cases with deliberately overlapping key hashes and repeated scripts, with real "
                   "signatures; the Coq-extracted judge evaluates the property's size inequality and exactly-once availability on the implementation's "
                   "transaction.",
}
