def _agree(rec):
    """One-sided comparison.  The model's prediction is one of
         ok <hex> / okj / err / panic   exact (hand-modelled decoders; schema decoder on canonical writer-form input)
         accept                         the implementation must accept (schema-valid value in another byte form)
         oke <hex>                      `ok <hex>` or `err` (the model stops before an external validity check)
         any                            no prediction (between the strict and the lenient model, or the entry point is observed only)
       A case whose verdict already fails is reported through the verdict, not as a disagreement."""
    m, i = rec["model"], rec["impl"]
    if str(rec.get("idx", "")).startswith("#"):
        return True          # comment line of a replay file (verif_lib.read_lines keeps it as a pseudo-case)
    if rec["verdict"].startswith("fails"):
        return True
    if m == "any" or m.startswith("skip"):
        return True
    if m == "accept":
        return i.startswith("ok")
    if m.startswith("oke "):
        return i == "err" or i == "ok " + m[4:]
    return i == m


def _nontrivial(rec):
    # distinct inputs on which the model commits to an outcome other than a plain error of the first head,
    # or which the implementation accepted (a re-serialisation was judged)
    m, i = rec["model"], rec["impl"]
    return m.startswith("ok") or m == "accept" or m == "panic" or i.startswith("ok")


CFG = {
    "level": "other",
    "driver_gen": True,
    "technique": "Coq 8.16 theorems about executable Gallina models in which every partial operation is an explicit Panic result "
                 "(totality, guard sufficiency, well-formed re-serialisation) + observation of the compiled code on a malformed-input "
                 "stream in child processes, judged by Coq-extracted code",
    "level_text": "PARTIAL BY NATURE: Coq cannot observe a Rust panic, abort or hang. What is proved (closed under the global context): "
                  "(a) the schema-directed decoder model of ~70 ledger types is total for EVERY schema and EVERY byte string (never Panic, "
                  "never out of fuel); (b) for the decoders that index / slice / unwrap / assert by hand (Address incl. pointer var-nats, "
                  "Byron address envelope + attributes, legacy output third element, bounded bytes, from_hex, hash from_bytes/from_bech32, "
                  "from_128_xprv, negative-integer writer, JSON number encoder, EMIP-3 container slicing, witness-array special check, native "
                  "script schema dispatch) a faithful model with explicit Panic results never panics on ANY input outside one narrow decidable "
                  "class (a string head declaring >= 2^31 bytes it does not have: allocation inside the cbor_event dependency), with the guards "
                  "as proof content, a refutation witness for every panic the code had before its repair, and a refinement theorem (with the real "
                  "allocator a decoder either behaves as the total one or panics in the allocation); (c) what the schema decoder returns for ANY "
                  "accepted input (< 2^60 bytes) - and every value of the writer image - re-serialises to one well-formed CBOR item as recognised "
                  "by the independent parser of Cbor/Item.v. "
                  "What is OBSERVED, not proved: the compiled library on every public parsing entry point (from_bytes of ~150 types, raw "
                  "hash/key/address bytes, from_hex, from_bech32, from_base58, from_json, JSON/metadata/Plutus converters, EMIP-3) over an "
                  "exhaustive short-input sweep and structure-aware mutations, each case in a child process so that panic, abort and "
                  "timeout are observations; every accepted input's re-serialisation is judged by the extracted item_wf; where a model "
                  "predicts the outcome the implementation must match it exactly.",
    "level_note": "Trusted: Coq kernel; the hand-written models as descriptions of the Rust code (tied by the correspondence run only on the "
                  "generated cases); extraction (ExtrOcamlBasic) and the OCaml/Rust glue; catch_unwind + child-process isolation as the observer "
                  "of panics/aborts/timeouts (10 s per case). The runtime clause of the property (no panic / abort / non-termination of the "
                  "compiled code on ALL inputs) is decided by observation on the explored inputs only - it is not a theorem. Not covered: wasm32 "
                  "targets (usize = 32 bits, JsError paths), recursion deeper than the generated nesting (256), allocation behaviour other "
                  "than on this machine, bech32/hex/serde_json/num-bigint internals (external crates, observed only). No axioms.",
    "theorems": ["C02_model_total", "C02_ledger_total", "C02_reserialise_wf", "C02_reserialise_full", "C02_reserialise_after_decode_wf", "C02_lenient_covers_strict", "C02_decoder_consumes",
                 "C02_address_total", "C02_byron_total", "C02_third_element_total", "C02_bounded_bytes_total", "C02_from_hex_total",
                 "C02_hash_total", "C02_xprv_total", "C02_nint_writer_total", "C02_json_number_total", "C02_emip3_total",
                 "C02_witness_special_total", "C02_native_script_schema_total", "C02_legacy_panics_refuted", "C02_huge_length_refuted",
                 "C02_only_allocation_panics", "C02_alloc_only_panic"],
    "allowed_axioms": [],
    "compare": _agree,
    "nontrivial": _nontrivial,
    "gen_timeout": 3000,
    "search_budget_s": 120,
    "rule": "model side: schema-walk generator of C01 emits valid encodings of ~70 types (+ every input of length <= 2 a schema decoder accepts); "
            "harness: per valid encoding truncation at every offset, bit flips in heads, head-width rewrites, declared-length rewrites "
            "(0, n-1, n+1, 2^16, 2^31-1, 2^31, 2^32-1, 2^32, 2^40, 2^63-1, 2^63, 2^64-2, 2^64-1), reserved additional info, major-type swaps, "
            "inserted break/null/undefined/tags/items, deleted/duplicated/replaced items, definite<->indefinite and chunked rewrites, "
            "duplicated map entries, nesting to depth 16 and 256 (arrays, indefinite arrays, tags, maps, tag 24), byte substitutions, sub-type "
            "and unrelated decoders on the same bytes; targeted shapes for every hand-modelled decoder (all 16 address header nibbles x "
            "boundary lengths, pointer var-nats, Byron envelope/crc/attributes, third element of legacy outputs, bounded-bytes chunkings, "
            "integer extremes, raw key/hash lengths, EMIP-3 container lengths); text keys of 1..200 bytes with multi-byte characters at every "
            "offset around 16/32/48/64 in every map structure, over-long values, text variants; EVERY returned error is formatted (Display, "
            "Debug, to_string, JsError conversion) inside the guarded call; malformed hex / bech32 (valid checksum with bad padding) / "
            "base58 / JSON text; sweep: every input of length <= 1 for every entry point, length 2 sampled (quick) or complete (thorough) - "
            "error results of the sweep are counted per decoder (`sweep` lines), everything else is an individual case; "
            "predictions: hand models exact; schema decoder (strict) exact on canonical writer-form input and `accept` on other valid "
            "input; lenient acceptor Total/Lax.v (every byte form the readers tolerate) and the generic well-formedness parser give "
            "`err` for what they refuse - about 83% of the individual cases carry an exact prediction; "
            "non-trivial = distinct case on which the model commits to a non-error outcome or the implementation accepted",
    "trusted_base": [
        "Total/Decoders.v: hand models of the Rust decoders listed in its header (model, not spec), incl. the cbor_event primitives they call",
        "Cbor/Item.v item_wf as the definition of well-formed CBOR (independent parser; its own theorems are in Cbor/ItemProofs.v)",
        "the harness observer: std::panic::catch_unwind, child worker processes (abort = worker died, timeout = no answer in 10 s)",
    ],
    "assumptions": [
        "usize is 64-bit; overflow checks are on (dev profile of the harness)",
        "known class C02-huge-declared-length excluded from the no-panic theorems of the decoders that read byte strings through cbor_event",
        "nesting depth of generated inputs <= 256 (deeper recursion is not explored)",
        "a case that does not answer within 10 s is counted as non-terminating",
    ],
    "explanation": "Totality and guard sufficiency are theorems about models with explicit Panic; the absence of panics in the compiled code is "
                   "observed per input in isolated child processes and judged by Coq-extracted code; the two are tied by exact comparison "
                   "wherever the model predicts an outcome.",
}
