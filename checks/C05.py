CFG = {
    "level": "proof",
    "level_text": "in progress",
    "level_note": "in progress",
    "theorems": [],
    "allowed_axioms": [],
    "compare": "exact",
    "rule": "in progress",
    "trusted_base": [],
    "assumptions": [],
    "explanation": "in progress",
}
