def _nontrivial(rec):
    # non-trivial: the first balancing operation of the scenario succeeded on the model (t / f) and, beyond input
    # validation, the transaction was built (the TX section is present)
    m = rec["model"]
    return m.startswith("ok ") and " TX ~" not in m and (" t " in m.split(" S ")[0] or " f " in m.split(" S ")[0])


CFG = {
    "level": "proof",
    "level_text": "Coq proofs (closed under the global context) over an executable model of the transaction builder's balancing code "
                  "(get_total_input/output and their parts, validate_balance, add_change_if_needed* with every branch: exact, burn / "
                  "do_not_burn_extra_change, single change output, pack_nfts_for_change multi-output packing, prefer_pure_change split, "
                  "top-up of the last output, fee policies Unspecified/NotLess/Exactly; add_inputs_from_and_change with its retry loop; "
                  "build_tx): whenever a balancing operation reports success the builder's body satisfies the ledger's consumed = produced "
                  "equation on lovelace and on every (policy, asset name), and every body released by build_tx does, for ALL builder states, "
                  "ALL operation histories in every order, and ANY size/fee arithmetic (sizes, min_fee, min-ADA and value-size tests are an "
                  "arbitrary stateful oracle in the theorems). The model is tied to the compiled code by an exact differential run in which "
                  "the oracle answers are the ones the implementation computed (hook H5), and the Coq-extracted judge evaluates the ledger "
                  "rule on the implementation's own transaction bytes, read by an independent Coq-extracted CBOR reader.",
    "level_note": "Trusted: Coq kernel; the hand-written model (tied by correspondence only on the generated scenarios); the transcription of the "
                  "ledger's UTXO rule (ledger_balanced, pinned by a Check in Props/C05.v) with the deposit/refund table of C20; the typing "
                  "premise oracle_u64 (fee / min-ADA answers are u64, selected UTxO values are well-formed), proved for the recorded-answer "
                  "oracle; state_wf (BTreeMap keys sorted, quantities < 2^64, mint quantities in -(2^64-1)..2^64-1) as the representation "
                  "invariant of builder states, preserved by every modelled operation (C05_histories starts from the empty builder); "
                  "extraction and the OCaml/Rust glue; the judge reads the built transaction's bytes with its own reader "
                  "(Builder/TxReader.v over the generic CBOR recogniser Cbor/Item.v), not with the library. Plutus witnesses, reference inputs, collateral and votes take no part in the balance and are not in the model "
                  "(governance proposals and certificates participate through their deposit / refund amounts only). No axioms.",
    "theorems": ["C05_accounting", "C05_change_balances", "C05_select_and_change", "C05_balance", "C05_failure_keeps_wf",
                 "C05_histories", "C05_history_change", "C05_order", "C05_judge_decides", "C05_recorded_oracle_ok",
                 "C05_mint_min_int_refuted", "C05_collateral_entry", "C05_collateral_is_c19", "C05_histories2",
                 "C05_history2_balancing", "C05_change_loop_terminates", "C05_recorded_oracle_answers", "C05_change_goes_to_change_address", "C05_normaliser_keeps_quantities", "C05_balanced_for_given_amounts"],
    "allowed_axioms": [],
    "compare": "exact",
    "nontrivial": _nontrivial,
    "gen_timeout": 1500,
    "search_budget_s": 10,
    "rule": "scenarios: UTxO tables of 1-40 UTxOs (amounts over all CBOR width classes and 64-bit edges, 0-30 assets over 1-6 policies, degenerate "
            "amounts in every layout - zero quantity before/after/between positive assets of one policy, zero-only policy, policy => {}, all-zero and "
            "empty multiasset - for spent, collateral and offered UTxOs, explicit certificate amounts of exactly 0, the same proposal added twice, asset "
            "bundles larger than max_value_size), requested outputs (plain / datum hash / inline datum / script ref, with and without "
            "assets), certificates of all 19 kinds with deposits and refunds, withdrawals, proposals, native-script mint and burn through "
            "MintBuilder (incl. the ends of the Int range), donation, current treasury value, set_fee / set_min_fee, prefer_pure_change and "
            "do_not_burn_extra_change, protocol parameters incl. zero prices and tiny max_value_size / max_tx_size, operations issued in "
            "random order, then add_change_if_needed(_with_datum) or add_inputs_from_and_change (4 strategies, scripted RNG, retry loop), "
            "or add_inputs_from_and_change_with_collateral_return (collateral set with set_collateral; percentages 0..2^64-1), also add_mint_asset_and_output(_min_required_coin), add_mint_asset, and the deprecated set_mint / set_certs / set_withdrawals (with script credentials to hit their rejections), sometimes a second change attempt or an edit after balancing, then build_tx; one third of the ADA-side scenarios are steered by "
            "a dry run to the exact / burn / just-enough boundaries. Compared exactly: result class of every operation, fee, outputs "
            "(address, datum/script kind, coin, every asset), inputs, collateral inputs / return / total, and the re-read transaction body (inputs, outputs, fee, certificates, "
            "withdrawals, mint, proposal deposits, donation). The case label carries how the first balancing operation went on the "
            "implementation (exact, burn, single, assets1, assetsN, assetsN+pure, err, panic) and the fee policy. non-trivial = distinct "
            "scenario whose balancing operation succeeded and whose transaction was built",
    "trusted_base": [
        "spec transcription Builder/Totals.v ledger_balanced: Conway UTXO rule consumed = produced (inputs + withdrawals + refunds + "
        "positive mint = outputs + fee + deposits + burn + donation) with C20's ledger_deposit / ledger_refund table; the judge's "
        "executable form is proved equivalent (C05_judge_decides)",
        "hook H5 (/repo rust/src/verif_oracle.rs, cfg csl_verif): records min_fee / calculate_ada / value-size / tx-size answers in call "
        "order and exposes the builder's inputs/outputs; the model consumes the record as its oracle, so fee and size arithmetic is not "
        "part of this check (C06 / C07 / C15)",
        "the coin selection of add_inputs_from_and_change enters as a recorded answer (which UTxOs add_inputs_from added, on a copy of the "
        "builder with the same scripted random draws); its own correctness is C08",
        "the judge reads tx.to_bytes() with Builder/TxReader.v (Cbor/Item.v parse_exact + map_lookup_uint, Conway CDDL body keys 0,1,2,4,5,9,20,22) "
        "and resolves inputs in the scenario's UTxO table and addresses in the harness's identifier tables; the library's own reading of "
        "the same bytes (Transaction::from_bytes, compared with the model) must agree with it field by field, else the verdict is a failure",
    ],
    "assumptions": [
        "oracle_u64: every fee / min-ADA answer is a u64 and the coin selection adds well-formed values (explicit premise of the theorems; "
        "proved for the recorded-answer oracle in C05_recorded_oracle_ok)",
        "state_wf of the builder state (representation invariant: sorted unique keys, u64 quantities, mint quantities above -2^64); "
        "C05_histories derives it for every state reachable from the empty builder",
        "pool registrations are counted as first registrations and legacy deregistrations refund the key_deposit parameter (as C20)",
        "certificates, withdrawals and proposals with script witnesses, Plutus inputs/mints, reference inputs, collateral and votes are "
        "not modelled: they take part in the balance only through their amounts",
    ],
    "explanation": "Theorems quantify over all states / histories / oracles (no range premises beyond well-formedness); the correspondence run "
                   "ties the Gallina model to the compiled builder on seeded boundary-biased scenarios with the implementation's own "
                   "oracle answers; the Coq-extracted judge evaluates consumed = produced on the implementation's transaction.",
}
