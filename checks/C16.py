def _nontrivial(rec):
    # non-trivial = the model produced a full observation (not an error) for a case that actually exercises de-duplication,
    # ordering or a build: at least one repeated element / more than one key / a build
    m = rec["model"]
    if not m.startswith("ok "):
        return False
    k = rec["case"].split(" ")[0]
    if k.startswith("set"):
        return "b=" in m and ("0" in m.split("b=")[1].split(" ")[0] or "items=-" not in m)
    return True


CFG = {
    "level": "proof",
    "level_text": "Coq proofs (closed under the global context) over ALL histories: the seven vector+index set types (TransactionInputs, "
                  "Ed25519KeyHashes, Credentials, Certificates, VotingProposals, Vkeywitnesses, BootstrapWitnesses) keep their vector duplicate-free "
                  "and in first-insertion order with the index in sync, through add / add_move / extend / from_vec, CBOR decoding of repeated elements "
                  "(every tag / length-form / break placement) and JSON; the AssetName and PolicyID orders are proved equal to the RFC 7049 canonical "
                  "(and RFC 8949 deterministic) order of the encoded keys, every reachable MultiAsset and MintBuilder mint is strictly ordered, holds "
                  "exactly what the history wrote and is independent of insertion order; typed witness-set setters and the builder's witness set write "
                  "each script / datum encoding once; get_reference_inputs is a function of the SET of its inputs (any iteration order). Two defects were "
                  "found, shown on the real code and repaired in /repo (hash-ordered reference inputs; a datum written twice). The run-time clause "
                  "'repeated builds give identical bytes' is decided by the correspondence run only (3 builds + rebuilt builder + second process per tx case).",
    "level_note": "Trusted: Coq kernel; the hand-written models (tied to the compiled code by the exact differential run); element codecs are abstracted "
                  "(an element is identified with its canonical CBOR bytes; C01 covers the codecs); Blake2b is not modelled (policy ids are supplied by the "
                  "harness); extraction (ExtrOcamlBasic) and the OCaml/Rust glue. No axioms.",
    "theorems": ["C16_nodup", "C16_first_insertion_order", "C16_add_reports_freshness", "C16_decode_with_repeats", "C16_json_with_repeats",
                 "C16_serialised_nodup", "C16_asset_order_is_canonical", "C16_policy_order_is_canonical", "C16_asset_order_is_deterministic",
                 "C16_bundle_canonical", "C16_order_independent", "C16_sorted_map_unique", "C16_decoded_bundle_ordered", "C16_mint_sorted",
                 "C16_mint_order_independent", "C16_witness_setters_emit_once", "C16_witness_setters_emit_once_refuted",
                 "C16_builder_witness_set_emits_once", "C16_reference_inputs_spec", "C16_reference_inputs_order_independent",
                 "C16_reference_inputs_hash_order_refuted", "C16_build_sets", "C16_build_order_independent", "C16_build_deterministic_model", "C16_judge_accepts_model"],
    "allowed_axioms": [],
    "compare": "exact",
    "nontrivial": _nontrivial,
    "gen_timeout": 1500,
    "rule": "cases: (set) each of the 7 collection types driven by every order of 1..3 (thorough: 1..5) distinct elements followed by a full round of repeats, "
            "plus random histories of add/contains over a pool with near-duplicates (elements differing in one field), started from new / from_bytes of a frame "
            "with 0-3 tags (258, wrong tag), definite (exact, too small, too large, non-minimal head) or indefinite length, repeated and non-canonically encoded "
            "elements (a set tag 258 dropped, an array/map made indefinite or a head widened anywhere inside the element, nested sets of composite elements included: pool registrations with owners, committee updates with members_to_remove), the same re-spelled elements handed to add/contains (decoded vs API-built provenance), undecodable elements, a null, with/without break / from_json with repeats / Ed25519KeyHashes::from(&NativeScripts); (ws) sequences of the "
            "typed setters with repeated native scripts, plutus scripts of 3 languages, datums with and without preserved (canonical and non-canonical) bytes, "
            "collections of every provenance (hand-built, cloned, decoded from tagged/untagged/indefinite bytes with repeats and extended by add, taken from another witness set's getter); (ma) MultiAsset via set_asset/insert, from_bytes of maps in arbitrary key order with repeated keys, "
            "from_json, names of length 0..32 around the head boundary 23/24, all orders of 3 (4) triples; (mint) MintBuilder add/set histories over native and Plutus policies (witness script / reference input) with interleaving policy ids, every order of mixed add_asset calls, amounts that "
            "cancel; (tx) TransactionBuilder scenarios with 0-8 explicit reference inputs, script-source reference inputs, overlapping regular inputs, both values "
            "of the dedup flag, required signers with repeats, collateral, native and Plutus mint policies, Plutus-script inputs / withdrawals / certificates with witness datums and redeemers (the same script or datum arriving from several items and as extra datum, constructed and decoded-from-bytes copies), withdrawals and certificates witnessed by several distinct inline native scripts (emitted script order compared with the model), repeated native scripts and extra datums; scripts and datums are read from the EMITTED witness-set bytes decoded again; each scenario built 3 times, rebuilt and built in "
            "a second process; non-trivial = distinct case whose model observation is a full (ok) observation",
    "trusted_base": [
        "element identity = canonical CBOR bytes of the element (harness computes it with the library's own element codec; C01 proves the codecs)",
        "policy ids (Blake2b-224 of the script) are computed by the harness and given to the model as data",
        "harness decodes the implementation's own witness-set output again to list the element encodings under each key",
    ],
    "assumptions": [
        "derived Eq/Hash/Ord of element types decide equality of values (contract of #[derive]); modelled as a decidable equality",
        "mint amounts within -2^63 .. 2^64-1 in the correspondence run (outside: C14)",
        "Vkeywitnesses / BootstrapWitnesses write tag 258 unless a FixedTransaction preserves an untagged original (not reachable from the collection's public constructors)",
        "run-time determinism of the compiled builder is observed (same process x3, rebuilt, second process), not proved",
    ],
    "explanation": "Theorems quantify over all histories / frames / insertion orders (no bounds); the correspondence run ties the Gallina models to the "
                   "compiled collections, bundles, MintBuilder, TransactionWitnessSet and TransactionBuilder on seeded cases built from real library values; "
                   "the Coq-extracted judges evaluate duplicate-freeness, first-insertion order, canonical key order, content and build determinism on the "
                   "implementation's results.",
}
