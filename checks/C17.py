import os
import verif_lib


def _nontrivial(rec):
    m = rec["model"]
    if rec["case"].startswith("ty "):
        return rec["impl"].startswith("ok ")
    return m.startswith("ok ") and " ; ok" in m


def _compare(rec):
    i, m = rec["impl"], rec["model"]
    if i.startswith("skip") or m.startswith("skip"):
        return True
    return i == m


def _custom(pid, cfg, tier, seed):
    # the typed-value stream reuses the C01 schema-walk generator: make sure its driver exists
    import checks_c01_loader  # noqa: F401  (placeholder, replaced below)


CFG = {
    "level": "proof",
    "driver_gen": True,
    "compare": _compare,
    "nontrivial": _nontrivial,
    "theorems": [],
    "allowed_axioms": [],
}
