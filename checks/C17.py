import os
import verif_lib


def _nontrivial(rec):
    # two-leg cases: both legs succeeded; typed observations: the value went through to_json/from_json
    if rec["case"].startswith("ty "):
        return rec["impl"].startswith("ok ")
    return rec["model"].startswith("ok ") and " ; ok" in rec["model"]


def _compare(rec):
    # `skip`: the harness could not build the case's value through the public API, or (typed stream) there is no
    # model of the serde derive expansion: the judge alone decides
    i, m = rec["impl"], rec["model"]
    if i.startswith("skip") or m.startswith("skip"):
        return True
    if rec["case"].startswith("tj "):
        # eq= is the library's own == between x and from_json(model JSON): it ignores remembered encodings, the model's
        # wire values do not; the judge reads it, the exact comparison is on the JSON tokens and the bytes
        i = i.replace(" eq=1", "").replace(" eq=0", "")
    return i == m


def _custom(pid, cfg, tier, seed):
    # the typed-value stream reuses the C01 schema-walk generator (ocaml/build/c01_driver gen): build it if needed
    os.makedirs(os.path.join(verif_lib.RUN, pid), exist_ok=True)
    with open(os.path.join(verif_lib.RUN, pid, "c01-driver-build.log"), "w") as log:
        ok = verif_lib.build_driver("C01", {"driver": "c01"}, log)
    if not ok:
        print("C17: the C01 schema-walk generator did not build; the typed-value observation stream is empty in this run")
    return verif_lib.check(pid, cfg, tier, seed)


CFG = {
    "level": "proof",
    "custom_check": _custom,
    "driver_gen": True,
    "compare": _compare,
    "nontrivial": _nontrivial,
    "gen_timeout": 1500,
    "theorems": [
        "C17_metadata_md_json_md_detailed", "C17_metadata_md_json_md_noconv", "C17_metadata_md_json_md_noconv_refuted",
        "C17_metadata_json_md_json", "C17_out_of_schema_is_error", "C17_in_schema_converts",
        "C17_plutus_detailed_roundtrip", "C17_plutus_detailed_roundtrip_refuted", "C17_plutus_out_of_schema_is_error",
        "C17_plutus_in_schema_converts", "C17_plutus_basic_out_of_schema_is_error", "C17_plutus_basic_in_schema_converts", "C17_chunks", "C17_chunks_valid_metadata", "C17_unchunk_rejects",
        "C17_serde_forms_roundtrip", "C17_serde_forms_canonical", "C17_serde_forms_total", "C17_old_behaviour_refuted",
        "C17_serde_read_write", "C17_serde_typed_roundtrip", "C17_serde_table_roundtrip", "C17_serde_annotations_wf", "C17_serde_address_leg", "C17_serde_vkey_leg",
    ],
    "allowed_axioms": [],
    "level_text": "Coq proofs (closed under the global context) about an executable model of metadata.rs / plutus_data.rs JSON conversions: "
                  "metadata -> JSON -> metadata is the identity under DetailedSchema for ALL metadata trees whenever the first conversion succeeds, "
                  "and under NoConversions outside the decidable known class `some map has keys not strictly ascending in serde_json's key order' "
                  "(refuted by a witness inside the class); JSON -> metadata -> JSON is the identity for all three schemas on explicitly defined "
                  "normal forms; the conversions are defined exactly on a declaratively specified input language per schema and return Err (never a "
                  "value, never a panic) outside it; every Plutus datum tree (arbitrary big integers, multi-valued map keys, every depth) round-trips "
                  "through DetailedSchema JSON outside the known class `a map key with an empty value list'; decode_arbitrary_bytes(encode_arbitrary_bytes bs) = bs "
                  "for ALL byte strings and the encoding is valid metadata; the hand-written serde string forms (BigNum/Int/BigInt decimal, hashes and "
                  "AssetName hex) round-trip in both directions. TYPED LEDGER VALUES (first sentence): the serde JSON form is modelled as an annotation "
                  "language over the C01 wire-value trees (records, optional-field records, externally tagged enums, sequences, tuples, maps written as "
                  "objects and read back in the Rust key order, nullables, re-packing isomorphisms, hand-written converters) with ONE generic proof by "
                  "induction on the annotation: of_json_s a (json_s a v) = Ok (norm_s a v) for every value in the annotation's domain, and norm_s a v = v "
                  "when map-typed parts were filled in ascending key order and the value is in default wire form (`canonical', decidable) - hence equal value "
                  "and the same CBOR bytes - instantiated on 60 annotated ledger types to every depth (inputs, credentials, DRep, anchor, relays, pool params, "
                  "all 19 certificate forms, assets, multi-asset, value, mint, withdrawals, voters, voting procedures, governance actions, proposals, "
                  "cost models, protocol parameter updates, update, native scripts, script refs, outputs, transaction body, redeemers, witness set, "
                  "auxiliary data, metadata, transaction, header (both eras), block). All models are tied to the compiled code by an exact differential "
                  "run: token-exact JSON in both directions and byte-exact CBOR of what from_json builds from the MODEL's JSON.",
    "level_note": "Typed clause: the annotations (Json/SerdeLedger.v) are model, tied to the Rust derives / impls by the `tj' stream (x.to_json() == json_s, "
                  "T::from_json(model JSON).to_bytes() == enc (of_json_s ..), on C01-generated values and on their normal forms); the premise `jwf' "
                  "(value in the annotation's domain; includes that the external bech32 strings round-trip on this value - no law about bech32 or "
                  "JSON text is assumed, both are parameters of the theorems) is evaluated by the extracted judge on every generated value and a "
                  "schema-valid value outside it is reported as a failure. NOT covered by the typed theorem (observation stream `ty' only): the stand-alone "
                  "legacy/map output schema names, types without to_json (TransactionMetadatum, PlutusData, PlutusList) and the ~60 further public types of "
                  "ledger_schemas_more (stand-alone certificate structs, relays, actions ...), which the harness does not dispatch. Known classes seen through "
                  "the typed model: Plutus V2/V3 script language lost (canonical = false), metadatum integer below -2^63 (to_json fails, jwf = false). "
                  "Trusted: Coq kernel; the hand-written model (tied by correspondence on the generated cases); serde_json text<->tree "
                  "(harness side, arbitrary_precision on, preserve_order off - both facts are part of the model); hex / num-bigint / Rust integer parsing rules "
                  "transcribed from the crates; the harness's placeholder exchange of bech32 strings and embedded JSON text; extraction and the OCaml/Rust glue. No axioms.",
    "rule": "generated per run: 1400 JSON documents for the three metadata schemas (in-schema, normal-form and mutated just outside: floats, -0, "
            "integers at i64::MIN / u64::MAX / beyond, 0x-hex strings with upper case / odd length / 64 and 65 bytes, numeric-looking keys with +, "
            "leading zeros, i128 extremes, wrong tags, entries with missing or extra keys, duplicate map keys), 900 metadata trees (non-string keys, "
            "sorted and unsorted text-key maps, ints over -2^64..2^64-1, 64-byte strings), 240 chunk-helper cases (lengths 0,1,63,64,65,127..193, random), "
            "500+500 Plutus detailed cases (multi-valued and empty-valued keys, 2^64 and 80-digit integers, constructor alternatives at every tag class), "
            "300 Plutus BasicConversions cases (UTF-8 / control-character edge byte strings), 300 serde string-form cases, 64 encodings per typed "
            "ledger type from the C01 schema walk: `ty' observation stream (all dispatched types) and `tj' exact stream (60 annotated types; each value and, "
            "when different, the value that comes back from its JSON); thorough = 50x (typed: 400 per type, tj on every second). Comparison: exact on both legs' token forms; "
            "non-trivial = distinct case whose two legs both succeed (typed: value went through to_json/from_json)",
    "trusted_base": [
        "serde_json (text <-> Value), hex, num-bigint, core integer parsing: external; their documented rules are transcribed into the model "
        "(Json/Decimal.v, Base/Hex.v, PlutusJson.v parse_bigint) and exercised by the correspondence run",
        "hashlink LinkedHashMap::insert / Entry::or_insert_with move an existing entry to the back (transcribed: lhm_insert, add_value)",
        "harness tokeniser for JSON text (via serde_json::Value), metadata and datum trees (via the public accessors); bech32 strings and embedded JSON text are exchanged as placeholders",
        "C01's schemas and decoder (Codec/Schema.v, Ledger/Schemas.v) give the wire-value trees the typed annotations are interpreted over",
    ],
    "assumptions": [
        "known classes excluded from the round-trip theorems: C17-noconv-unsorted-map (metadata map whose keys are not strictly ascending in byte "
        "order, NoConversions), C17-plutus-map-empty-values (PlutusMap key inserted with an empty PlutusMapValues)",
        "md_wf / pd_wf / json_wf are representation invariants (distinct keys of a LinkedHashMap, 64-byte limit of new_bytes/new_text, "
        "u64 constructor alternatives, sorted duplicate-free serde_json objects), not restrictions of the inputs",
        "the typed-value clause is a theorem for the 60 annotated types under the explicit premises wfj / jwf / canonical; for the remaining types it is an observation (see level_note)",
        "build features as shipped: arbitrary-precision-json on; debug build (overflow checks on)",
    ],
    "explanation": "Theorems quantify over all trees / documents / byte strings (structural and size inductions); the correspondence run ties the Gallina "
                   "model to the compiled code on seeded boundary-biased cases and the Coq-extracted judge evaluates the property's statement "
                   "(normal form => identity, out of schema => Err, datum / metadata round trips, known classes) on the implementation's results.",
}
