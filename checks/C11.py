def _nontrivial(rec):
    # non-trivial = the model produced an address (strict or embedded parse succeeded with a non-malformed address, or a
    # value was written and read back) or a Base58 text that decodes
    m = rec["model"].split(" ")[0]
    return m not in ("err/mal", "err/err", "err", "panic/panic")


CFG = {
    "level": "proof",
    "level_text": "Coq proofs (closed under the global context, no premises about external code: the bech32 crate 0.7.3 is modelled and its round-trip law proved) about an executable model of "
                  "Address::to_bytes / from_bytes_internal_impl (strict and lenient) / accessors / to_bech32 prefix selection, "
                  "variable_nat_encode/decode, the Byron CBOR-in-CBOR codec with CRC-32 (incl. the cbor_event reader primitives it uses) "
                  "and the Base58 digit-array algorithm: round trips for ALL addresses with network id < 16, all u64 pointer fields, all "
                  "Byron attribute combinations and all non-empty byte strings (Base58); classification by header for all 256 header bytes "
                  "(finite sweep, bound in the statement) x all lengths (general lemmas); strict rejection of trailing bytes, truncations, "
                  "unterminated and overflowing var-nats, empty input; embedded decoding total and verbatim outside four narrow decidable "
                  "known classes, each refuted at full strength by a witness. The model is tied to the compiled code by an exact "
                  "differential run.",
    "level_note": "Trusted: Coq kernel; the hand-written model (tied by correspondence only on the generated cases) - now including "
                  "the model of the bech32 crate (coq/Addr/Bech32.v), so the former premise of C11_bech32 is a theorem; cbor_event's Deserializer is modelled "
                  "for the calls the Byron decoder makes (array/map/tag/unsigned_integer/bytes incl. chunked strings); allocation failure "
                  "for declared lengths between what the allocator grants and 2^63 is not modelled; extraction and the OCaml/Rust glue. "
                  "No axioms.",
    "theorems": ["C11_shelley_roundtrip", "C11_embedded_roundtrip", "C11_roundtrip_needs_network_below_16", "C11_classify",
                 "C11_classify_accessors", "C11_classify_written", "C11_header_table", "C11_strict_accepts_iff",
                 "C11_strict_rejects_trailing", "C11_strict_rejects_truncation", "C11_strict_rejects_truncation_byron",
                 "C11_parsed_wf", "C11_judge_accepts_model", "C11_judge_holds_on_written", "C11_strict_rejects_unterminated",
                 "C11_strict_rejects_overflow", "C11_strict_rejects_empty", "C11_varnat", "C11_varnat_canonical",
                 "C11_byron_roundtrip", "C11_byron_roundtrip_any_crc", "C11_crc_table_standard", "C11_base58",
                 "C11_base58_empty_refuted", "C11_byron_base58", "C11_bech32", "C11_bech32_default_total", "C11_bech32_any_codec",
                 "C11_bech32_codec_roundtrip", "C11_bech32_decode_encode", "C11_bech32_checksum_valid", "C11_bech32_polymod_linear",
                 "C11_bech32_base32_roundtrip", "C11_bech32_rejects_mixed_case", "C11_bech32_rejects_bad_char",
                 "C11_bech32_detects_one_wrong_symbol", "C11_bech32_detects_wrong_hrp_letter", "C11_embedded_total", "C11_embedded_total_refuted",
                 "C11_embedded_verbatim", "C11_embedded_verbatim_refuted", "C11_lenient_drops_trailing"],
    "allowed_axioms": [],
    "compare": "exact",
    "nontrivial": _nontrivial,
    "gen_timeout": 900,
    "rule": "cases: (dec) all 256 header bytes x total lengths 0..81 (thorough 0..120) with random hash bytes and var-nat shaped pointer "
            "payloads, every valid Shelley-era encoding with trailing bytes and truncated, pointer fields padded / unterminated / beyond "
            "u64 / exactly 2^64-1 and 2^64 / missing, 35 canonical and non-canonical / broken variants of Byron addresses (key order, "
            "repeated and unknown keys, wide heads, chunked strings, bad terminators, wrong CRC / tag / array lengths, bytes after the "
            "tuple and after the address, declared lengths beyond the input and >= 2^63), header 0x80..0x8f; each run through "
            "Address::from_bytes, the accessors, to_bytes and back, TransactionOutput::from_bytes (embedded) and its re-serialisation, "
            "ByronAddress::from_bytes and Withdrawals::from_bytes (RewardAddress); (enc) address values of every kind built through the "
            "API with networks 0..15 and above, key/script credentials, Rng::u64_edge pointer triples, Byron attribute combinations, "
            "default and arbitrary (valid and invalid) bech32 prefixes, Base58 for Byron; (b58/b58d) the Base58 codec on arbitrary bytes "
            "with 0..5 leading zeros, the empty string, arbitrary text (hook H11); (bech/bech5/bechd) the bech32 crate through the H12 "
            "pass-throughs: every data length 0..100 (thorough 0..300) x the prefixes the library uses and arbitrary / upper-case / refused "
            "ones (empty, mixed case, 84 characters, space, DEL, non-ASCII), arbitrary 5-bit symbols (padding rules of from_base32), 16 "
            "kinds of damaged texts (one wrong symbol, foreign character, upper-cased, mixed case, truncated, separator removed, wrong "
            "HRP letter, non-ASCII, inserted / swapped symbols, noise); for addresses the exact to_bech32 text is compared; (b58a) ByronAddress::is_valid / from_base58 / to_base58 on the Base58 text of "
            "Byron bytes that are canonical, followed by 1..3 extra bytes, truncated, non-canonical, prefixed with zero bytes, bit-flipped, "
            "random; (becha) Address::from_bech32 of the bech32 text of valid / trailing / truncated / empty / random payloads; from_hex "
            "in every dec case; non-trivial = distinct case whose model result holds a "
            "decoded (non-malformed) address or a decoded Base58 text",
    "trusted_base": [
        "bech32 0.7.3 is no longer trusted through a premise: coq/Addr/Bech32.v transcribes its encode / decode / check_hrp / polymod / ToBase32 / convert_bits (tables CHARSET, CHARSET_REV, GEN copied by script) and the run compares it with the crate (hook H12 pass-throughs, /repo bb0b0ab)",
        "cbor_event 2.4.0 Deserializer behaviour for array/map/tag/unsigned_integer/bytes as transcribed in coq/Addr/Byron.v (rd_len, rd_arg, rd_bytes, rd_chunks)",
        "the header table classify_header in coq/Addr/Shelley.v is the transcription of shelley.cddl's address header bits",
        "the harness builds canonical Byron bytes itself (the library has no constructor from parts) and describes Byron values through to_bytes / attributes() / byron_address_kind()",
        "hook H11 (cfg csl_verif, /repo d01ee3b): pass-throughs to the private base58::encode / decode",
    ],
    "assumptions": [
        "network ids 0..15 (the header has four bits; C11_roundtrip_needs_network_below_16 shows the premise is needed)",
        "hashes are 28 bytes; pointer fields are u64; Byron derivation paths shorter than 2^62 bytes, protocol magic a u32",
        "known classes excluded from C11_embedded_verbatim: C11-embedded-trailing-bytes, C11-embedded-padded-pointer, "
        "C11-embedded-noncanonical-byron; from C11_embedded_total: C11-huge-declared-length (cbor_event capacity overflow)",
        "the empty byte string does not round-trip through Base58 (C11_base58_empty_refuted); it is not a Byron address",
    ],
    "explanation": "Theorems quantify over all addresses / all byte strings (the only enumeration is the 256 header bytes, with the bound in "
                   "the statement); the correspondence run ties the Gallina model to the compiled library on seeded structured, boundary "
                   "and malformed inputs, exact comparison of every observation; the Coq-extracted judge evaluates strict acceptance = "
                   "header table + exact lengths, accessors = header bits and payload slices, round trips, embedded totality and verbatim "
                   "re-serialisation on the implementation's results.",
}
