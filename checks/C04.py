def _nontrivial(rec):
    # a loaded object on which model and implementation both produced a full observation
    return rec["model"].startswith("ok ") and rec["impl"].startswith("ok ")


def _agree(rec):
    i, m = rec["impl"], rec["model"]
    if m.startswith("skip"):
        # one-sided: the library validates the contents of the body / auxiliary data / native scripts / redeemers,
        # which the model reads as generic data items (the driver prints `skip impl-rejects*` only when the
        # implementation answered err where the model accepts), or `skip impl-accepts-illformed` when the library
        # accepts bytes that are not a well-formed CBOR transaction in the generic reading (fixed-arity readers
        # without a length check, C02's open finding) while the model rejects them
        return True
    return i == m


CFG = {
    "level": "proof",
    "driver_gen": True,
    "level_text": "Coq theorems (closed under the global context) over an executable model of FixedTransaction / FixedTxWitnessesSet / "
                  "PlutusData / FixedTransactionBody: for EVERY input the decoder accepts (non-minimal heads, indefinite lengths, chunked "
                  "strings, unsorted keys, untagged or doubly tagged sets, empty collections, trailing bytes are just bytes in the proofs) and "
                  "EVERY list of add-signature operations the emitted transaction is 84 ++ B ++ W' ++ V ++ A with B, A the exact input slices, "
                  "every witness-set field not touched is written back byte-identical to its input slice, W' is a well-formed definite map whose "
                  "length is the number of entries written, and transaction_hash = H(B) (= H(current body) after any operation incl. set_body); "
                  "a decoded Plutus datum re-encodes to exactly the consumed bytes and hash_plutus_data is H of them. Two probe-confirmed "
                  "defects (map length vs fields written; set_body keeping the old hash) were repaired in /repo; the models of the previous code "
                  "are refuted by witnesses. The model is tied to the compiled code by an exact differential run.",
    "level_note": "Trusted: Coq kernel; the hand-written model (tied by correspondence only on the generated cases); H, the signing functions and the "
                  "canonical datum writer are universally quantified parameters (no law used); extraction (ExtrOcamlBasic) and the OCaml/Rust glue; "
                  "the harness's own Blake2b-256 (self-tested against RFC 7693 vectors and the library). Body, auxiliary data, native-script and "
                  "redeemer ELEMENTS are delimited as one generic CBOR item (Cbor/Item.v): the library additionally validates their contents, so on "
                  "those the comparison is one-sided (library err / model ok is tolerated, never the converse).",
    "theorems": ["C04_slices", "C04_witness_field_slices", "C04_load_slices", "C04_body_aux_preserved", "C04_untouched_fields_verbatim",
                 "C04_witness_map_wf", "C04_fresh_signature_sets_wf", "C04_hash", "C04_sign_uses_hash", "C04_datum_bytes",
                 "C04_datum_hash_preimage", "C04_datum_bytes_nested", "C04_fixed_body", "C04_map_length_old_refuted",
                 "C04_drops_empty_scripts_old_refuted", "C04_set_body_hash_old_refuted", "C04_no_fuel_rejection",
                 "C04_block_bodies", "C04_block", "C04_versioned_block", "C04_block_no_fuel_rejection", "C04_block_hash_old_refuted",
                 "C04_witness_map_wf_after_ops", "C04_judge_accepts_model"],
    "allowed_axioms": [],
    "compare": _agree,
    "nontrivial": _nontrivial,
    "gen_timeout": 1500,
    "search_budget_s": 40,
    "rule": "the extracted model walks the C01 ledger schemas (TransactionBody, TransactionWitnessSet, AuxiliaryData, PlutusData, PlutusList) with a "
            "seeded PRNG, encodes the values canonically and re-prints them with an untrusted noisy CBOR printer (each head widened to any legal "
            "width, definite<->indefinite arrays/maps, chunked byte strings, shuffled map keys, set tags dropped or doubled, empty collections under "
            "present and absent witness keys, duplicate / unknown keys, outer array in 9 spellings incl. wrong declared lengths, 3-element form, "
            "trailing bytes), appends random operation lists (add_vkey_witness, add_bootstrap_witness, the three sign_and_add_* with real keys, "
            "set_body / set_witness_set / set_auxiliary_data / set_is_valid with valid, junk and trailing-byte arguments, repeated witnesses), a "
            "damaged copy of such transactions (truncate / delete / insert / structural byte / bit flip), the constructors new / "
            "new_with_auxiliary / new_from_body_bytes, FixedTransactionBody, noisy and damaged datums and datum lists, and ~160 hand-made frames; "
            "the harness completes the signing oracles, runs the library and reports raw_body, raw_auxiliary_data, raw_witness_set, to_bytes and "
            "the preimage of transaction_hash; exact comparison with the model except that a library rejection of an input the model accepts is "
            "tolerated; the Coq-extracted judge evaluates C04 on the implementation's observation using only the generic item reader; "
            "non-trivial = both sides produced a full observation",
    "trusted_base": [
        "Fixed/FixedTx.v spec_slices / judge: the executable reading of C04's statement (generic CBOR slicing of the input)",
        "harness/src/bin/c04.rs: Blake2b-256 implementation used to identify hash preimages (self-tested at start-up)",
        "signing oracle values in the case lines are produced by the library's own make_*_witness on blake2b256(claimed preimage)",
    ],
    "assumptions": [
        "usize is 64-bit; declared string lengths stay far below the allocation limits (huge declared lengths abort inside cbor_event: C02)",
        "nesting depth of generated data <= 3 + frame (theorems: every depth); deep nesting overflows the library's stack (C02)",
        "body / auxiliary data / native-script and redeemer elements are read as generic items by the model (refinement, one-sided comparison)",
    ],
    "explanation": "Suffix-returning readers make the byte-range capture exact; the operations are analysed by induction over the operation list "
                   "(fold_left) with the hash invariant and per-key frame lemmas; the correspondence run feeds noisy re-encodings of schema-valid "
                   "transactions and datums through both the extracted model and the library and compares every reported byte string.",
}
