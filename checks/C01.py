import json, os

def _api_distribution(pid, tier):
    """types x presence patterns x empties of stream (ii), measured from the run's api_stats.txt
    (one line per case: type, plan, #Some(empty) collections, #repeated inserts, #bytes, result)."""
    root = os.path.dirname(os.path.dirname(os.path.abspath(__file__)))
    path = os.path.join(root, "run", pid, tier, "gen", "api_stats.txt")
    d = {"types": 0, "cases": 0, "with_some_empty_collection": 0, "with_repeated_insert_or_duplicate_add": 0,
         "distinct_plans": 0, "per_type": {}, "empties_histogram": {}, "largest_bytes": 0}
    if not os.path.exists(path):
        return d
    plans = set()
    for line in open(path):
        t = line.split()
        if len(t) < 6:
            continue
        name, plan, emp, dup, nbytes, res = t[0], t[1], int(t[2]), int(t[3]), int(t[4]), t[5]
        pt = d["per_type"].setdefault(name, {"cases": 0, "plans": 0, "some_empty": 0, "repeats": 0, "not_ok": 0})
        pt["cases"] += 1; pt["some_empty"] += 1 if emp else 0; pt["repeats"] += 1 if dup else 0
        pt["not_ok"] += 0 if res == "ok" else 1
        if (name, plan) not in plans:
            plans.add((name, plan)); pt["plans"] += 1
        d["cases"] += 1
        d["with_some_empty_collection"] += 1 if emp else 0
        d["with_repeated_insert_or_duplicate_add"] += 1 if dup else 0
        k = str(min(emp, 9)); d["empties_histogram"][k] = d["empties_histogram"].get(k, 0) + 1
        d["largest_bytes"] = max(d["largest_bytes"], nbytes)
    d["types"] = len(d["per_type"]); d["distinct_plans"] = len(plans)
    return d

def _mut_distribution(pid, tier):
    """stream (iii): decode-then-mutate histories by type, operation and source form (0 as given, 1 set tags stripped,
    2 outer container indefinite), measured from the run's cases / impl files."""
    root = os.path.dirname(os.path.dirname(os.path.abspath(__file__)))
    d = {"histories": 0, "types": 0, "operations": 0, "by_source_form": {}, "skipped_source_not_decodable": 0,
         "with_model_field_check": 0, "per_type": {}}
    cp, ip = (os.path.join(root, "run", pid, tier, "gen", f) for f in ("cases.txt", "impl.txt"))
    if not (os.path.exists(cp) and os.path.exists(ip)):
        return d
    impl = {}
    for line in open(ip, errors="replace"):
        i, _, r = line.rstrip("\n").partition(" ")
        impl[i] = r
    ops = set()
    for line in open(cp, errors="replace"):
        t = line.split(" ")
        if len(t) < 7 or t[1] != "mut":
            continue
        r = impl.get(t[0], "")
        d["histories"] += 1
        d["by_source_form"][t[5]] = d["by_source_form"].get(t[5], 0) + 1
        pt = d["per_type"].setdefault(t[2], {"histories": 0, "ops": []})
        pt["histories"] += 1
        if t[3] not in pt["ops"]:
            pt["ops"].append(t[3])
        ops.add((t[2], t[3]))
        if r.startswith("skip"):
            d["skipped_source_not_decodable"] += 1
        if " f" in r and "=" in r:
            d["with_model_field_check"] += 1
    d["types"] = len(d["per_type"]); d["operations"] = len(ops)
    return d

# public types with to_bytes/from_bytes that have no schema (not covered by either stream)
UNMODELLED = ["FixedTxWitnessesSet, FixedTransactionBody, FixedTransactionBodies, FixedBlock, FixedVersionedBlock (original-bytes carriers: C04)",
              "Address / ByronAddress / Pointer (own byte format: C11; inside structures: byte-string carriers)",
              "hash, key and signature types (raw fixed-length bytes: C12; inside structures: fixed-size byte strings)"]

def _custom(pid, cfg, tier, seed):
    import verif_lib
    rc = verif_lib.check(pid, cfg, tier, seed)
    ev_path = os.path.join(verif_lib.EVID, "%s.json" % pid)
    try:
        ev = json.load(open(ev_path))
        ev["coverage"]["api_stream_distribution"] = _api_distribution(pid, tier)
        ev["coverage"]["mutation_stream_distribution"] = _mut_distribution(pid, tier)
        ev["coverage"]["unmodelled_types"] = UNMODELLED
        json.dump(ev, open(ev_path, "w"), indent=1)
    except Exception as e:          # evidence stays as written by the library
        print("note: api distribution not added to the evidence: %s" % e)
    return rc

def _nontrivial(rec):
    # distinct accepted encodings of more than a bare head (>= 8 bytes)
    return rec["model"].startswith("ok ") and len(rec["case"].split(" ")[-1]) >= 16

CFG = {
    "level": "proof",
    "driver_gen": True,
    "custom_check": _custom,
    "level_text": "One generic Coq theorem (closed under the global context): for EVERY well-formed schema and EVERY schema-valid value, "
                  "decoding the encoding (followed by arbitrary bytes) returns exactly that value and the rest, hence re-encoding is "
                  "identical; instantiated on the wire shapes of ~120 ledger types (transaction, body, outputs, value, 19 certificate "
                  "kinds, governance, parameter updates, witness set, native scripts / Plutus data / metadata unrolled to EVERY depth, "
                  "auxiliary data, header, block), whose well-formedness is proved for all depths. Hex entry points: unhex (hex bs) = bs. "
                  "The schemas are tied to the Rust (de)serializers by an exact differential run: schema-walk generated values "
                  "(every variant, presence subsets, width classes, empty/large collections) are encoded by the model and must be "
                  "decoded and re-encoded byte-identically by the library, with the library's own from_hex/to_hex/PartialEq identities checked. "
                  "Values built through the public API that no decoder returns (an optional collection present but empty) are covered by "
                  "C01_api_roundtrip: decoding yields the normalised value (such fields absent), which re-encodes to the same bytes, and the "
                  "normalisation is the identity on everything else; maps backed by a Vec (Mint, Redeemers, PlutusMap) may repeat keys. "
                  "Second differential stream in the other direction: ~125 types are built through constructors / setters / add / insert "
                  "(every presence subset, each optional collection absent / Some(empty) / non-empty, repeated and unsorted inserts, duplicate adds, "
                  "every new_* constructor), the library must decode its own bytes to an equal value and re-encode identically, and the model "
                  "decoder must accept exactly these bytes and re-encode them identically. Third stream, histories: decode (from every wire form) -> one setter / add / insert "
                  "-> encode -> decode, compared field by field through the public accessors and against the model. Decoding direction: sdec = the "
                  "wire-shape decoder followed by what the library does with container entries (sets drop repeats, BTreeMap maps sort and reject a "
                  "repeated key, LinkedHashMap maps reject it, Vec maps keep everything); C01_dec_sound: whatever sdec returns for ANY schema and input is in "
                  "the domain of the round-trip theorem, hence decode-encode-decode is the identity on decoded values; the library's own bytes are fed to sdec "
                  "on every run, and a fourth stream gives both sides encodings with repeated set items and unsorted / repeated map keys.",
    "level_note": "Trusted: Coq kernel; the schemas in Ledger/Schemas.v as a description of the Rust types (tied by correspondence on the "
                  "generated cases only); the model decoder is the Rust decoder restricted to writer-produced encodings (any head width, "
                  "writer key order, definite containers except Plutus lists/long byte strings; sdec is stricter than the library on repeated metadata-map keys and repeated witness-set scripts, see notes/design/C01.md); extraction (ExtrOcamlBasic) and the OCaml/Rust glue. "
                  "No axioms. Types without a schema (coverage.unmodelled_types in the evidence) are not covered; wasm JsError paths are not exercised.",
    "theorems": ["C01_schema_roundtrip", "C01_roundtrip", "C01_reencode", "C01_api_roundtrip", "C01_api_reencode",
                 "C01_norm_only_empties", "C01_dec_sound", "C01_decode_encode_idempotent", "C01_sdec_roundtrip", "C01_hex", "C01_loop_fuel"],
    "allowed_axioms": [],
    "compare": "exact",
    "nontrivial": _nontrivial,
    "gen_timeout": 1500,
    "rule": "stream (i): for each of the ~70 types the extracted model walks the schema with a seeded PRNG (sizes 0..8, every variant, "
            "optional-field subsets incl. none/all, integer width classes 0/23/24/255/256/65535/65536/2^32-1/2^32/2^63/2^64-1, collections of "
            "0/1/2/3/24/25 items, nesting depth <= 3, chunked byte strings at 64/65/128) and emits enc(v); the harness runs "
            "T::from_bytes/to_bytes/to_hex/from_hex/PartialEq; stream (ii): case `api <Type> <plan> <seed>` - the harness builds the value through "
            "the public API (plan = the top-level builder's decisions: per optional field absent/present, per optional collection "
            "absent/non-empty/Some(empty), variant index, fill pattern with repeats; enumerated exhaustively when <= 160 combinations, else every "
            "presence subset for <= 10 slots + all-absent/all-present/all-empty + one-hot + one-cold + random; seed = every nested choice), "
            "observes to_bytes / from_bytes / re-encoding / PartialEq / hex entry points; the Coq-extracted api_model_accepts decodes the "
            "library's bytes with the model and api_holds evaluates the round-trip statement (distribution in coverage.api_stream_distribution); "
            "stream (iii): case `mut <Type> <op> <seed> <form> <source hex>` - a value DECODED from some wire form (model-written encodings of every "
            "form a type has: legacy / map output, definite / indefinite lists, array / map redeemers, the three auxiliary-data formats, ...; the "
            "library's own bytes of API-built values; re-framed variants with set tags stripped or the outer container indefinite) is mutated by one "
            "setter / add / insert (35 types, 129 operations: set to another value, absent to present, present to empty, fresh and existing keys / items), "
            "encoded, decoded again and compared field by field through the accessors, each rendered by its own stand-alone serialisation; the model "
            "must accept the new bytes and find the setter's argument under the field's key (api_model_field); distribution in coverage.mutation_stream_distribution; "
            "stream (iv): case `rs <Type> <hex>` - a domain value de-canonicalised by the model side (set items repeated, sorted maps reversed / rotated, "
            "repeated keys) is decoded by the library and by sdec: same accept / reject, same re-encoding; "
            "non-trivial = distinct accepted encodings of >= 8 bytes",
    "trusted_base": [
        "Ledger/Schemas.v: wire shapes read from rust/src/serialization (model, not spec)",
        "writer_form (Ledger/Schemas.v): delimits the image of the writers where a constraint spans several fields (valid address bytes, "
        "map-form outputs need inline datum or script ref, Alonzo aux data writes key 2 whenever key 3/4) - used by the judge only, not by the theorems",
    ],
    "assumptions": [
        "usize is 64-bit; nesting depth of generated scripts/data/metadata <= 3 in the correspondence run (theorems: every depth)",
        "address bytes inside structures are valid Shelley addresses in generated cases (Byron / pointer / malformed carriers: see C11)",
    ],
    "explanation": "Generic round-trip theorem over a deep embedding of the cddl-codegen shapes + per-type schemas as data + exact differential run.",
}
