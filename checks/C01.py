def _nontrivial(rec):
    # distinct accepted encodings of more than a bare head (>= 8 bytes)
    return rec["model"].startswith("ok ") and len(rec["case"].split(" ")[-1]) >= 16

CFG = {
    "level": "proof",
    "driver_gen": True,
    "level_text": "One generic Coq theorem (closed under the global context): for EVERY well-formed schema and EVERY schema-valid value, "
                  "decoding the encoding (followed by arbitrary bytes) returns exactly that value and the rest, hence re-encoding is "
                  "identical; instantiated on the wire shapes of ~70 ledger types (transaction, body, outputs, value, 19 certificate "
                  "kinds, governance, parameter updates, witness set, native scripts / Plutus data / metadata unrolled to EVERY depth, "
                  "auxiliary data, header, block), whose well-formedness is proved for all depths. Hex entry points: unhex (hex bs) = bs. "
                  "The schemas are tied to the Rust (de)serializers by an exact differential run: schema-walk generated values "
                  "(every variant, presence subsets, width classes, empty/large collections) are encoded by the model and must be "
                  "decoded and re-encoded byte-identically by the library, with the library's own from_hex/to_hex/PartialEq identities checked.",
    "level_note": "Trusted: Coq kernel; the schemas in Ledger/Schemas.v as a description of the Rust types (tied by correspondence on the "
                  "generated cases only); the model decoder is the Rust decoder restricted to writer-produced encodings (any head width, "
                  "writer key order, definite containers except Plutus lists/long byte strings); extraction (ExtrOcamlBasic) and the OCaml/Rust glue. "
                  "No axioms. Types without a schema (listed in DESIGN.md) are not covered; wasm JsError paths are not exercised.",
    "theorems": ["C01_schema_roundtrip", "C01_roundtrip", "C01_reencode", "C01_hex", "C01_loop_fuel"],
    "allowed_axioms": [],
    "compare": "exact",
    "nontrivial": _nontrivial,
    "gen_timeout": 1500,
    "rule": "stream (i): for each of the ~70 types the extracted model walks the schema with a seeded PRNG (sizes 0..8, every variant, "
            "optional-field subsets incl. none/all, integer width classes 0/23/24/255/256/65535/65536/2^32-1/2^32/2^63/2^64-1, collections of "
            "0/1/2/3/24/25 items, nesting depth <= 3, chunked byte strings at 64/65/128) and emits enc(v); the harness runs "
            "T::from_bytes/to_bytes/to_hex/from_hex/PartialEq; stream (ii): values built through the public API by the harness; "
            "non-trivial = distinct accepted encodings of >= 8 bytes",
    "trusted_base": [
        "Ledger/Schemas.v: wire shapes read from rust/src/serialization (model, not spec)",
        "writer_form (Ledger/Schemas.v): delimits the image of the writers where a constraint spans several fields (valid address bytes, "
        "map-form outputs need inline datum or script ref, Alonzo aux data writes key 2 whenever key 3/4) - used by the judge only, not by the theorems",
    ],
    "assumptions": [
        "usize is 64-bit; nesting depth of generated scripts/data/metadata <= 3 in the correspondence run (theorems: every depth)",
        "address bytes inside structures are valid Shelley addresses in generated cases (Byron / pointer / malformed carriers: see C11)",
    ],
    "explanation": "Generic round-trip theorem over a deep embedding of the cddl-codegen shapes + per-type schemas as data + exact differential run.",
}
