def _agree(rec):
    # The greedy grouping is not re-implemented, so the end-to-end part of the "model result" is the judge's reading of the
    # implementation's transactions: it must describe the same outcome (ok + same number of transactions / err / panic).
    # The calculator tie (hook H2) is compared exactly: the model replays the primitive operations the implementation
    # applied to every proposal and must reproduce (a) every figure set_min_ada_for_tx computed (fee, estimated size,
    # per output total / min ADA / size), (b) the witness-set size after every add_utxo, and (c) for the denoted
    # transaction: real encoded size, fee, and per output coin : output size : value size -- which the harness measured
    # on the real transaction bytes.
    isec = rec["impl"].split(" | ")
    msec = rec["model"].split(" | ")
    i, m = isec[0].split(" "), msec[0].split(" ")
    if i[0] != m[0]:
        return False
    if i[0] != "ok":
        return True
    if not (len(i) > 1 and len(m) > 1 and i[1] == m[1]):
        return False
    if len(isec) != 6 or len(msec) != 4:
        return False
    # last section: canonical content of every transaction (sorted spent UTxO indices, fee, output coins); for UTxO sets
    # without assets the model (Batch/PureAda.v, nothing abstracted) predicts it, and success / failure, exactly
    predicted = msec[3].strip()
    if predicted.endswith(" full-model-skipped"):      # over the tier's work budget: content echoed, not predicted
        predicted = predicted[:-len(" full-model-skipped")]
    return (isec[1].strip() == msec[1].strip() and isec[3].strip() == msec[2].strip()
            and isec[4].strip() == predicted)


def _nontrivial(rec):
    m = rec["model"].split(" ")
    return m[0] == "ok" and len(m) > 1 and m[1] not in ("0",)


CFG = {
    "level_text": "Coq proofs (closed under the global context), no abstraction of the batcher left: (1) every formula of the arithmetic size "
                  "calculator (cbor_calculator.rs / assets_calculator.rs / witnesses_calculator.rs) equals the length of the real encoder output "
                  "(schema encoder tied to the Rust serializers by C01) for ALL counts and widths; the incrementally maintained intermediate value "
                  "size is the closed form the value-size test uses (C13_intermediate_link), an upper bound of the real value size with exact slack; "
                  "(2) the (cost,size) estimators are safe; (3) the COMPLETE batcher is modelled (Batch/AssetPath.v: prototype_append, make_candidate, "
                  "the intersections, add_assets_to_proposal_output, try_append_pure_ada_utxo, the build loop) with the HashSet iteration orders as an "
                  "explicit oracle, and for EVERY oracle: when it succeeds its transactions spend every supplied UTxO exactly once, each is balanced in "
                  "lovelace and every asset, pays fee >= a*|tx|+b for its real encoded size, respects max_tx_size / max_value_size and min ADA "
                  "(C13_full, by refinement C13_refinement to the abstract batch of accepted operation sequences, C13_finalise, C13_partition); "
                  "(4) every loop terminates (C13_terminates: never OutOfFuel, for every oracle); (5) the executable judge implies the Prop-level "
                  "statement. Six pre-repair defects are refuted by witnesses. The correspondence run feeds the iteration orders the implementation "
                  "actually took (hook H2) to the extracted model and compares success/failure and every transaction exactly, replays every proposal's "
                  "primitive operations reproducing all calculator figures and real sizes exactly, and evaluates the full statement on the real signed "
                  "transactions with the Coq-extracted judge.",
    "level_note": "Trusted: Coq kernel; hand-written models (tied to the compiled code by the exact correspondence run, on generated cases only); schema "
                  "encoder = Rust serializers (check C01); extraction + OCaml/Rust glue; the harness's signing (the judge re-checks body identity and "
                  "witness counts). Remaining gap to a full proof about the Rust code: model = code is established by differential runs, not by a "
                  "verified compiler; calc_utxo_output_overhead's overflow (coins_per_utxo_byte > 10^16) is not modelled. Five defects found by the "
                  "judge were repaired in /repo (known_findings.d/C13.json, status fixed).",
    "level": "proof",
    "theorems": ["C13_struct_size", "C13_value_size", "C13_output_size", "C13_witness_sizes", "C13_tx_size",
                 "C13_intermediate_value", "C13_estimators_safe", "C13_legacy_fee_bound_refuted", "C13_finalise",
                 "C13_denotation", "C13_partition", "C13_partition_legacy_refuted", "C13_finalise_without_check_refuted",
                 "C13_legacy_fee_estimate_refuted", "C13_judge_sound", "C13_fewer_signatures", "C13_batch_valid", "C13_pure_ada_full", "C13_full", "C13_refinement", "C13_terminates", "C13_intermediate_link",
                 "C13_topup_once_refuted", "C13_topup_loop_covers"],
    "allowed_axioms": [],
    "compare": _agree,
    "nontrivial": _nontrivial,
    "gen_timeout": 2400,
    "search_budget_s": 120,
    "rule": "cases `sa`: random UTxO layouts (pure ADA, many policies, many assets per policy, 0-32 byte names, dust, Byron / base / "
            "enterprise / pointer owners with shared and distinct keys, quantities at CBOR width boundaries, totals around 2^32) x parameter "
            "configurations (fee coefficients, coins_per_utxo_byte, small max_value_size to force splitting, small max_tx_size to force many "
            "batches) -> real create_send_all -> every returned transaction and its really signed form -> Coq-extracted judge of the full C13 "
            "statement; non-trivial = distinct case whose result is ok with at least one transaction",
    "trusted_base": [
        "Ledger rules transcribed in Batch/BatchSpec.v: value conservation per asset, fee >= a*size+b on the signed transaction, "
        "min ADA = coins_per_utxo_byte*(160+|output|), max value / transaction size, one vkey witness per distinct payment key hash and one "
        "bootstrap witness per distinct Byron address",
        "Ed25519 / Icarus bootstrap signing in the harness (external crates); the judge checks the signed transaction's body and witness counts, not the signatures",
        "sizes of outputs and values are those of the shortest-head re-encoding of the parsed items (Cbor/Item.v)",
    ],
    "assumptions": [
        "the supplied UTxOs are a set (distinct inputs); when create_send_all fails the property says nothing (verdict na)",
        "HashSet iteration orders are an oracle: theorems quantify over every oracle; the run uses the orders recorded by hook H2",
        "every supplied UTxO lists an asset at most once (utxos_ok: its multiasset is a map) and the totals are those UtxosStat computes (ctx_wf)",
        "quick tier: the full-model prediction is skipped (content echoed) for the ~1% of cases whose speculative work exceeds the budget",
        "usize is 64-bit; sizes do not wrap",
    ],
    "explanation": "Theorems quantify over all counts, widths, coins and groupings; the end-to-end run evaluates the whole statement on the "
                   "implementation's real output with a judge extracted from Coq and proved sound against the Prop-level statement.",
}
