def _compare(rec):
    # the implementation's observation ends with the serialised transaction (tx=…), which only the judge reads:
    # the model does not build transaction bodies; everything before it must be identical
    i = rec["impl"].split(" tx=")[0]
    return i == rec["model"]


def _nontrivial(rec):
    # a case is non-trivial when the model produced a hash (helper) or a built transaction carrying a script-data
    # hash or an auxiliary-data hash (builder)
    m = rec["model"]
    if not m.startswith("ok "):
        return False
    if " h=" in m:
        return True
    return " sdh=~" not in m or " auxh=~" not in m


# Switches of coq/ScriptData/ScriptData.v mirror the code: set_len_counts_duplicates / empty_datums_hashed are `false`
# since the fix commits 3483cdb / 7cdc5eb in /repo.  If one of the defects comes back, the correspondence breaks on the
# corpus witnesses w0..w3 and the judge reports fails:C09-set-bytes-length / fails:C09-empty-datums (status "fixed":
# nothing is suppressed, the check exits 1).
CFG = {
    "level_text": "[phase 3: also proved — the judge's slicing of the whole serialised transaction (outer array, body map with any other fields, witness "
                  "set) returns the model's hashes and fields (C09_tx_view_sound, C09_judge_accepts_model); auxiliary-data hash for every history of "
                  "set_auxiliary_data / set_metadata / add_metadatum / add_json_metadatum / remove, incl. values decoded from the three wire forms "
                  "(C09_aux_history, C09_aux_wire_reencode); the full witness set incl. native scripts, key and bootstrap witnesses; the languages in use "
                  "computed from the sub-builders' entries (joint with the C10 model: C09_entries_langs_model, C09_same_bytes_entries); additions-only "
                  "histories need no premise (C09_same_bytes_additive)] "
                  "Coq proofs (closed under the global context; Blake2b-256 a universally quantified function without any law, every "
                  "statement an equality of preimages) that (1) hash_script_data hashes the ledger's preimage — redeemer bytes as emitted or A0, "
                  "datum bytes as emitted or nothing, canonical language views of exactly the languages of the table — over the witness set "
                  "emitted for the same redeemers and datums, for ALL redeemers, datums and cost models; (2) language_views_encoding is the "
                  "ledger's map (PlutusV1 double-encoded key and indefinite-list-in-bytes value, V2/V3 plain) with keys in strictly increasing "
                  "canonical order of their encoded form, restricted to the languages in use; (3) for EVERY history of builder operations in "
                  "which calc_script_data_hash came after the last script item, the body's script_data_hash is the ledger's script-integrity "
                  "hash of the witness set build_tx emits (two collection paths, two serialisation paths, de-duplication by Ord class and by "
                  "written bytes, extra datums); (4) the auxiliary_data_hash is the hash of the auxiliary data as serialised in the transaction. "
                  "The model is tied to the compiled code by an exact differential run on real TransactionBuilder / hash_script_data values, "
                  "and the Coq-extracted judge recomputes both hashes (with a Coq-extracted Blake2b-256) from byte slices of the emitted transaction.",
    "level_note": "Trusted: Coq kernel; the hand-written model (tied by correspondence on the generated cases); the transcription of the "
                  "ledger's script-integrity / auxiliary-data hash definitions and language-view encoding into ScriptDataSpec.v / LangViews.v; "
                  "extraction (ExtrOcamlBasic) and the OCaml/Rust glue. No axioms. The judge's byte slicing of the serialised witness set is proved to return the model's structured fields when every "
                  "emitted field is a well-formed CBOR item (C09_slices_sound); the slicing of the outer transaction array and of the body map (any other body fields) is proved "
                  "too (C09_tx_view_sound, C09_judge_accepts_model); not proved (tested on every case): that the Gallina Blake2b-256 equals the library's. Sub-builder internals (redeemer tag/index assignment, ordering) are property C10: the model starts from the lists "
                  "the sub-builders' getters return. A hash computed BEFORE the last script item was added is outside the statement "
                  "(C09_stale_hash_not_detected shows build_tx does not notice); the helper with neither redeemers nor datums is outside the helper "
                  "statement (the ledger then has no script_data_hash); datums without redeemers are inside it (A0 | datums | A0 for any container form and table).",
    "level": "proof",
    "theorems": ["C09_preimage_spec", "C09_preimage_spec_gen", "C09_preimage_refuted_dup_length", "C09_preimage_refuted_empty_datums",
                 "C09_views_canonical", "C09_views_only_used", "C09_same_bytes", "C09_same_bytes_history", "C09_calc_preimage",
                 "C09_aux", "C09_stale_hash_not_detected", "C09_calc_noop_keeps_hash", "C09_wf_invariant",
                 "C09_slices_sound", "C09_same_bytes_history_bytes", "C09_same_bytes_additive", "C09_aux_history",
                 "C09_aux_format_flag", "C09_aux_wire_reencode", "C09_tx_view_sound", "C09_judge_accepts_model", "C09_preimage_spec_with", "C09_stale_lang_refuted", "C09_calc_preimage_gen", "C09_entries_langs_model", "C09_same_bytes_entries", "C09_noop_calc_refuted", "C09_same_bytes_gen"],
    "allowed_axioms": [],
    "compare": _compare,
    "nontrivial": _nontrivial,
    "rule": "helper cases: random byte-level PlutusData pools (non-minimal heads, chunked byte strings, bignums, nested lists/maps/constructors, "
            "values with and without preserved original bytes, repeated values, pairs of value-equal but differently encoded values) as redeemer data and datums; PlutusList built with add or decoded "
            "from definite / indefinite encodings with and without the set tag, with duplicates, empty, absent; redeemers in no / map / legacy "
            "array container form, 0..4 entries with repeated entries and edge-biased indices and ex units; cost-model tables over every subset "
            "of {V1,V2,V3} in shuffled insertion order with lengths 0..297 and costs over the whole CBOR int range. builder cases: real "
            "TxInputsBuilder / MintBuilder / CertificatesBuilder / WithdrawalsBuilder / VotingBuilder / VotingProposalBuilder with inline and "
            "reference scripts (V1-V3, repeated scripts, same bytes under two languages), witness / reference / absent datums, duplicated and "
            "extra datums, a collateral witness repeating a spend redeemer, set in every order, calc_script_data_hash with used + unused + missing "
            "languages, items added after calc, set/remove hash, re-calc, calc on an empty builder, missing collateral, auxiliary data in the three "
            "wire forms via set_auxiliary_data (constructed and decoded from bytes) / set_metadata / add_metadatum / add_json_metadatum* / remove, the same content "
            "re-set with the flipped format flag; replacement histories (calc, every Plutus-bearing sub-builder replaced by one without returned witnesses, calc again); native scripts per sub-builder; stale Plutus witnesses (input re-added as a key input); key / bootstrap witnesses in "
            "helper witness sets; balanced with add_change_if_needed and built with build_tx. "
            "non-trivial = distinct case line whose model result carries a hash",
    "trusted_base": [
        "spec transcription ScriptData/ScriptDataSpec.v + LangViews.v: ledger hashScriptIntegrity (redeemers ‖ datums ‖ language views over the bytes "
        "in the transaction, A0 for absent redeemers in Conway, nothing for absent datums, absent hash when all three are empty), getLanguageView / "
        "canonical LangDepView map (PlutusV1 quirks), auxiliary_data_hash = hash of the auxiliary data bytes in the transaction",
        "Blake2b-256 is uninterpreted in every theorem; the judge uses ScriptData/Blake2b.v (RFC 7693, Gallina), cross-checked against the library's "
        "cryptoxide implementation on every generated case",
        "the judge slices the serialised transaction with Cbor/Item.v skip_item (body fields 7 and 11, witness-set fields 4 and 5, fourth element)",
        "the harness rebuilds every sub-builder from the witness list in the case and rejects the case (stale-case) unless the getter returns that list",
    ],
    "assumptions": [
        "languages in use = declared languages of the script sources of the builder's Plutus witnesses (a reference script's language is what the caller declares)",
        "TransactionBuilder scenarios contain native scripts in every sub-builder that takes them; key / bootstrap witnesses appear only in the helper cases (get_witness_set never sets them)",
        "fees stay below 2^32 in builder scenarios (the 9-byte fee field is property C06)",
        "fixed classes (no longer excluded from anything while the switches are false): C09-set-bytes-length, C09-empty-datums, C09-stale-input-language, C09-noop-calc-keeps-hash",
        "in scope for the builder statements: the hash in the body was stored by calc_script_data_hash (or there is none); a hash installed with set_script_data_hash is na",
        "reachable C10 builder states have duplicate-free withdrawal keys (PointersProofs.wd_refine); native scripts are not in the C10 model (given per sub-builder)",
    ],
    "explanation": "Theorems quantify over all byte strings, identity classes, cost-model tables and operation histories; the correspondence run ties the "
                   "Gallina model to the compiled helper and builder on seeded cases built from real library values; the Coq-extracted judge evaluates "
                   "the property on the bytes of the emitted transaction.",
    "gen_timeout": 1500,
}
