def _nontrivial(rec):
    # a distinct case whose emitted bytes were judged (holds / fails) and are more than a bare head
    return rec["verdict"] != "na" and rec["impl"].startswith("ok ") and len(rec["impl"]) >= 3 + 16


def _compare(rec):
    # exact on the bytes; the model's head says by which route it reproduced them (`ok`: schema encoder, `ok-tree`:
    # independent reader only, see notes/design/C03.md)
    i, m = rec["impl"], rec["model"]
    if m.startswith("ok-tree "):
        return i == "ok " + m[len("ok-tree "):]
    return i == m


CFG = {
    "level": "proof",
    "driver_gen": True,
    "level_text": "Coq theorems (closed under the global context), each ONE induction over the schema language, for EVERY well-formed "
                  "schema and EVERY schema-valid value: the independent CBOR reader (Cbor/Item.v) parses the model encoder's output "
                  "into exactly the tree to_item s v; every head is shortest, maps are definite, arrays/byte strings are definite "
                  "except Plutus lists and bounded bytes > 64 (chunked in the exact 64-byte shape); every set site is tag 258 + definite "
                  "array of pairwise distinct items; the key/arity/tag tables of the implementation schemas equal those of the Conway "
                  "CDDL transcription (finite computation, every depth). The transcription (Cddl/ConwayCddl.v) is judged by a "
                  "validator over the generic CBOR tree that shares no code with the library, cbor_event or the schema codec. "
                  "Correspondence: the Coq-extracted judge cddl_ok_bytes is run on the bytes the compiled library emits for (i) values "
                  "decoded from schema-walk generated encodings, (ii) ~200 hand-written constructions through the typed API covering "
                  "every certificate kind, governance action, output shape, witness-set field and auxiliary-data form, (iii) whole "
                  "transactions built by the real TransactionBuilder (change, multi-assets, mint, certificates, withdrawals, "
                  "collateral, coin selection); the same bytes must equal the model encoder's re-encoding (exact).",
    "level_note": "Trusted: Coq kernel; Cddl/ConwayCddl.v as a transcription of the published Conway CDDL (sets in the tagged form the "
                  "library must emit; unit-interval side conditions from the CDDL comments); Ledger/Schemas.v as a description of the "
                  "Rust serializers (tied by the exact differential run only on generated cases); extraction and the OCaml/Rust glue. "
                  "No axioms. C03_conforms: every schema-valid typed value satisfying the decidable Conway constraints (conforms: "
                  "structure of schema vs rule along the value + leaf ranges) is emitted as bytes the validator accepts - one generic "
                  "proof. The value-INDEPENDENT form (refines s r) is kept as C03_full and is not provable for these schemas (lower "
                  "bounds are not expressible in the schema language).",
    "theorems": ["C03_wellformed", "C03_canonical", "C03_canonical_ledger", "C03_canonical_ledger_more", "C03_sets", "C03_set_site", "C03_tables", "C03_bytes_of_tree", "C03_fuel_monotone", "C03_conforms", "C03_conforms_conway", "C03_refines_sound", "C03_refines_pairs", "C03_mint_int64_refuted", "C03_praos_header_flat_refuted", "C03_conforms_partial", "C03_builder_no_zero_assets", "C03_add_change_no_zero_assets", "C03_builder_histories_no_zero_assets", "C03_builder_reachable_states", "C03_add_change_echo_fixed", "C03_stored_amounts_pos"],
    "allowed_axioms": [],
    "compare": _compare,
    "nontrivial": _nontrivial,
    "gen_timeout": 1500,
    "rule": "stream rt: per type 30 (thorough 300) schema-walk values biased to Conway-valid ones, model-encoded, decoded and re-emitted by "
            "the library; stream neg: CDDL-INVALID mutations of valid encodings (wrong/duplicate/missing key, arity, missing/wrong tag 258, "
            "duplicate set element, non-shortest head, indefinite map/array, zero asset quantity, empty policy, index 65536, chunked short "
            "strings, trailing/truncated bytes) which the validator must reject; stream api: hand-written typed-API constructions "
            "(label, sub-seed), incl. the bounds sub-stream: every bounded leaf (url/dns 128, metadata text/bytes 64, asset name 32, ipv4/6, "
            "uint .size 2/4/8, port, int64) through every validating constructor at bound-1/bound/bound+1 in BYTES with ASCII and 2/3/4-byte "
            "code points and at the integer boundaries (a refusing constructor gives `rejected`, whatever is accepted is judged), and the "
            "provenance sub-stream: collections decoded from every wire spelling the decoder accepts (tagged/untagged, definite/indefinite, "
            "wide heads, legacy/map outputs, array/map redeemers, the three aux-data forms) moved through typed constructors into every "
            "other container that takes the type; stream tx: TransactionBuilder scenarios; judge = extracted cddl_ok_bytes on the implementation's bytes; "
            "non-trivial = distinct judged case with >= 8 emitted bytes",
    "trusted_base": [
        "Cddl/ConwayCddl.v: transcription of the Conway-era CDDL (transaction, body keys 0..22, outputs, value/mint, certificates 0..18, "
        "governance, parameter update, witness set, native scripts, Plutus data, redeemers, auxiliary data, metadata, addresses as bytes)",
        "Cddl/Validator.v + Cbor/Item.v: the judge (independent CBOR reader + rule matcher), negative self-check on every run",
        "Ledger/Schemas.v: wire shapes read from rust/src/serialization (model, tied by correspondence)",
    ],
    "assumptions": [
        "values built through non-validating constructors that the CDDL rejects are outside the quantifier (labels nv_*: tx-input / "
        "gov-action index > 65535, zero asset quantity / empty policy via Assets::insert / MultiAsset::insert, UnitInterval with zero "
        "denominator or > 1, a repeated key in a Vec-backed map via the appenders Mint::insert / Redeemers::add / PlutusMapValues - "
        "duplicate map keys do not conform); pre-Conway items (body key 6, certificates 5/6, parameter-update "
        "keys 12-14) are not judged",
        "addresses in generated outputs are Shelley addresses (Byron carriers: C11); nesting depth of scripts/data/metadata <= 3 in the run "
        "(theorems: every depth)",
    ],
    "explanation": "Generic theorems over the schema language + CDDL transcription + independent validator extracted from Coq and run on "
                   "the implementation's bytes (catches symmetric encoder/decoder errors that round trips cannot see).",
}
