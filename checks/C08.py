def _nontrivial(rec):
    return rec["model"].startswith("ok ")

CFG = {
    "level": "proof",
    "level_text": "TODO",
    "level_note": "TODO",
    "theorems": [],
    "allowed_axioms": [],
    "compare": "exact",
    "nontrivial": _nontrivial,
    "rule": "TODO",
    "trusted_base": [],
    "assumptions": [],
    "explanation": "TODO",
    "gen_timeout": 1500,
}
