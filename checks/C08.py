import json
import os
import time


def _release_round(pid, cfg, tier, seed):
    """Second profile: the same harness built in release (overflow checks OFF, debug assertions OFF) runs the corpus and the same
    seeded cases; its observations are judged by the same extracted judge and compared exactly with the model.  Arithmetic that
    the dev profile turns into a panic wraps here (the former `2 * min` of the improvement phase)."""
    import glob
    import verif_lib as V
    os.makedirs(os.path.join(V.RUN, pid), exist_ok=True)
    log = open(os.path.join(V.RUN, pid, "%s-release.log" % tier), "w")
    with V.BuildLock("cargo"):
        rc, out = V.sh("timeout 3000 cargo build --offline --release --bin c08 2>&1", cwd=V.HARNESS, timeout=3100)
    log.write("== cargo build --release --bin c08 (rc=%d)\n%s\n" % (rc, out[-3000:]))
    if rc != 0:
        return ["the release-profile harness no longer builds against /repo/rust"], [], {}
    hx = os.path.join(V.HARNESS, "target", "release", "c08")
    dx = V.driver_exe(cfg, pid)
    env = dict(V.ENV); env["VERIF_SEED"] = str(seed); env["VERIF_TIER"] = tier
    known = {k["class"] for k in V.load_known() if k.get("property") == pid and k.get("status") == "known"}
    recs = []
    rounds = [("gen", None)] + [("run", cf) for cf in sorted(glob.glob(os.path.join(V.ROOT, "corpus", pid, "*.case")))]
    tmo = cfg.get("gen_timeout", 1500)
    for mode, cf in rounds:
        d = os.path.join(V.RUN, pid, tier, "release-" + (os.path.basename(cf) if cf else "gen"))
        os.makedirs(d, exist_ok=True)
        if mode == "gen":
            rc, out = V.sh("%s gen %s" % (hx, d), cwd=V.ROOT, timeout=tmo, env=env)
        else:
            V.sh("cp %s %s/cases.txt" % (cf, d))
            rc, out = V.sh("%s run %s/cases.txt %s/impl.txt" % (hx, d, d), cwd=V.ROOT, timeout=tmo, env=env)
        if rc != 0:
            return ["release harness exited with %d: %s" % (rc, out[-300:])], [], {}
        rc, out = V.sh("ulimit -s unlimited 2>/dev/null; %s %s/cases.txt %s/impl.txt > %s/model.txt" % (dx, d, d, d), cwd=V.ROOT, timeout=tmo, env=env)
        if rc != 0:
            return ["model driver exited with %d on the release observations" % rc], [], {}
        cases, order = V.read_lines(os.path.join(d, "cases.txt"))
        impl, _ = V.read_lines(os.path.join(d, "impl.txt"))
        model, _ = V.read_lines(os.path.join(d, "model.txt"))
        for idx in order:
            m, _, v = model.get(idx, "driver-missing\tna").partition("\t")
            recs.append({"idx": idx, "case": cases[idx], "impl": impl.get(idx, "harness-missing"), "model": m.strip(),
                         "verdict": v.strip() or "na", "src": "release:" + (os.path.basename(cf) if cf else "gen:%s" % seed)})
    bad = [r for r in recs if (r["verdict"].startswith("fails") and (r["verdict"].partition(":")[2] or "-") not in known)]
    dis = [r for r in recs if not V.agree(cfg, r)]
    log.write("release: %d cases, %d spec failures, %d disagreements\n" % (len(recs), len(bad), len(dis)))
    log.close()
    return [], bad + [r for r in dis if r not in bad], {"release_evaluations": len(recs), "release_spec_failures": len(bad), "release_disagreements": len(dis)}


def _fresh_library_build():
    """cargo keys its rebuilds on mtimes; when the `repo` symlink is pointed at another tree (or back) whose files are older, the
    harness would silently keep the previous library.  Remember which tree was compiled and clean the library crate when it changed."""
    import hashlib
    import verif_lib as V
    real = os.path.realpath(os.path.join(V.ROOT, "repo"))
    rc, head = V.sh("git -C %s rev-parse HEAD; git -C %s status --porcelain -- rust/src; git -C %s diff -- rust/src | sha256sum" % (real, real, real))
    stamp = real + "\n" + hashlib.sha256(head.encode()).hexdigest()
    path = os.path.join(V.HARNESS, "target", ".c08-library-stamp")
    old = open(path).read() if os.path.exists(path) else None
    if old is not None and old != stamp:
        with V.BuildLock("cargo"):
            V.sh("cargo clean --offline -p cardano-serialization-lib; cargo clean --offline --release -p cardano-serialization-lib", cwd=V.HARNESS)
    os.makedirs(os.path.dirname(path), exist_ok=True)
    open(path, "w").write(stamp)


def _custom_check(pid, cfg, tier, seed):
    import verif_lib as V
    t0 = time.time()
    _fresh_library_build()
    rc = V.check(pid, cfg, tier, seed)              # dev profile (overflow checks on): proofs + correspondence + evidence
    if os.environ.get("C08_SKIP_RELEASE"):        # (mutation runs: one profile is enough to see a catch)
        return rc
    breaks, bad, stats = _release_round(pid, cfg, tier, seed)
    evp = os.path.join(V.EVID, "%s.json" % pid)
    ev = json.load(open(evp))
    ev["coverage"].update(stats)
    ev["coverage"]["profiles"] = ["dev (overflow-checks, debug-assertions)", "release (no overflow checks)"]
    if breaks or bad:
        hdr = ["RELEASE PROFILE (overflow checks off): " + b for b in breaks]
        if bad:
            hdr.append("release-profile harness: property fails / model disagrees on %d cases (first ones below)" % len(bad))
        path = V.write_replay(pid, seed, "release-fail", bad[:5], hdr)
        if rc == 0:
            print("VIOLATION property=%s replay=%s%s" % (pid, path, "" if bad else " no-failing-input-found"))
        ev["violations"] = 1
        rc = 1
    ev["wall_s"] = round(time.time() - t0, 1)
    json.dump(ev, open(evp, "w"), indent=1)
    print("%s %s seed=%s release profile: cases %s, spec failures %s, disagreements %s"
          % (pid, tier, seed, stats.get("release_evaluations", 0), stats.get("release_spec_failures", "-"), stats.get("release_disagreements", "-")))
    return rc


def _nontrivial(rec):
    # non-trivial = the model ran a selection that added at least one input to the builder (success or not)
    m = rec["model"].split(" ")
    try:
        n_after = int(m[m.index("I") + 1])
        c = rec["case"].split(" ")
        n_pre = int(c[c.index("P") + 1])
    except (ValueError, IndexError):
        return False
    return n_after > n_pre


def _compare(rec):
    # the model's first token may carry evidence flags (+s +d +p: a legacy variant of the model behaves differently on
    # this case); everything else is compared exactly
    m = rec["model"].split(" ")
    m[0] = m[0].split("+")[0]
    return " ".join(m) == rec["impl"]


CFG = {
    "custom_check": _custom_check,
    "level": "proof",
    "level_text": "Coq proofs (closed under the global context) about an executable Gallina model of TransactionBuilder::add_inputs_from "
                  "(the four CIP-2 strategies, cip2_largest_first_by, cip2_random_improve_by phases 1-2 with the available / relevant / "
                  "associated index bookkeeping, the final insertion loop, the phase-3 fee top-up, the 'at least one input' pre-step, the "
                  "filter on offered UTxOs already present, the asset guard, the input map keyed by outpoint, and the fee functions under "
                  "every fee request): for ALL offered lists (repeated and already-present outpoints included), builder contents, strategies "
                  "and ALL sequences of random draws (explicit argument of the model = every RNG outcome), with min_fee / fee_for_input "
                  "arbitrary functions, success implies that the added inputs are distinct members of the offered list, the previous inputs "
                  "are unchanged and the actual inputs cover outputs + deposits + burn + donation + fee in lovelace and in EVERY asset (no "
                  "known class left); for the builder's own fee functions the fee covered is min_fee() of the resulting builder; "
                  "largest-first adds in non-increasing order, stops at the first covering prefix and reports insufficiency only when all "
                  "offered UTxOs do not suffice (or an asset it does not select for is uncovered). Seven probe-confirmed defects are refuted "
                  "by witnesses on single-fault variants of the model and repaired in /repo. The model is tied to the compiled code, in the "
                  "dev and in the release profile, by an exact differential run under the scripted RNG of hook H1.",
    "level_note": "Trusted: Coq kernel; the hand-written model (tied by correspondence on the generated cases only); min_fee is opaque "
                  "(theorems hold for arbitrary functions; the check feeds the model the answers of the real builder for exactly the builder "
                  "states the model visits and verifies on every entry that fee_for_input is the difference of two min_fee()); premises: the "
                  "builder's present inputs are a map (one entry per outpoint) and regular inputs, values well formed (sorted maps, quantities "
                  "< 2^64: what the public API builds); hook H1 (scripted gen_range) + extraction (ExtrOcamlBasic) + OCaml/Rust glue. No axioms.",
    "theorems": ["C08_sound", "C08_sound_min_fee", "C08_sound_fee_model", "C08_largest_first_order", "C08_largest_first_minimal", "C08_largest_first_complete", "C08_lfma_complete",
                 "C08_swap_bookkeeping_refuted", "C08_duplicate_outputs_refuted", "C08_prestep_fee_refuted",
                 "C08_improve_overflow_refuted", "C08_offered_overlap_refuted", "C08_burn_not_covered_refuted",
                 "C08_fee_placeholder_refuted", "C08_judge_sound"],
    "allowed_axioms": [],
    "compare": _compare,
    "nontrivial": _nontrivial,
    "gen_timeout": 1500,
    "search_budget_s": 200,
    "rule": "cases = (scenario, draw script): scenarios with 0-12 offered UTxOs (realistic / few distinct amounts / dust / 64-bit edge "
            "amounts, shared and distinct key addresses, occasional reward-address UTxO), 0-2 present inputs, 0-3 outputs with exact "
            "duplicates, multi-asset families (4 assets over 3 mint policies, Some(empty) multiassets), withdrawals, certificate deposit, "
            "donation, mint and burn, pre-step boundary family (implicit input = outputs + min_fee + delta, last UTxO worth about its fee), "
            "insufficient funds, repeated outpoints and offered UTxOs already in the builder, fee requests (set_min_fee around / below / above the initial minimum fee, set_fee); every scenario of a random strategy is run with "
            "several scripts (empty, short, long, edge values), plus ALL outcomes (depth-first enumeration of the draw tree through H1's "
            "draw log) of small scenarios (quick: 6 scenarios <= 5 UTxOs, thorough: 120 scenarios <= 6 UTxOs, capped per scenario); the "
            "result compared exactly = status (ok / err:insufficient / err:other / panic), the outpoints in the builder afterwards (also "
            "after a failure), get_explicit_input, min_fee() of the resulting builder, for LargestFirst the outpoint added last and min_fee() of the builder without it; every case runs in the dev and in the release profile; non-trivial = distinct case in which the model "
            "added at least one input",
    "trusted_base": [
        "oracle protocol: the harness asks the extracted model (c08_driver serve) which min_fee / fee_for_input entry it needs next and "
        "answers with the real builder's public min_fee() / fee_for_input() on the builder holding exactly those inputs; a wrong or missing "
        "entry can only produce a disagreement, never hide one",
        "hook H1 (rust/src/verif_hooks.rs, cfg csl_verif): gen_range(0..n) returns the next script element mod n, 0 when exhausted",
        "harness maps an abstract outpoint id to TransactionInput(hash = id||0x11.., index = id mod 4) and an address number to an "
        "enterprise key address; output keys (Ord-equality classes of TransactionOutput) are computed with the library's own Ord",
    ],
    "assumptions": [
        "the inputs already in the builder are a map (pre_distinct) of regular inputs; nothing is assumed about the offered list",
        "values are well formed (value_wf): strictly sorted asset maps, quantities < 2^64",
        "fee_additive (only C08_sound_min_fee; discharged for the builder's fee functions in C08_sound_fee_model and verified on every "
        "oracle entry of every case: fee_for_input(S, u) = min_fee(S + u) - min_fee(S))",
    ],
    "explanation": "The quantification over the list of draws in C08_sound is the quantification over every outcome of the thread RNG, which no "
                   "test run can give; the correspondence run ties the model to the compiled code on seeded scenarios x scripts through hook H1 "
                   "and enumerates every outcome for small scenarios; the Coq-extracted judge (C08_judge_sound) evaluates the three clauses on "
                   "what the implementation reports (outpoints, get_explicit_input, min_fee()).",
}
