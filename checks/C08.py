def _nontrivial(rec):
    # non-trivial = the model ran a selection that added at least one input to the builder (success or not)
    m = rec["model"].split(" ")
    try:
        n_after = int(m[m.index("I") + 1])
        c = rec["case"].split(" ")
        n_pre = int(c[c.index("P") + 1])
    except (ValueError, IndexError):
        return False
    return n_after > n_pre


def _compare(rec):
    # the model's first token may carry evidence flags (+s +d +p: a legacy variant of the model behaves differently on
    # this case); everything else is compared exactly
    m = rec["model"].split(" ")
    m[0] = m[0].split("+")[0]
    return " ".join(m) == rec["impl"]


CFG = {
    "level": "proof",
    "level_text": "Coq proofs (closed under the global context) about an executable Gallina model of TransactionBuilder::add_inputs_from "
                  "(the four CIP-2 strategies, cip2_largest_first_by, cip2_random_improve_by phases 1-2 with the available / relevant / "
                  "associated index bookkeeping, the final insertion loop, the phase-3 fee top-up, the 'at least one input' pre-step, the "
                  "input map keyed by outpoint): for ALL offered lists, builder contents, strategies and ALL sequences of random draws "
                  "(explicit argument of the model = every RNG outcome), with min_fee / fee_for_input arbitrary functions, success implies "
                  "that the added inputs are distinct members of the offered list, the previous inputs are unchanged and the actual inputs "
                  "cover outputs + deposits + donation + fee in lovelace and in every asset outside the known class C08-burn-not-covered; "
                  "largest-first adds in non-increasing order, stops at the first covering prefix and reports insufficiency only when all "
                  "offered UTxOs do not suffice. Three probe-confirmed defects (swap bookkeeping, duplicate outputs, pre-step fee) are refuted "
                  "by witnesses on the legacy variants of the model and repaired in /repo. The model is tied to the compiled code by an exact "
                  "differential run under the scripted RNG of hook H1.",
    "level_note": "Trusted: Coq kernel; the hand-written model (tied by correspondence on the generated cases only); min_fee / fee_for_input "
                  "are opaque: theorems hold for arbitrary functions, the check feeds the model the answers of the real builder (public API) "
                  "for exactly the builder states the model visits; C08_sound_min_fee assumes fee additivity (fee_for_input = difference of "
                  "two min_fee, its definition) as an explicit premise; premises: distinct outpoints in offered + present inputs, values well "
                  "formed (sorted maps, quantities < 2^64: what the public API builds); pre-existing inputs are regular (key / Byron) inputs; "
                  "hook H1 (scripted gen_range) + extraction (ExtrOcamlBasic) + OCaml/Rust glue. No axioms.",
    "theorems": ["C08_sound", "C08_sound_min_fee", "C08_largest_first_order", "C08_largest_first_minimal", "C08_largest_first_complete",
                 "C08_swap_bookkeeping_refuted", "C08_duplicate_outputs_refuted", "C08_prestep_fee_refuted",
                 "C08_burn_not_covered_refuted", "C08_judge_sound"],
    "allowed_axioms": [],
    "compare": _compare,
    "nontrivial": _nontrivial,
    "gen_timeout": 1500,
    "search_budget_s": 200,
    "rule": "cases = (scenario, draw script): scenarios with 0-12 offered UTxOs (realistic / few distinct amounts / dust / 64-bit edge "
            "amounts, shared and distinct key addresses, occasional reward-address UTxO), 0-2 present inputs, 0-3 outputs with exact "
            "duplicates, multi-asset families (4 assets over 3 mint policies, Some(empty) multiassets), withdrawals, certificate deposit, "
            "donation, mint and burn, pre-step boundary family (implicit input = outputs + min_fee + delta, last UTxO worth about its fee), "
            "insufficient funds, duplicate outpoints (outside the premises: verdict na); every scenario of a random strategy is run with "
            "several scripts (empty, short, long, edge values), plus ALL outcomes (depth-first enumeration of the draw tree through H1's "
            "draw log) of small scenarios (quick: 6 scenarios <= 5 UTxOs, thorough: 120 scenarios <= 6 UTxOs, capped per scenario); the "
            "result compared exactly = status (ok / err:insufficient / err:other / panic), the outpoints in the builder afterwards (also "
            "after a failure), get_explicit_input, min_fee() of the resulting builder; non-trivial = distinct case in which the model "
            "added at least one input",
    "trusted_base": [
        "oracle protocol: the harness asks the extracted model (c08_driver serve) which min_fee / fee_for_input entry it needs next and "
        "answers with the real builder's public min_fee() / fee_for_input() on the builder holding exactly those inputs; a wrong or missing "
        "entry can only produce a disagreement, never hide one",
        "hook H1 (rust/src/verif_hooks.rs, cfg csl_verif): gen_range(0..n) returns the next script element mod n, 0 when exhausted",
        "harness maps an abstract outpoint id to TransactionInput(hash = id||0x11.., index = id mod 4) and an address number to an "
        "enterprise key address; output keys (Ord-equality classes of TransactionOutput) are computed with the library's own Ord",
    ],
    "assumptions": [
        "offered outpoints are pairwise distinct and distinct from the inputs already in the builder (distinct_outpoints); an offered UTxO "
        "repeating a present outpoint is counted twice by the code (observation O1 in notes/design/C08.md), verdict na",
        "values are well formed (value_wf): strictly sorted asset maps, quantities < 2^64",
        "fee_additive (only C08_sound_min_fee): min_fee(builder + u) = min_fee(builder) + fee_for_input(builder, u); validated on every "
        "case through the comparison of min_fee() of the resulting builder",
        "known class excluded from the asset clause: C08-burn-not-covered (strategy <> LargestFirstMultiAsset and a positive burn)",
        "debug-profile arithmetic: `2 * min` / `3 * min` in phase 2 panic on u64 overflow (output >= 2^64/3 lovelace), modelled as Panicked",
    ],
    "explanation": "The quantification over the list of draws in C08_sound is the quantification over every outcome of the thread RNG, which no "
                   "test run can give; the correspondence run ties the model to the compiled code on seeded scenarios x scripts through hook H1 "
                   "and enumerates every outcome for small scenarios; the Coq-extracted judge (C08_judge_sound) evaluates the three clauses on "
                   "what the implementation reports (outpoints, get_explicit_input, min_fee()).",
}
