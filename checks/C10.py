def _nontrivial(rec):
    # a case is non-trivial when the built transaction carries at least one redeemer
    m = rec["model"]
    if not m.startswith("ok "):
        return False
    t = m.split(" ")
    try:
        return int(t[t.index("R") + 1]) > 0
    except (ValueError, IndexError):
        return False


# The model mirrors /repo after the repairs 2fef2d7 (WithdrawalsBuilder: ledger order), c263357 (VotingBuilder: ledger rank) and
# ae86092 (TxInputsBuilder: a Plutus witness is emitted only under the input's current script hash).
# If one is reverted, the corpus witnesses w0-w3 / w6 disagree model<->implementation AND the judge reports fails:- on them
# (the fixed entries of known_findings.d/C10.json suppress nothing).
CFG = {
    "level": "proof",
    "level_text": "Coq proofs (closed under the global context) that in the model of TxInputsBuilder / MintBuilder / CertificatesBuilder / "
                  "WithdrawalsBuilder / VotingBuilder / VotingProposalBuilder and of TransactionBuilder's witness collection, for ALL call "
                  "sequences (any items, any insertion order, repeated and rejected calls) every redeemer of the built transaction "
                  "designates, under the ledger's pointer rules read off the body, exactly the item the caller attached it to; no two "
                  "redeemers share (tag, index); only script-locked items carry one; every permutation of calls on distinct items gives "
                  "the same pointers. Two probe-confirmed defects are excluded as decidable known classes and refuted by witnesses, three "
                  "further defects were repaired in /repo (the pre-repair behaviour is refuted by witnesses). The model is tied to the "
                  "compiled code by an exact differential run through the real TransactionBuilder::build_tx, and the Coq-extracted judge "
                  "(proved sound w.r.t. the statement) evaluates the statement on the body and redeemers re-read from the serialised transaction.",
    "level_note": "Trusted: Coq kernel; the hand-written model (tied by correspondence only on the generated cases); the transcription of the "
                  "ledger's pointer rules and orders into Pointers/PointersSpec.v (TxIn order, policy order, RewardAccount = (network, "
                  "credential) with script hashes before key hashes, Voter = committee < DRep < pool then credential, certificate / proposal "
                  "sequences, which certificates take a script witness), pinned by Checks in Props/C10.v; std BTreeMap / hashlink "
                  "LinkedHashMap / slice::sort_by_key as sorted and insertion-ordered association lists; extraction (ExtrOcamlBasic) and the "
                  "OCaml/Rust glue. No axioms.",
    "theorems": ["C10_spend", "C10_mint", "C10_cert", "C10_reward", "C10_vote", "C10_propose", "C10_unique", "C10_only_script_items",
                 "C10_full", "C10_order_irrelevant", "C10_code_orders_are_ledger_orders", "C10_utxo_entry_points", "C10_judge_sound", "C10_judge_complete", "C10_judge_known_narrow", "C10_known_classes_on_calls",
                 "C10_unique_refuted_collateral", "C10_only_script_refuted_proposal",
                 "C10_reward_legacy_refuted", "C10_vote_legacy_refuted", "C10_stale_legacy_refuted"],
    "allowed_axioms": [],
    "compare": "exact",
    "nontrivial": _nontrivial,
    "rule": "cases are sequences of builder calls: per builder random item sets with random insertion order (hashes that differ in one "
            "early / middle / last byte, the same hash as key and as script credential, both networks, all voter kinds, output indices "
            "0..2^32-1, inline and reference script sources, all 19 certificate kinds, six governance-action kinds), ALL permutations of "
            "k pairwise distinct items (k <= 4 quick, <= 6 thorough) per builder, mixtures of all builders, re-added items (last / first "
            "call wins, duplicates rejected, wrong entry point rejected), value corners (withdrawals of exactly 0 lovelace before / between / "
            "after Plutus withdrawals, 1, 2^32 and random coins, zero deposits and refunds, zero-ada inputs, proposal deposit 0, mint amount 0, "
            "several assets per policy, burns taking back part or all of an asset = net quantity 0, set_asset), the three known classes, "
            "identical redeemers, missing collateral, "
            "long sequences; every case goes through real sub-builders, TransactionBuilder::calc_script_data_hash / add_change_if_needed / "
            "build_tx, the transaction is serialised and re-parsed, body items are read in wire order and redeemers from the witness set; "
            "each redeemer carries an integer marker in its data (and a wrong tag/index on input); comparison = exact equality of per-call "
            "success flags, body item lists and (tag, index, marker) lists; non-trivial = distinct case whose transaction has >= 1 redeemer",
    "trusted_base": [
        "spec transcription Pointers/PointersSpec.v: ledger pointer rules (spend -> sorted input set, mint -> sorted policy ids, cert / "
        "propose -> sequence position, reward -> withdrawals map sorted by RewardAccount, vote -> voting map sorted by Voter), the ledger's "
        "derived orders (Credential: ScriptHashObj < KeyHashObj; Network: Testnet < Mainnet; Voter: CommitteeVoter < DRepVoter < "
        "StakePoolVoter), and the table of certificates that take a script witness (source: notes/ledger-rules.md, cardano-ledger Conway)",
        "Rust std BTreeMap iteration = key order, hashlink LinkedHashMap insert / entry().or_insert = move to back, slice::sort_by_key on "
        "distinct keys = the sorted arrangement (external code, modelled as association-list functions)",
        "the harness derives every unmodelled field (credentials, pool parameters, anchors, amounts, governance action ids) injectively from "
        "the modelled key, and maps certificates / proposals read back from the body to case items through their serialised bytes",
    ],
    "assumptions": [
        "known classes excluded from C10_spend / C10_unique: C10-collateral-plutus (the collateral builder emits a Plutus redeemer); "
        "from the proposal part of C10_only_script_items: C10-proposal-redeemer-without-script",
        "scripts, datums, ex-units, withdrawal / deposit / input amounts and vote contents are not modelled (the harness varies them, zero "
        "included: they must not influence body items or pointers); mint quantities are modelled up to 'net quantity 0 = build error' "
        "(quantities outside the Int range and negative net quantities are not generated); ex-units are the "
        "same for all redeemers in the harness, so redeemer identity is (tag, index, data)",
        "proposals of one case differ only in (action variant, policy hash, deposit), so Rust's derived order on VotingProposal is the order "
        "on that triple; UpdateCommittee actions are not generated",
        "C10_order_irrelevant excludes cert redeemers: their index is the position in the certificate SEQUENCE, which follows insertion "
        "order by design (C10_cert proves it designates the certificate)",
    ],
    "explanation": "Theorems quantify over all call sequences (no bounds); refinement proofs relate the sorted / linked association lists of the "
                   "builders to finite maps item -> witness, and positions in key-sorted lists to ranks in the ledger's order; the correspondence "
                   "run ties the Gallina model to the compiled builders on seeded cases built through build_tx; the Coq-extracted judge "
                   "evaluates C10_statement on the implementation's serialised transaction.",
}
