def _nontrivial(rec):
    # a case is non-trivial when the built transaction carries at least one redeemer
    m = rec["model"]
    if not m.startswith("ok "):
        return False
    t = m.split(" ")
    try:
        return int(t[t.index("R") + 1]) > 0
    except (ValueError, IndexError):
        return False


CFG = {
    "level": "proof",
    "level_text": "placeholder",
    "level_note": "placeholder",
    "theorems": [],
    "allowed_axioms": [],
    "compare": "exact",
    "nontrivial": _nontrivial,
    "rule": "placeholder",
    "trusted_base": [],
    "assumptions": [],
    "explanation": "placeholder",
}
