def _nontrivial(rec):
    # non-trivial = distinct case line on which the model produced a normal result (not err / none / panic)
    return rec["model"].startswith("ok ")


import json
import os
import time


def _release_round(pid, cfg, tier, seed):
    """Second profile: the same harness built in release (overflow checks OFF, debug assertions OFF) runs the corpus and the
    same seeded cases; its observations are judged by the same extracted judge and compared exactly with the model.  Wrap-around /
    truncation that the dev profile turns into a panic can only show here.  Returns (violations, stats)."""
    import glob
    import verif_lib as V
    os.makedirs(os.path.join(V.RUN, pid), exist_ok=True)
    log = open(os.path.join(V.RUN, pid, "%s-release.log" % tier), "w")
    with V.BuildLock("cargo"):
        rc, out = V.sh("timeout 3000 cargo build --offline --release --bin c14 2>&1", cwd=V.HARNESS, timeout=3100)
    log.write("== cargo build --release --bin c14 (rc=%d)\n%s\n" % (rc, out[-3000:]))
    if rc != 0:
        return ["the release-profile harness no longer builds against /repo/rust"], [], {}
    hx = os.path.join(V.HARNESS, "target", "release", "c14")
    dx = V.driver_exe(cfg, pid)
    env = dict(V.ENV); env["VERIF_SEED"] = str(seed); env["VERIF_TIER"] = tier
    known = {k["class"] for k in V.load_known() if k.get("property") == pid and k.get("status") == "known"}
    recs = []
    rounds = [("gen", None)] + [("run", cf) for cf in sorted(glob.glob(os.path.join(V.ROOT, "corpus", pid, "*.case")))]
    for mode, cf in rounds:
        d = os.path.join(V.RUN, pid, tier, "release-" + (os.path.basename(cf) if cf else "gen"))
        os.makedirs(d, exist_ok=True)
        if mode == "gen":
            rc, out = V.sh("%s gen %s" % (hx, d), cwd=V.ROOT, timeout=1500, env=env)
        else:
            V.sh("cp %s %s/cases.txt" % (cf, d))
            rc, out = V.sh("%s run %s/cases.txt %s/impl.txt" % (hx, d, d), cwd=V.ROOT, timeout=1500, env=env)
        if rc != 0:
            return ["release harness exited with %d: %s" % (rc, out[-300:])], [], {}
        rc, out = V.sh("ulimit -s unlimited 2>/dev/null; %s %s/cases.txt %s/impl.txt > %s/model.txt" % (dx, d, d, d), cwd=V.ROOT, timeout=1500, env=env)
        if rc != 0:
            return ["model driver exited with %d on the release observations" % rc], [], {}
        cases, order = V.read_lines(os.path.join(d, "cases.txt"))
        impl, _ = V.read_lines(os.path.join(d, "impl.txt"))
        model, _ = V.read_lines(os.path.join(d, "model.txt"))
        for idx in order:
            m, _, v = model.get(idx, "driver-missing\tna").partition("\t")
            recs.append({"idx": idx, "case": cases[idx], "impl": impl.get(idx, "harness-missing"), "model": m.strip(),
                         "verdict": v.strip() or "na", "src": "release:" + (os.path.basename(cf) if cf else "gen:%s" % seed)})
    bad = [r for r in recs if (r["verdict"].startswith("fails") and (r["verdict"].partition(":")[2] or "-") not in known)]
    dis = [r for r in recs if not V.agree(cfg, r)]
    log.write("release: %d cases, %d spec failures, %d disagreements\n" % (len(recs), len(bad), len(dis)))
    log.close()
    return [], bad + [r for r in dis if r not in bad], {"release_evaluations": len(recs), "release_spec_failures": len(bad), "release_disagreements": len(dis)}


def _fresh_library_build():
    """cargo keys its rebuilds on mtimes; when the `repo` symlink is pointed at another tree (or back) whose files are older, the
    harness would silently keep the previous library.  Remember which tree was compiled and clean the library crate when it changed."""
    import hashlib
    import verif_lib as V
    real = os.path.realpath(os.path.join(V.ROOT, "repo"))
    rc, head = V.sh("git -C %s rev-parse HEAD; git -C %s status --porcelain -- rust/src" % (real, real))
    stamp = real + "\n" + hashlib.sha256(head.encode()).hexdigest()
    path = os.path.join(V.HARNESS, "target", ".c14-library-stamp")
    old = open(path).read() if os.path.exists(path) else None
    if old is not None and old != stamp:
        with V.BuildLock("cargo"):
            V.sh("cargo clean --offline -p cardano-serialization-lib; cargo clean --offline --release -p cardano-serialization-lib", cwd=V.HARNESS)
    os.makedirs(os.path.dirname(path), exist_ok=True)
    open(path, "w").write(stamp)


def _custom_check(pid, cfg, tier, seed):
    import verif_lib as V
    t0 = time.time()
    _fresh_library_build()
    rc = V.check(pid, cfg, tier, seed)              # dev profile (overflow checks on): proofs + correspondence + evidence
    breaks, bad, stats = _release_round(pid, cfg, tier, seed)
    evp = os.path.join(V.EVID, "%s.json" % pid)
    ev = json.load(open(evp))
    ev["coverage"].update(stats)
    ev["coverage"]["profiles"] = ["dev (overflow-checks, debug-assertions)", "release (no overflow checks)"]
    if breaks or bad:
        hdr = ["RELEASE PROFILE (overflow checks off): " + b for b in breaks]
        if bad:
            hdr.append("release-profile harness: property fails / model disagrees on %d cases (first ones below)" % len(bad))
        path = V.write_replay(pid, seed, "release-fail", bad[:5], hdr)
        if rc == 0:       # the dev-profile stage has not already reported a violation
            print("VIOLATION property=%s replay=%s%s" % (pid, path, "" if bad else " no-failing-input-found"))
        ev["violations"] = 1
        rc = 1
    ev["wall_s"] = round(time.time() - t0, 1)
    json.dump(ev, open(evp, "w"), indent=1)
    print("%s %s seed=%s release profile: cases %s, spec failures %s, disagreements %s"
          % (pid, tier, seed, stats.get("release_evaluations", 0), stats.get("release_spec_failures", "-"), stats.get("release_disagreements", "-")))
    return rc


# Switches that follow /repo (all in coq/Num/IntRange.v / Value.v; the *_legacy / *_gen variants keep the old behaviour
# for the refutation theorems):
#   json_min_fixed   := true   /repo eac05aa (C17)  metadata encode_number uses unsigned_abs
#   meta_key_checked := true   /repo 4362d12 (C17)  BasicConversions key is an Int only inside -(2^64-1)..2^64-1
#   int_from_str, int_serialize, bigint_serialize, mint_step, value_checked_sub mirror a6f00b9, 07262c5, 3669e5e+0175f0b, 34fa344.
CFG = {
    "level": "proof",
    "level_text": "Coq proofs (all closed under the global context) over hand-written executable models of BigNum, Int, BigInt and "
                  "Value/MultiAsset/Assets: the u64 checked operations equal 'exact result in Z or explicit error' for all operands; every Int "
                  "obtainable through the modelled public API (constructors, from_str/serde, CBOR decoding, BigInt::as_int, metadata JSON numbers "
                  "and BasicConversions keys, MintBuilder histories of any length by induction) lies in -2^64..2^64-1; Int and BigInt survive CBOR "
                  "(BigInt for integers of ANY size: uint/nint/tag 2/tag 3 with 64-byte chunking, by induction on the chunk list) and decimal text "
                  "(u64, i128, arbitrary size); Value::checked_add / checked_sub are exact per component or an explicit error and fail only on a "
                  "genuine over/underflow, addition is commutative and associative, subtraction undoes addition, partial_cmp/compare/<,<=,>,>= equal "
                  "the component-wise order, all under semantic equality (missing asset = 0) for arbitrary bundles. Behaviour before the six repairs "
                  "is refuted by witnesses. The models are tied to the compiled code by an exact differential run with a Coq-extracted judge.",
    "level_note": "Trusted: Coq kernel; the hand-written models (tied to /repo only on the generated cases, dev profile = overflow checks on); "
                  "extraction (ExtrOcamlBasic) and the OCaml/Rust glue; cbor_event's head reader/writer and num_bigint's to_bytes_be/from_bytes_be/"
                  "to_u64_digits/from_str/to_string are modelled (Cbor/Head.v, Num/Decimal.v, Num/BigIntCbor.v), not verified. No axioms. "
                  "Value theorems assume value_wf (sorted keys, quantities < 2^64), which BTreeMap and u64 guarantee for every value the API can build. "
                  "Two known findings remain: division by zero panics (BigNum::div_floor, BigInt::div_floor/div_ceil) and Int(-2^64).as_negative() = Some(0).",
    "theorems": ["C14_checked_ops_exact", "C14_div_floor_zero_refuted", "C14_int_range_invariant", "C14_mint_builder_invariant",
                 "C14_int_range_refuted_before_repair", "C14_int_cbor_roundtrip", "C14_int_cast_argument",
                 "C14_int_min_panic_refuted_before_repair", "C14_int_decimal_roundtrip", "C14_int_from_str_refuted_before_repair",
                 "C14_metadata_int_json_exact", "C14_int_accessors_exact", "C14_int_as_negative_refuted", "C14_mint_as_multiasset_exact", "C14_mint_as_multiasset_refuted", "C14_bigint_cbor_roundtrip", "C14_decimal_roundtrip", "C14_from_str_canonical",
                 "C14_value_add_exact_or_error", "C14_value_sub_exact_or_error", "C14_value_sub_refuted_before_repair",
                 "C14_value_clamped_sub_spec", "C14_value_add_comm", "C14_value_add_assoc", "C14_sub_undoes_add",
                 "C14_compare_componentwise", "C14_value_eq_sound", "C14_judge_accepts_model"],
    "allowed_axioms": [],
    "compare": "exact",
    "custom_check": _custom_check,
    "nontrivial": _nontrivial,
    "gen_timeout": 1500,
    "rule": "cases: BigNum ops on the 12x12 grid of {0,1,2,2^32-1,2^32,2^63-1,2^63,2^63+1,2^64-2,2^64-1,...} plus operand pairs placed at the "
            "overflow/underflow/division boundary; compare/max; from_str on decimal-looking text (boundaries 2^63, 2^64, 2^127, 2^128, leading zeros, "
            "signs, underscores, whitespace, non-ASCII digits, empty); Int from every source (new, new_negative, new_i32, from_str, from_bytes with "
            "non-minimal / truncated / foreign heads, BigInt::as_int, JSON numbers, BasicConversions keys) observed through to_str, to_bytes, "
            "as_positive/as_negative/as_i32, from_str(to_str), from_bytes(to_bytes), serde_json round trip; MintBuilder histories of add_asset/set_asset "
            "with boundary amounts; BigInt values up to ~2000 bits at the 8/9, 64/65, 128/129-byte boundaries (to_bytes, from_bytes, to_str, from_str, "
            "as_u64, as_int), from_bytes on non-canonical encodings (wide heads, arbitrary chunkings, empty chunks, oversize chunks, wrong tags, "
            "missing break, truncation), from_str, add/sub/mul/div_floor/div_ceil incl. zero divisors; Value pairs (absent / empty / disjoint / "
            "overlapping / equal / sub-bundle / complement-to-2^64 asset sets, empty policies, zero quantities, asset names of different lengths) "
            "observed through checked_add both ways, checked_sub, clamped_sub, (a+b)-b, compare, <,<=,>,>=, ==, is_zero; triples for associativity; "
            "non-trivial = distinct case line whose model result is a normal result",
    "trusted_base": [
        "models of external crates: cbor_event head encoding/decoding (Cbor/Head.v), Rust core integer parsing/printing and num_bigint "
        "from_str/to_string/to_bytes_be/from_bytes_be/to_u64_digits (Num/Decimal.v, Num/BigIntCbor.v), serde_json number literal -> as_u64/as_i64",
        "the harness maps the abstract MintBuilder keys 0..3 to asset names of one native-script policy",
    ],
    "assumptions": [
        "value_wf: sorted distinct keys and quantities < 2^64 (what BTreeMap<_, BigNum> guarantees); asset names <= 32 bytes and 28-byte policy ids in the correspondence run",
        "arguments respect their Rust types (u64, i32); amounts handed to the MintBuilder are themselves obtainable Ints",
        "known classes: C14-div-by-zero-panic (divisor = 0), C14-int-as-negative-truncates (the Int is -2^64), C14-mint-duplicate-policy-dropped (a policy id occurs in two entries of a Mint)",
        "native-only conversions that bypass the wasm API (impl From<Vec<i128>> for CostModel) are not an Int source here",
        "two harness profiles are run on the same cases: dev (overflow checks on) and release (overflow checks off); both must agree exactly with the model",
    ],
    "explanation": "Theorems quantify over all operands, texts, byte strings, integers of any size, API histories and value bundles; the correspondence "
                   "run ties the Gallina models to the compiled library on seeded boundary-biased cases with exact comparison of canonical observations; "
                   "the Coq-extracted judge evaluates exact-or-error, range, round-trip and component-wise statements on the implementation's results.",
}
