def _nontrivial(rec):
    # non-trivial = the model produced a normal result for a distinct case line
    return rec["model"].startswith("ok ")


CFG = {
    "level": "proof",
    "level_text": "TODO",
    "level_note": "TODO",
    "theorems": ["C14_checked_ops_exact"],
    "allowed_axioms": [],
    "compare": "exact",
    "nontrivial": _nontrivial,
    "rule": "TODO",
    "trusted_base": [],
    "assumptions": [],
    "explanation": "TODO",
}
