def _nontrivial(rec):
    # non-trivial = the model produced a normal result (a minimum, an admitted output, a built transaction)
    return rec["model"].startswith("ok ")


CFG = {
    "level_text": "Coq proofs (closed under the global context) about an executable model of MinOutputAdaCalculator::calculate_ada "
                  "(three rounds + u64::MAX-width fallback, checked u64 arithmetic), of the serialised size of a TransactionOutput "
                  "(legacy / post-Alonzo form, value with or without bundle, datum hash / inline datum / script reference), of the "
                  "admission test of add_output, the collateral-return checks, the min-coin helper of the output builder, the "
                  "build() size guard and the change paths of add_change_if_needed (with fee arithmetic and bundle packing as "
                  "universally quantified oracle arguments): soundness and upper bound of the minimum for ALL base sizes, prices "
                  "and coins (and any number of rounds), error characterisation, least-ness up to the fallback, admission and "
                  "invariant theorems for every output the builder accepts or creates; three defects refuted by witnesses "
                  "(helper with addresses longer than 57 bytes, collateral return value size, top-up of the last change output "
                  "after admission) with conditional theorems delimiting them. The model is tied to the compiled code by an exact "
                  "differential run (minimum, sizes, admission decisions, coins of change outputs) and the Coq-extracted judge "
                  "evaluates the property's inequalities on the implementation's own serialised sizes.",
    "level_note": "Phase 3: the transaction size build() compares with max_tx_size is a proved size algebra (= length of the C01 Transaction encoding); the change paths are also proved on C05's full builder model instantiated with the concrete MinAda/TxSize oracle, and built transactions are compared with that model run stage by stage (no oracle values read off the implementation). Trusted: Coq kernel; the hand-written model (tied by correspondence on the generated cases); extraction "
                  "(ExtrOcamlBasic) and the OCaml/Rust glue. No axioms. Fee arithmetic, asset bookkeeping of the change and the "
                  "packing of bundles are opaque oracle arguments (all theorems quantify over them); the size of the fake full "
                  "transaction that build() compares with max_tx_size is the implementation's own figure.",
    "level": "proof",
    "theorems": ["C07_min_ada_sound", "C07_min_ada_upper", "C07_min_ada_any_rounds", "C07_min_ada_errors", "C07_min_ada_least",
                 "C07_min_ada_fallback_overestimates", "C07_out_size_decomposition", "C07_out_size_is_schema_encoding", "C07_out_size_is_standalone_schema_encoding", "C07_min_ada_for_output_sound",
                 "C07_admission", "C07_value_size", "C07_tx_size", "C07_tx_size_encoding", "C07_collateral_return",
                 "C07_collateral_return_value_size_refuted", "C07_output_builder_helper", "C07_output_builder_helper_refuted",
                 "C07_change_outputs_meet_min", "C07_change_on_builder_model", "C07_concrete_oracle_instance", "C07_refused_add_leaves_builder_unchanged", "C07_select_and_change_on_builder_model", "C07_collateral_return_entry_point", "C07_pack_bundles_fit", "C07_pack_single_asset_premise_needed", "C07_topup_refuted", "C07_topup_conditional"],
    "allowed_axioms": [],
    "compare": "exact",
    "nontrivial": _nontrivial,
    "gen_timeout": 900,
    "rule": "cases (see notes/design/C07.md for the later families: entry / txsize / mintout, histories with refused adds, change-window sweeps): min_ada_for_output on outputs over every address kind (base, enterprise, reward, pointer with 1..10-byte naturals, "
            "Byron with 0..300-byte derivation attribute, arbitrary-length malformed addresses), coins at 64-bit / CBOR-width edges and "
            "next to the five candidate prices, bundles (0..30 policies, 0..160 assets, names 0..32 bytes, edge quantities), datum hash / "
            "inline datum (0..70000 bytes) / native and Plutus script references, prices {0,1,2,255..257,4310,34482,2^20,16.25M,2^32,2^40,"
            "2^56,2^57,2^63,2^64-1,edge}; address-length sweeps that walk the price across 24 / 2^8 / 2^16 / 2^32 and through the fallback "
            "branch; add_output with coin = minimum-1/0/+1 and max_value_size = value size-1/0/+1; the output-builder helper; the three "
            "collateral-return entry points; built transactions with change (ADA-only, bundles, several change outputs, pure-change "
            "preference, datum on the change, small max_value_size / max_tx_size, change crossing 2^32, long change addresses). "
            "Compared exactly: minimum, sizes, value sizes, admission decisions, every output coin of built transactions. "
            "non-trivial = distinct case line whose model observation is a normal result",
    "trusted_base": [
        "size model MinAda/OutputSize.v (lengths only) -- tied by exact comparison with to_bytes().len() on every generated output",
        "oracle arguments of the change model (fees, packed bundles) are read off the implementation's result in the correspondence run",
    ],
    "assumptions": [
        "usize = 64 bit (native target); sizes, prices and coins are otherwise unbounded in the theorems",
        "build(): the theorem is about the guard (full_size <= max_tx_size); that full_size is the size of the signed transaction is C06/C18",
        "known classes (see known_findings.json): C07-raw-collateral-return-setter (set_collateral_return is an unchecked setter by design)",
        "inputs with zero-quantity assets / empty policies (not representable on chain) are outside the generated build scenarios",
    ],
    "explanation": "Theorems quantify over all base sizes, prices, coins, outputs, fee figures and packings (no range premises); the "
                   "correspondence run ties the Gallina model to the compiled code on seeded boundary-biased cases built from real library "
                   "values; the Coq-extracted judge evaluates coin >= cpb*(160+size), value size <= max and tx size <= max on the "
                   "implementation's own figures.",
}
