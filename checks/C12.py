def _nontrivial(rec):
    # non-trivial = the model produced a multi-field observation (a value was accepted and something was computed with it),
    # or a single accepted value; plain rejections (`err`) are counted as trivial
    m = rec["model"]
    return m.startswith("ok ") or m.startswith("seq ")


LAWS = [
    "law_shapes: output sizes of the primitives (public key 32, signature 64, xpub 64, derived xprv 96, derived xpub 64 bytes)",
    "law_sign_normal: cryptoxide ed25519 — verify(keypair(seed).pk, m, signature(m, keypair(seed))) = true for every 32-byte seed",
    "law_sign_extended: cryptoxide ed25519 — verify(extended_to_public(e), m, signature_extended(m, e)) = true for every 64-byte e whose scalar "
    "is below 2^255 (byte 31 <= 127, the precondition of scalarmult_base)",
    "law_xpub_layout: ed25519-bip32 — XPrv::public(k) = extended_to_public(k[0..64]) ++ k[64..96]",
    "law_soft_derivation: ed25519-bip32 V2 — XPub::derive(XPrv::public(k), i) = Ok(XPrv::public(XPrv::derive(k, i))) for i < 2^31",
    "law_hard_refused: ed25519-bip32 V2 — XPub::derive(p, i) = Err for i >= 2^31",
    "law_normalize3 / law_pbkdf2_bip39_shape: XPrv::normalize_bytes_force3rd yields 96 bytes passing from_bytes_verified; PBKDF2 output has the requested 96 bytes",
    "law_aead_roundtrip: ChaCha20-Poly1305 (empty aad) — decrypt(k, n, encrypt(k, n, p)) = p",
    "law_aead_shapes: ciphertext as long as the plaintext, 16-byte tag",
    "law_aead_authentic (functional form): decrypt(k, n, c, t) = Some p only if encrypt(k, n, p) = (c, t)",
    "law_aead_plain_by_ct: the plaintext returned by decrypt depends on key, nonce and ciphertext only (used by C12_emip3_rejects_modified_tag only)",
    "law_hash_shape: Blake2b-224 (uninterpreted function) returns 28 bytes (only C12_pubkey_hash uses it)",
]

CFG = {
    "level": "other",
    "level_text": "PARTIAL. Coq proofs (all closed under the global context) of the library's OWN wrapper logic around the cryptographic crates, for ALL "
                  "keys / messages / paths / passwords / salts / nonces / plaintexts and for EVERY instance of the primitives that satisfies a named list of "
                  "laws: witnesses sign exactly the hash bytes and verify under the key they carry (vkey, Icarus, Daedalus; chain code and attributes passed "
                  "through), 128-byte xprv layout and round trip with a strict length check, bytes / hex / bech32 round trips of all seven key and signature "
                  "types plus hash types and HRP mismatch = error (both now WITHOUT any bech32 premise: concrete model of the bech32 crate), serialized witnesses (C01 schemas) decode to the verifying key and signature, PublicKey::hash, whole soft derivation paths commute with to_public, hardened-from-public refused, BIP39 roots "
                  "are valid keys, EMIP-3 container salt|nonce|tag|ciphertext round-trips for all valid parameter lengths and decryption accepts only byte-exact "
                  "outputs of encryption. The cryptography itself (Ed25519, BIP32-Ed25519, PBKDF2, ChaCha20-Poly1305, bech32) is NOT proved: it enters as "
                  "explicit law premises visible in coq/Props/C12.v, which the correspondence run only TESTS on the real crates. The model is tied to the "
                  "compiled wrappers by an exact differential run in which the model's primitives are tables of calls made to the real crates.",
    "level_note": "Trusted / assumed: Coq kernel; the hand-written model of the wrappers (tied by correspondence on generated cases only); the 12 law premises about "
                  "cryptoxide / ed25519-bip32 listed under `assumptions` (bech32 is NO LONGER a premise: its fields are instantiated with the executable model of the bech32 "
                  "crate, Addr/Bech32.v, whose round-trip laws are proved in Addr/Bech32Proofs.v and whose text is compared exactly with the library's; what remains trusted "
                  "there is that model's transcription of the crate) (shown jointly satisfiable by a toy instance, C12_laws_satisfiable; exercised, not "
                  "proved, on the real crates); 'a modified container / another password is rejected' is proved only in the functional form "
                  "(accepted => exact encryption image; modified tag => Err) — computational unforgeability is a labelled per-instance premise of "
                  "C12_emip3_rejects_modified, and 'another password' is rejected only if it derives another key: PBKDF2-HMAC maps P and P followed by zero bytes (and an over-long password and its "
                  "SHA-512 digest) to the SAME key, so those are accepted — stated limitation, property of the external KDF (C12_emip3_password_only_through_key); 'verification fails under another key or message' is tested, not proved; the hook H12 pass-throughs; extraction and "
                  "OCaml/Rust glue; harness built with debug assertions. No axioms.",
    "theorems": ["C12_laws_satisfiable", "C12_bech32_laws_proved", "C12_witness_signs_hash", "C12_witness_bytes_sign_hash", "C12_pubkey_hash", "C12_xprv128_roundtrip", "C12_xprv128_unfixed_refuted",
                 "C12_key_encodings_roundtrip", "C12_key_encodings_roundtrip_any_codec", "C12_hash_bech32_unfixed_refuted", "C12_hrp_checked", "C12_hrp_checked_any_codec", "C12_soft_derivation_commutes",
                 "C12_hardened_from_public_refused", "C12_bip39_root_valid", "C12_emip3_roundtrip", "C12_emip3_empty_plaintext_unfixed_refuted",
                 "C12_emip3_accepts_only_encrypt_images", "C12_emip3_rejects_modified", "C12_emip3_rejects_modified_tag", "C12_emip3_password_only_through_key",
                 "C12_model_satisfies_judge", "C12_sequences_stepwise"],
    "allowed_axioms": [],
    "compare": "exact",
    "nontrivial": _nontrivial,
    "gen_timeout": 1500,
    "rule": "cases (one PRNG from VERIF_SEED): enc = every key/signature type x {valid values from four constructions, 22 boundary lengths 0..200, each structure bit "
            "flipped, constant fills}; dec = bytes (boundary lengths incl. 0,1,59,60,61,127,128,129), hex (case changes, odd length, foreign characters, prefixes), "
            "bech32 (own HRP, every other HRP, upper/mixed case, damaged, truncated, wrong payload sizes, 5-bit groups with bad padding, junk), 128-byte form "
            "(lengths, flipped structure bits, altered embedded public key, trailing byte); sign = normal/extended keys x message lengths 0..1000 x other "
            "message x other key, scalars at and beyond 2^255; wit = vkey / Icarus / Daedalus x Byron attributes (derivation path None/0..256 bytes, magic at CBOR "
            "width boundaries); derive = paths of depth 0..6 (all soft, all hard, mixed; CIP-1852); bip39 entropy 0..64 bytes; enc3/dec3 = valid parameters with "
            "plaintext lengths 0..200, each parameter of wrong length / malformed hex / upper case, genuine containers with each field damaged, fields reordered, "
            "truncated, extended, other password, lengths 0..76; pubderive = Bip32PublicKey paths from arbitrary xpubs; seq:<pattern> = SEQUENCES of such calls made one after the other in the one harness thread with deliberately related arguments (same key part / other chain code, same chain code / other key, same parent / other index, same index / other parent, repeats, wallet-like public scans interleaved with private derivation, one key material used as several key kinds, one bech32 payload under several HRPs, encrypt/decrypt under alternating passwords, salts, nonces): every step is compared with the model of that step ALONE, so any dependence on earlier calls is a disagreement. Each case line carries the table of external CRYPTOGRAPHIC primitive calls (made through the H12 pass-throughs); bech32 and hex texts and the witness CBOR are computed by the model itself "
            "that instantiates the model's primitives. Non-trivial = distinct case line whose model observation starts with an accepted value.",
    "trusted_base": [
        "external crates, assumed through explicit law premises and exercised (tested) by the run: cryptoxide 0.4.4 (ed25519, pbkdf2, hmac, sha2, chacha20poly1305, blake2b), "
        "ed25519-bip32 0.4.3; hex 0.4 and bech32 0.7.3 are MODELLED concretely (Base/Hex.v; Addr/Bech32.v with proved laws) and compared text-for-text, not assumed",
        "witness serialization uses the C01 schemas (Ledger/Schemas.v Vkeywitness / BootstrapWitness) and the generic encoder/decoder of Codec/Schema.v (round trip proved by C01)",
        "hook H12 (rust/src/verif_hooks_c12.rs, cfg csl_verif): pass-throughs to those crates used to tabulate the primitives independently of the wrappers",
        "concrete transcriptions of two external checks: XPrv::from_bytes_verified bit test (xprv_bits_ok) and scalarmult_base's a[31] <= 127 (ext_scalar_ok)",
        "Byron address parsing (ByronAddress::from_bytes) is C11's; C12 models only Attributes::serialize (what ByronAddress::attributes returns)",
    ],
    "assumptions": LAWS + [
        "the correspondence run TESTS (does not prove) on the real crates: the laws above, verify = false under another message / key, "
        "decryption failure for every damaged container / other password, validity of derived keys to depth 6",
        "LIMITATION of 'an error under any other password': decryption sees the password only through the PBKDF2 key (C12_emip3_password_only_through_key); "
        "PBKDF2-HMAC-SHA512 maps P and P followed by zero bytes to the same key (HMAC zero-pads its key) and a password longer than 128 bytes to the key of its "
        "SHA-512 digest, so such 'other' passwords ARE accepted by the unchanged code (observed in every run, sequence pattern related-passwords); property of the "
        "external KDF, not of the wrapper; the premise of C12_emip3_rejects_modified is false for those pairs",
        "C12_emip3_rejects_modified carries the per-instance premise 'the offered container is not itself a complete valid AEAD encryption under the key derived "
        "from the offered password and the carried salt' (computational unforgeability; not a mathematical truth)",
        "the harness is a debug-assertion build: an extended scalar >= 2^255 would trip cryptoxide's debug assertion (it yields non-verifying signatures in release); "
        "such keys are now rejected at construction (fix 53c1673)",
        "texts in cases are valid UTF-8; wasm-bindgen glue and JsError texts are not modelled",
        "hidden state is observable only along the call sequences the generator produces (single thread; nine relation patterns + the order of all other cases); known class excluded: C12-bit253-root-child-overflow (derivation from an accepted root with scalar bit 253 set that carries into bit 255)",
    ],
    "explanation": "PARTIAL by nature. Theorems quantify over all inputs and over every primitive instance obeying the listed laws; they establish the wrapper layer "
                   "(what is signed, layouts, offsets, length / structure / HRP checks, dispatch), not the cryptography. The correspondence run (a) compares every "
                   "wrapper exactly with the extracted model whose primitives are lookup tables of real-crate calls, the Coq-extracted judge evaluating the "
                   "property's statement on the implementation's observation, and (b) thereby exercises the assumed laws on the real crates — testing of external "
                   "code, not proof.",
}
