#!/usr/bin/env python3
import json,glob,os,sys
rows=[]
for d in sorted(glob.glob('/verif/seeded/*/')):
    n=os.path.basename(d.rstrip('/'))
    f=d+'eval.json'
    if not os.path.exists(f): rows.append((n,'-','-','-','not evaluated')); continue
    e=json.load(open(f))
    s=e.get('suite',{}); dm=e.get('demo',{})
    ch=[k.replace(':',' ') for k,v in e.get('checks',{}).items() if v.get('violation')]
    nf=[k for k,v in e.get('checks',{}).items() if v.get('violation') and 'no-failing-input-found' in ' '.join(v.get('lines',[]))]
    rows.append((n, s.get('passed','?'), '%s/%s'%(dm.get('fails_with_patch','?'),dm.get('passes_without','?')), e.get('applies'), (', '.join(ch) if ch else 'MISSED')+(' (break only)' if nf else '')))
for r in rows:
    if len(sys.argv)>1 and sys.argv[1]=='missed' and 'MISSED' not in r[4] and 'break only' not in r[4] and r[4]!='not evaluated': continue
    print('%-8s suite=%-4s demo=%-11s applies=%-5s %s'%r)
