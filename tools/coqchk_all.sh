#!/bin/bash
# Re-checks every compiled property file (and everything it depends on) with the independent checker and prints the axioms.
cd "$(dirname "$0")/../coq" || exit 1
mods=$(ls Props/C*.v | sed 's#/#.#; s#\.v$##; s#^#CSL.#')
time coqchk -o -silent -Q . CSL $mods 2>&1 | tail -40
