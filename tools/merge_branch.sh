#!/bin/bash
# Orchestrator helper: merge a property branch into main, regenerate the generated files, list what to run next.
#   tools/merge_branch.sh c14
set -u
cd /verif || exit 1
b="$1"
cp hooks.json /tmp/hooks.main.json
git show "$b":hooks.json > /tmp/hooks.branch.json 2>/dev/null || echo '[]' > /tmp/hooks.branch.json
git merge --no-commit --no-ff "$b" > /tmp/merge.out 2>&1
cat /tmp/merge.out | tail -5
# generated / union files: never hand-merge
python3 - <<'EOF'
import json
a = json.load(open('/tmp/hooks.main.json')); b = json.load(open('/tmp/hooks.branch.json'))
out = list(a)
for x in b:
    if x not in out: out.append(x)
json.dump(out, open('/verif/hooks.json', 'w'))
EOF
git checkout --ours MANIFEST.json known_findings.json 2>/dev/null
for f in $(git diff --name-only --diff-filter=U | grep "^evidence/"); do git checkout --theirs "$f" && git add "$f"; done
python3 gen_manifest.py
git add hooks.json MANIFEST.json known_findings.json
for f in $(git diff --name-only --diff-filter=U | grep "^seeded/.*/eval.json$"); do python3 tools/merge_eval_json.py "$f"; done
echo "--- unmerged paths:"
git diff --name-only --diff-filter=U
