#!/bin/bash
# Runs the repository's unedited baseline suite (guard OFF) on a scratch worktree of /repo's HEAD; prints the totals.
set -u
WT=/root/wt/baseline
[ -d $WT ] || git -C /repo worktree add -q --detach $WT HEAD
cd $WT && git checkout -q --detach "$(git -C /repo rev-parse HEAD)" && cp -n /repo/rust/Cargo.lock rust/Cargo.lock 2>/dev/null
cd rust && CARGO_NET_OFFLINE=true cargo test --workspace --no-fail-fast --offline 2>&1 | grep -E '^test result|FAILED|failed' | awk '{print} /test result/ {p+=$4; f+=$6; i+=$8} END {print "TOTAL passed=" p " failed=" f " ignored=" i " at " strftime("%H:%M:%S")}'
echo "repo HEAD $(git -C /repo rev-parse --short HEAD)"
