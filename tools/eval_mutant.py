#!/usr/bin/env python3
"""Evaluate one seeded change (a directory with patch.diff, demo.rs, meta.json) in isolation.

  tools/eval_mutant.py <dir> [--slot N] [--skip-suite] [--skip-demo] [--skip-checks] [--update] [--tiers quick,thorough] [--props C01,C02]

Nothing is applied to /repo: a scratch worktree of /repo's HEAD (/root/wt/evalrepo<N>) receives the patch, and a scratch
worktree of /verif's committed HEAD (/root/wt/evalverif<N>, `repo` symlink -> the scratch repo) runs the registered checks.
Steps: (1) patch applies, (2) the unedited baseline suite passes with the patch, (3) the demonstration fails with the
patch and passes without it, (4) `./check <property> quick` (then thorough when quick stays silent) must exit 1 with a
VIOLATION line.  Results go to <dir>/eval.json.  Both scratch worktrees stay for the next call of the same slot (their
build output makes later evaluations fast); remove them with --cleanup.
"""
import json, os, re, subprocess, sys, time

def sh(cmd, cwd=None, timeout=7200):
    env = dict(os.environ); env["CARGO_NET_OFFLINE"] = "true"
    try:
        p = subprocess.run(cmd, shell=True, cwd=cwd, stdout=subprocess.PIPE, stderr=subprocess.STDOUT, text=True,
                           errors="replace", timeout=timeout, env=env)
        return p.returncode, p.stdout
    except subprocess.TimeoutExpired as e:
        return 124, (e.stdout or "") if isinstance(e.stdout, str) else ""

def main():
    a = sys.argv[1:]
    if not a:
        print(__doc__); sys.exit(2)
    d = os.path.abspath(a[0])
    slot = a[a.index("--slot") + 1] if "--slot" in a else "0"
    tiers = a[a.index("--tiers") + 1].split(",") if "--tiers" in a else ["quick", "thorough"]
    repo_wt = "/root/wt/evalrepo" + slot
    verif_wt = "/root/wt/evalverif" + slot
    if "--cleanup" in a:
        sh("git -C /repo worktree remove --force %s; git -C /verif worktree remove --force %s" % (repo_wt, verif_wt)); return
    meta = json.load(open(os.path.join(d, "meta.json")))
    props = a[a.index("--props") + 1].split(",") if "--props" in a else [meta["property"]]
    res = {}
    if os.path.exists(os.path.join(d, "eval.json")) and "--update" in a:
        res = json.load(open(os.path.join(d, "eval.json")))
    res.update({"dir": d, "when": time.strftime("%Y-%m-%dT%H:%M:%SZ", time.gmtime()), "props": props})
    # scratch repo at /repo's HEAD
    if not os.path.isdir(repo_wt):
        sh("git -C /repo worktree add --detach %s HEAD" % repo_wt)
    sh("git reset -q --hard; git clean -fdq -e rust/target -e rust/Cargo.lock; git checkout -q --detach %s" % os.environ.get("EVAL_REPO_REV", "$(git -C /repo rev-parse HEAD)"), cwd=repo_wt)
    sh("cp -n /repo/rust/Cargo.lock %s/rust/Cargo.lock" % repo_wt)
    res["repo_head"] = sh("git rev-parse --short HEAD", cwd=repo_wt)[1].strip()
    rc, out = sh("git apply --whitespace=nowarn %s/patch.diff" % d, cwd=repo_wt)
    if rc != 0:
        # the library moved on since the change was written (fix: commits landed meanwhile): retry as a 3-way merge
        rc, out = sh("git apply --3way --whitespace=nowarn %s/patch.diff && git reset -q" % d, cwd=repo_wt)
        res["applied_3way"] = rc == 0
        if rc != 0:
            sh("git reset -q --hard", cwd=repo_wt)   # a failed 3-way merge leaves conflict markers and unmerged index entries
    res["applies"] = rc == 0
    if rc != 0:
        res["apply_output"] = out[-800:]
        json.dump(res, open(os.path.join(d, "eval.json"), "w"), indent=1); print(json.dumps(res, indent=1)); sys.exit(1)
    if "--skip-suite" not in a:
        t = time.time()
        rc, out = sh("cargo test --workspace --no-fail-fast --offline 2>&1 | grep -E '^test result|FAILED|failed|error(\\[|:)' | head -40", cwd=repo_wt + "/rust")
        passed = sum(int(x) for x in re.findall(r"(\d+) passed", out)); failed = sum(int(x) for x in re.findall(r"(\d+) failed", out))
        res["suite"] = {"passed": passed, "failed": failed, "secs": round(time.time() - t), "tail": out[-600:] if failed or passed < 532 else ""}
    demo = os.path.join(d, "demo.rs")
    if os.path.exists(demo) and "--skip-demo" not in a:
        name = "demo_seeded_eval"
        sh("mkdir -p %s/rust/tests && cp %s %s/rust/tests/%s.rs" % (repo_wt, demo, repo_wt, name))
        rc1, out1 = sh("cargo test --offline --test %s 2>&1 | tail -15" % name, cwd=repo_wt + "/rust")
        bad = "test result: FAILED" in out1 or "panicked" in out1
        # put the patched state aside in a file private to this slot (git stash is shared by all worktrees of a repo)
        sh("git diff > /tmp/eval-slot%s.state && git checkout -q -- ." % slot, cwd=repo_wt)
        rc2, out2 = sh("cargo test --offline --test %s 2>&1 | tail -15" % name, cwd=repo_wt + "/rust")
        good = "test result: ok" in out2
        sh("git apply --whitespace=nowarn /tmp/eval-slot%s.state" % slot, cwd=repo_wt)
        sh("rm -f %s/rust/tests/%s.rs" % (repo_wt, name))
        res["demo"] = {"fails_with_patch": bad, "passes_without": good,
                       "with_tail": out1[-400:] if not bad else "", "without_tail": out2[-400:] if not good else ""}
    # scratch verif at /verif's committed HEAD
    if not os.path.isdir(verif_wt):
        sh("git -C /verif worktree add --detach %s HEAD" % verif_wt)
    sh("git checkout -q -- . ; git checkout -q --detach %s" % os.environ.get("EVAL_VERIF_REV", "$(git -C /verif rev-parse HEAD)"), cwd=verif_wt)
    sh("ln -sfn %s %s/repo" % (repo_wt, verif_wt))
    res["patched_tree_diffstat"] = sh("git diff --stat | tail -1", cwd=repo_wt)[1].strip()
    res["verif_head"] = sh("git rev-parse --short HEAD", cwd=verif_wt)[1].strip()
    res.setdefault("checks", {})
    for pid in ([] if "--skip-checks" in a else props):
        for tier in tiers:
            t = time.time()
            rc, out = sh("./check %s %s 2>&1 | tail -12" % (pid, tier), cwd=verif_wt, timeout=5400)
            viol = [l for l in out.split("\n") if l.startswith("VIOLATION")]
            res["checks"]["%s:%s" % (pid, tier)] = {"violation": bool(viol), "lines": viol[:3], "secs": round(time.time() - t), "tail": out[-700:]}
            if viol:
                m = re.search(r"replay=(\S+)", viol[0])
                if m and os.path.exists(os.path.join(verif_wt, m.group(1)) if not m.group(1).startswith("/") else m.group(1)):
                    p = m.group(1) if m.group(1).startswith("/") else os.path.join(verif_wt, m.group(1))
                    res["checks"]["%s:%s" % (pid, tier)]["replay_head"] = open(p, errors="replace").read()[:1500]
                break
    sh("ln -sfn /repo %s/repo" % verif_wt)
    sh("git reset -q --hard; git clean -fdq -e rust/target -e rust/Cargo.lock", cwd=repo_wt)
    res["caught"] = any(v["violation"] for v in res["checks"].values())
    json.dump(res, open(os.path.join(d, "eval.json"), "w"), indent=1)
    print(json.dumps({k: v for k, v in res.items() if k != "checks"}, indent=1))
    for k, v in res["checks"].items():
        print(k, "VIOLATION" if v["violation"] else "silent", v["secs"], "s", v["lines"][:1])

main()
