#!/bin/bash
# Runs every registered quick check once on the unchanged tree; prints one line per check.  tools/run_all.sh [seed]
cd /verif || exit 1
export VERIF_SEED=${1:-1}
for p in C01 C02 C03 C04 C05 C06 C07 C08 C09 C10 C11 C12 C13 C14 C15 C16 C17 C18 C19 C20; do ./check $p quick 2>&1 | grep -E "^C[0-9]+ quick|VIOLATION"; done
