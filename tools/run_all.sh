#!/bin/bash
# Runs every registered check once on the unchanged tree; prints one line per check.   tools/run_all.sh [seed] [tier]
cd "$(dirname "$0")/.." || exit 1
export VERIF_SEED=${1:-1}
tier=${2:-quick}
for p in C01 C02 C03 C04 C05 C06 C07 C08 C09 C10 C11 C12 C13 C14 C15 C16 C17 C18 C19 C20; do
  s=$(date +%s); ./check $p $tier 2>&1 | grep -E "^C[0-9]+ (quick|thorough)|VIOLATION"; echo "  [$p $tier seed=$VERIF_SEED wall $(( $(date +%s) - s ))s rc=${PIPESTATUS[0]}]"
done
