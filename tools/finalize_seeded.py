#!/usr/bin/env python3
"""Writes the orchestrator's confirmation into every seeded/<id>/meta.json from its eval.json (what was run, what was
observed, which check catches it), keeping the sub-agent's own fields.  Re-runnable."""
import glob, json, os
HIST = {}   # id -> free-text detection history, maintained by hand below
HIST_FILE = os.path.join(os.path.dirname(os.path.abspath(__file__)), "seeded_history.json")
if os.path.exists(HIST_FILE):
    HIST = json.load(open(HIST_FILE))
for d in sorted(glob.glob("/verif/seeded/*/")):
    name = os.path.basename(d.rstrip("/"))
    mp, ep = d + "meta.json", d + "eval.json"
    if not (os.path.exists(mp) and os.path.exists(ep)):
        continue
    m, e = json.load(open(mp)), json.load(open(ep))
    checks = e.get("checks", {})
    # a silent thorough record kept from an evaluation made BEFORE the check was strengthened is stale once the same
    # property's quick check catches the change (thorough was not re-run): it is not reported as a silent check
    stale = [k for k, v in checks.items() if k.endswith(":thorough") and not v.get("violation")
             and checks.get(k.replace(":thorough", ":quick"), {}).get("violation")]
    caught = sorted(k.replace(":", " ") for k, v in checks.items() if v.get("violation"))
    silent = sorted(k.replace(":", " ") for k, v in checks.items() if not v.get("violation") and k not in stale)
    if stale:
        m["stale_records"] = [k.replace(":", " ") + " (silent in an evaluation made before the check was strengthened; not re-run)" for k in sorted(stale)]
    m["breaks_property"] = m.get("property")
    m["confirmed_by_orchestrator"] = {
        "patch_applies_to_repo_rev": e.get("repo_head"), "applied_with_3way_merge": bool(e.get("applied_3way")),
        "unedited_suite_with_patch": "%s passed, %s failed" % (e.get("suite", {}).get("passed", "?"), e.get("suite", {}).get("failed", "?")),
        "demonstration_fails_with_patch": e.get("demo", {}).get("fails_with_patch"),
        "demonstration_passes_without_patch": e.get("demo", {}).get("passes_without"),
    }
    m["what_was_run"] = ("tools/eval_mutant.py: scratch worktree of /repo at the given revision + `git apply patch.diff`; "
                         "`cargo test --workspace --no-fail-fast --offline` (unedited suite); demo.rs copied to rust/tests/ and run with and "
                         "without the patch; then `./check <property> quick` (and `thorough` when quick stayed silent) in a scratch worktree of "
                         "/verif (revision %s) whose `repo` symlink points at the patched tree. /repo itself never carried the change." % e.get("verif_head"))
    m["caught_by"] = caught
    m["silent_checks"] = silent
    if name in HIST:
        m["detection_history"] = HIST[name]
    json.dump(m, open(mp, "w"), indent=1)
print("meta.json updated for", len(glob.glob("/verif/seeded/*/meta.json")), "seeded changes")
