#!/usr/bin/env python3
"""Resolves a merge conflict in seeded/*/eval.json: union of the `checks` of both sides (theirs wins per key)."""
import json, subprocess, sys
for path in sys.argv[1:]:
    def side(n):
        r = subprocess.run(["git", "show", ":%d:%s" % (n, path)], capture_output=True, text=True)
        return json.loads(r.stdout) if r.returncode == 0 and r.stdout.strip() else None
    ours, theirs = side(2), side(3)
    out = ours or theirs
    if ours and theirs:
        out = dict(ours); out["checks"] = dict(ours.get("checks", {})); out["checks"].update(theirs.get("checks", {}))
        out["verif_head"] = theirs.get("verif_head", ours.get("verif_head"))
    out["caught"] = any(v.get("violation") for v in out.get("checks", {}).values())
    json.dump(out, open(path, "w"), indent=1)
    subprocess.run(["git", "add", path])
    print("resolved", path, sorted(out.get("checks", {})))
