#!/usr/bin/env python3
"""Writes MANIFEST.json from checks/*.py (claimed properties) and the PENDING table below."""
import glob, importlib.util, json, os
ROOT = os.path.dirname(os.path.abspath(__file__))
ALL = ["C%02d" % i for i in range(1, 21)]
checks, na = [], []
for pid in ALL:
    p = os.path.join(ROOT, "checks", pid + ".py")
    if os.path.exists(p):
        spec = importlib.util.spec_from_file_location("cfg", p); m = importlib.util.module_from_spec(spec); spec.loader.exec_module(m)
        c = m.CFG
        if c.get("claimed", True):
            checks.append({
                "property_id": pid,
                "quick_cmd": "./check %s quick" % pid,
                "thorough_cmd": "./check %s thorough" % pid,
                "evidence_file": "/verif/evidence/%s.json" % pid,
                "replay_cmd_template": "./check %s --replay {path}" % pid,
                "engine": "coq-model-correspondence",
                "level_claimed": {"category": c.get("level", "proof"), "text": c["level_text"], "design_ref": c.get("design_ref", "DESIGN.md section 6, " + pid)},
                "level_note": c["level_note"],
                "technique": c.get("technique", "machine-checked proof in Coq 8.16 about a hand-written Gallina model + differential correspondence check of the extracted model against the compiled Rust code"),
            })
            continue
        na.append({"property_id": pid, "reason": c.get("na_reason", "check withdrawn")})
    else:
        na.append({"property_id": pid, "reason": "not yet claimed: the Coq model, theorems and correspondence harness for this property are not built yet (work in progress, see DESIGN.md section 6); the technique applies"})
kf = []
for f in sorted(glob.glob(os.path.join(ROOT, "known_findings.d", "*.json"))):
    kf += json.load(open(f))
json.dump(kf, open(os.path.join(ROOT, "known_findings.json"), "w"), indent=1)
man = {
    "version": 1,
    "setup_cmd": "./setup.sh",
    "hooks": {
        "guard": "csl_verif",
        "enable": "RUSTFLAGS=\"--cfg csl_verif\" (set in /verif/harness/.cargo/config.toml for the harness crate, which path-depends on /repo/rust)",
        "baseline_off_cmd": "cd /repo/rust && cargo test --workspace --no-fail-fast --offline",
        "source_commits": json.load(open(os.path.join(ROOT, "hooks.json"))) if os.path.exists(os.path.join(ROOT, "hooks.json")) else [],
        "add_only": True,
    },
    "engines": [{
        "name": "coq-model-correspondence", "path": "/verif/check",
        "serves_properties": [c["property_id"] for c in checks],
        "kind_free_text": "Coq 8.16 theorems about hand-written executable Gallina models (coq/), extracted to OCaml (ocaml/) and run against the compiled Rust code through a harness crate (harness/) on the same seeded cases; Coq-extracted spec predicates judge the implementation's results",
    }],
    "checks": checks,
    "not_applicable": na,
    "notes": "See DESIGN.md. known_findings.json lists genuine defects (known / fixed).",
}
json.dump(man, open(os.path.join(ROOT, "MANIFEST.json"), "w"), indent=1)
print("claimed:", [c["property_id"] for c in checks])
