#!/bin/bash
# MANIFEST.setup_cmd: build the whole framework offline from files on disk.
set -u
cd "$(dirname "$0")"
export CARGO_NET_OFFLINE=true
[ -f harness/Cargo.lock ] || cp /repo/rust/Cargo.lock harness/Cargo.lock
python3 - <<'PY'
import sys, os
sys.path.insert(0, os.getcwd())
import verif_lib
verif_lib.ensure_makefile()
PY
( cd coq && timeout 7200 make -j16 2>&1 | tail -40 )
( cd harness && timeout 7200 cargo build --offline --bins 2>&1 | tail -5 )
python3 - <<'PY'
import sys, os, glob
sys.path.insert(0, os.getcwd())
import verif_lib, importlib.util
for p in sorted(glob.glob("checks/C*.py")):
    pid = os.path.basename(p)[:-3]
    spec = importlib.util.spec_from_file_location("cfg", p); m = importlib.util.module_from_spec(spec); spec.loader.exec_module(m)
    if m.CFG.get("no_driver"): continue
    ok = verif_lib.build_driver(pid, m.CFG, sys.stdout)
    print("driver", pid, "ok" if ok else "FAILED")
PY
echo setup done
